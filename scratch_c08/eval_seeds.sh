#!/bin/sh
# usage: eval_seeds.sh  -> writes scratch_c08/eval_seeds.log
cd /tmp/w/SC08
LOG=scratch_c08/eval_seeds.log
: > $LOG
for m in m1 m2 m3 m4 m5 m6 m8 m7 m9; do
  W=/tmp/c08_$m
  if [ ! -d $W ]; then
    git -C /repo worktree add --detach $W >/dev/null 2>&1
    if ! git -C $W apply /tmp/w/SC08/seeded/C08-$m/patch.diff 2>>$LOG; then echo "== $m PATCH DOES NOT APPLY" >> $LOG; git -C /repo worktree remove --force $W; continue; fi
  fi
  seeds="0"; case $m in m7|m9) seeds="0 1 2";; esac
  for sd in $seeds; do
    echo "== $m seed $sd" >> $LOG
    VERIF_SEED=$sd RATTR_REPO=$W PYTHONPATH=$W ./check C08 > scratch_c08/out_$m_$sd.txt 2>&1
    echo "exit=$?" >> $LOG
    grep -v "^KNOWN" scratch_c08/out_$m_$sd.txt | tail -3 >> $LOG
    for f in evidence/replays/C08-quick-$sd-*.json; do
      /venv/bin/python -c "
import json,sys
v=json.load(open('$f')); c=v.get('case',{}) or {}
print('    ', v.get('kind'), v.get('signature'), '|', str(c.get('caller') or (c.get('files') or {}).get('target.py') or '')[:90].replace(chr(10),' / '), v.get('marks'))" >> $LOG 2>&1
    done
    rm -f evidence/replays/C08-quick-$sd-*.json
  done
  git -C /repo worktree remove --force $W
done
echo DONE >> $LOG

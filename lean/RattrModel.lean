import RattrModel.Basic
import RattrModel.Generated.C04
import RattrModel.Swaps
import RattrModel.Spec.PyBind

import RattrModel.Basic
import RattrModel.Generated
import RattrModel.Swaps
import RattrModel.Spec.PyBind

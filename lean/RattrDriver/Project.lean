/- Driver glue for the project model: op `project` (not part of the verified model). -/
import RattrDriver.Pipeline
import RattrModel.Project

namespace Rattr.Driver.Project
open Lean Rattr Rattr.Driver Rattr.FnA Rattr.Driver.Visit Rattr.Pipeline Rattr.Project
open Rattr.Driver.Pipeline (strsJson docJson maxTie depthOf)

def parseFile (j : Json) : R FileIn := do
  let c ← File.parseCase j
  return { modName := str (← asStr (← field j "modName")),
           derived := (← asOptStr (← field j "derived")).map str,
           pathId := (← asNat (← field j "pathId")),
           env := c.env, mn := c.mn, facts := c.facts, builtins := c.builtins, body := c.body }

def parseFacts (j : Json) : R PFacts := do
  return { excluded := (← asStrL (fieldD j "excluded" (Json.arr #[]))),
           existing := (← asStrL (fieldD j "existing" (Json.arr #[]))),
           ignored := (← asStrL (fieldD j "ignored" (Json.arr #[]))) }

/-- the qualified names the results stage may ask module facts about: every Import call target and
every Import symbol of every file's context (re-export chains) -/
def quals (env : PEnv) : List Str :=
  let tg := (((gfir env).flatMap (·.2.calls)).filterMap (·.target)).filter (·.kind == .import_)
  let cx := (env.flatMap fun e => RootCtx.scopeSyms e.ctx).filter (·.kind == .import_)
  ((tg ++ cx).map (·.qual)).eraseDups

def fileOfKey (env : PEnv) (k : Key) : Nat :=
  ((List.range env.length).filter fun i => offset env i ≤ k).foldl max 0

def stats (env : PEnv) (P : Prog) : Nat × Nat × Nat :=
  let g := gfir env
  let edgesOf (cross : Bool) : Nat :=
    ((List.range g.length).map fun k =>
      ((Results.fnAt P k).calls.filter fun c =>
        match P.resolve c.cid with
        | some t => !cross || fileOfKey env t != fileOfKey env k
        | none => false).length).foldl (· + ·) 0
  let depth := ((List.range (fileAt env 0).fir.length).map fun r =>
      match Results.callTree P r with
      | some nodes => ((List.range nodes.length).map (depthOf nodes nodes.length)).foldl max 0
      | none => 0).foldl max 0
  (edgesOf false, edgesOf true, depth)

/-- op `project`: `Project.runWith` on the encodings of the target and the followed files. -/
def handle (payload : Json) : R Json := do
  let files ← (← asArr (← field payload "files")).mapM parseFile
  let pf ← parseFacts (fieldD payload "facts" (Json.mkObj []))
  let ties ← asStr (fieldD payload "ties" (Json.str "insertion"))
  let ord : List CallSym → List CallSym := if ties == "reversed" then List.reverse else id
  match files with
  | [] => throw "no files"
  | t :: imports =>
    let mut extra : List (String × Json) := []
    match analyseAll t imports with
    | .ok env =>
      let P := toProgP id pf env
      let (e, x, d) := stats env P
      extra := [("quals", strsJson (quals env)),
                ("callTargets", strsJson ((((gfir env).flatMap (·.2.calls)).filterMap (·.target)).filter (·.kind == .func) |>.map (·.name) |>.eraseDups)),
                ("maxTie", Json.num (maxTie P)), ("edges", Json.num e), ("crossEdges", Json.num x), ("depth", Json.num d),
                ("keys", jList (env.map fun f => Json.num f.fir.length))]
    | _ => pure ()
    match runWith ord pf t imports with
    | .ok (doc, σ) =>
      let names : List Str := match analyseAll t imports with
        | .ok env => (gfir env).map (fun (p : Sym × IR) => p.1.name)
        | _ => []
      let store := jList ((names.zip σ).map fun ((n, e) : Str × IrSets) =>
        Json.mkObj [("name", Json.str n.toS), ("gets", jList (e.gets.map nameJson)),
                    ("sets", jList (e.sets.map nameJson)), ("dels", jList (e.dels.map nameJson))])
      return Json.mkObj ([("outcome", Json.str "ok"), ("exc", Json.str ""), ("doc", docJson doc), ("store", store)] ++ extra)
    | .fatal _ d => return Json.mkObj ([("outcome", Json.str "fatal"), ("exc", Json.str d.tmpl.toS)] ++ extra)
    | .crash e => return Json.mkObj ([("outcome", Json.str "crash"), ("exc", Json.str e.toS)] ++ extra)

end Rattr.Driver.Project

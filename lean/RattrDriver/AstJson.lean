/- JSON ⇄ model AST / symbols (driver glue, not part of the verified model). -/
import RattrDriver.JsonUtil
import RattrModel.Ast
import RattrModel.Context
import RattrModel.Match

namespace Rattr.Driver
open Lean Rattr

def asECtx (j : Json) : R ECtx := do
  match (← asNat j) with
  | 0 => return .load
  | 1 => return .store
  | 2 => return .del
  | _ => throw "bad ctx"

def asStrL (j : Json) : R (List Str) := do return (← asStrList j).map str

def asParams (j : Json) : R Params := do
  return { posonly := (← asStrL (← field j "posonly")), args := (← asStrL (← field j "args")),
           vararg := (← asOptStr (← field j "vararg")).map str,
           kwonly := (← asStrL (← field j "kwonly")), kwarg := (← asOptStr (← field j "kwarg")).map str }

mutual
/-- a typed `match` pattern (RattrModel/Match.lean): `{"p": "value" | "singleton" | "seq" | "map" | "cls" |
"star" | "as" | "or", …}` -/
partial def asPat (j : Json) : R Pat := do
  let p ← asStr (← field j "p")
  let pats (key : String) : R (List Pat) := do (← asArr (← field j key)).mapM asPat
  let optName (key : String) : R (Option Str) := do return (← asOptStr (← field j key)).map str
  match p with
  | "value" => return .value (← asNode (← field j "e"))
  | "singleton" => return .singleton
  | "seq" => return .sequence (← pats "ps")
  | "map" => return .mapping (← (← asArr (← field j "keys")).mapM asNode) (← pats "ps") (← optName "rest")
  | "cls" => return .cls (← asNode (← field j "c")) (← pats "ps") (← asStrL (← field j "kwa")) (← pats "kwps")
  | "star" => return .star (← optName "name")
  | "as" => return .as_ (← pats "pat") (← optName "name")
  | "or" => return .or_ (← pats "ps")
  | _ => throw s!"unknown pattern kind {p}"

partial def asMatchCase (j : Json) : R MatchCase := do
  return { pat := (← asPat (← field j "pat")), guard := (← (← asArr (← field j "guard")).mapM asNode),
           body := (← (← asArr (← field j "body")).mapM asNode) }

partial def asNode (j : Json) : R Node := do
  let k ← asStr (← field j "k")
  let nodes (key : String) : R (List Node) := do (← asArr (← field j key)).mapM asNode
  let node (key : String) : R Node := do asNode (← field j key)
  let s (key : String) : R Str := do return str (← asStr (← field j key))
  match k with
  | "name" => return .name (← s "id") (← asECtx (← field j "c"))
  | "attr" => return .attr (← node "v") (← s "a") (← asECtx (← field j "c"))
  | "sub" => return .sub (← node "v") (← node "sl") (← asECtx (← field j "c"))
  | "starred" => return .starred (← node "v") (← asECtx (← field j "c"))
  | "call" =>
    let kwn ← (← asArr (← field j "kwn")).mapM (fun x => do return (← asOptStr x).map str)
    return .call (← node "f") (← nodes "args") kwn (← nodes "kwv")
  | "lam" => return .lam (← asParams (← field j "ps")) (← node "body")
  | "comp" => return .comp (← s "kind") (← nodes "elts") (← nodes "gens")
  | "gen" => return .gen (← node "t") (← node "iter") (← nodes "ifs")
  | "walrus" => return .walrus (← node "t") (← node "v")
  | "str" => return .strConst (← s "s")
  | "const" => return .const
  | "seq" => return .seq (← s "kind") (← nodes "elts") (← asECtx (← field j "c"))
  | "dict" => return .dict (← nodes "keys") (← nodes "vals")
  | "assign" => return .assign (← nodes "targets") (← node "v")
  | "ann" => return .annAssign (← node "t") (← node "ann") (← nodes "v")
  | "aug" => return .augAssign (← node "t") (← node "v")
  | "delete" => return .delete (← nodes "targets")
  | "for" => return .forLoop (← node "t") (← node "iter") (← nodes "body") (← nodes "orelse")
  | "with" => return .withStmt (← nodes "items") (← nodes "body")
  | "withitem" => return .withitem (← node "ce") (← nodes "vars")
  | "def" => return .funcDef (← s "name") (← asParams (← field j "ps")) (← nodes "body")
  | "class" => return .classDef (← s "name")
  | "ret" => return .ret (← nodes "v")
  | "forbidden" => return .forbidden (← s "kind")
  | "other" => return .other (← s "kind") (← nodes "kids")
  | "match" => return Match.stmt (← node "subject") (← (← asArr (← field j "cases")).mapM asMatchCase)
  | _ => throw s!"unknown node kind {k}"
end

def asIfaceStr (j : Json) : R (Iface Str) := do
  return { posonly := (← asStrL (← field j "posonly")), args := (← asStrL (← field j "args")),
           vararg := (← asOptStr (← field j "vararg")).map str,
           kwonly := (← asStrL (← field j "kwonly")), kwarg := (← asOptStr (← field j "kwarg")).map str }

def asSym (j : Json) : R Sym := do
  let kind ← match (← asStr (← field j "kind")) with
    | "Name" => pure SymKind.name
    | "Builtin" => pure SymKind.builtin
    | "Import" => pure SymKind.import_
    | "Func" => pure SymKind.func
    | "Class" => pure SymKind.cls
    | x => throw s!"bad sym kind {x}"
  let iface ← match fieldD j "iface" Json.null with
    | .null => pure none
    | i => do pure (some (← asIfaceStr i))
  return { kind := kind, name := str (← asStr (← field j "name")),
           callable := (← asBool (← field j "callable")), iface := iface,
           qual := str (← asStr (fieldD j "qual" (Json.str ""))),
           modExists := (← asBool (fieldD j "modExists" (Json.bool false))) }

def ifaceJson (i : Iface Str) : Json :=
  Json.mkObj [("posonly", jStrList (i.posonly.map Str.toS)), ("args", jStrList (i.args.map Str.toS)),
              ("vararg", jOptStr (i.vararg.map Str.toS)), ("kwonly", jStrList (i.kwonly.map Str.toS)),
              ("kwarg", jOptStr (i.kwarg.map Str.toS))]

def symJson (s : Sym) : Json :=
  let kind := match s.kind with
    | .name => "Name" | .builtin => "Builtin" | .import_ => "Import" | .func => "Func" | .cls => "Class"
  Json.mkObj [("kind", kind), ("name", s.name.toS), ("callable", s.callable),
              ("iface", match s.iface with | none => Json.null | some i => ifaceJson i),
              ("qual", s.qual.toS)]

end Rattr.Driver

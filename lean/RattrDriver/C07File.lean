/- Driver glue for C07 on whole modules: op `no_crash_shape_file` (not part of the verified model). -/
import RattrDriver.File
import RattrDriver.Pipeline
import RattrModel.CrashFile

namespace Rattr.Driver.C07File
open Lean Rattr Rattr.Driver Rattr.Crash

def topKind : Top → String
  | .importStmt _ => "import" | .importFrom .. => "importfrom" | .funcDef .. => "def" | .classDef .. => "class"
  | .assign .. => "assign" | .delete _ => "delete" | .exprStmt _ => "exprstmt" | .expr _ => "expr"
  | .tryStmt .. => "try" | .compound k _ => "compound:" ++ k.toS

/-- op `no_crash_shape_file`: the module encoding of `analyse_file` → the Lean predicate
`Crash.NoCrashShapeFile` (`ok`), its three parts, and per top-level statement which part rejects it. -/
def handle (payload : Json) : R Json := do
  let c ← File.parseCase payload
  let reg := registerLOk c.body
  let custom := noCustomOnDef c.env.analysers c.mn
  let shape := visitTopsOk c.facts c.body
  let (bound, rootOutcome) := match RootCtx.compile c.facts c.builtins c.body with
    | .ok r => (classesBoundL c.facts r.ctx c.body, "ok")
    | .fatal _ _ => (true, "fatal")
    | .crash _ _ => (true, "crash")
  let ctx := match RootCtx.compile c.facts c.builtins c.body with
    | .ok r => r.ctx
    | _ => []
  let rows := c.body.filterMap fun t =>
    let bad := (if registerOk t then [] else ["root-context"]) ++
               (if visitTopOk c.facts t then [] else ["file-analyser"]) ++
               (if rootOutcome != "ok" || classesBound c.facts ctx t then [] else ["K11:class-not-bound"])
    if bad.isEmpty then none else some (Json.mkObj [("stmt", topKind t), ("parts", jStrList bad)])
  return Json.mkObj [("ok", Json.bool (NoCrashShapeFile c.env.analysers c.mn c.facts c.builtins c.body)),
                     ("register", Json.bool reg), ("noCustomOnDef", Json.bool custom), ("shape", Json.bool shape),
                     ("classesBound", Json.bool bound), ("root", rootOutcome),
                     ("rows", jList rows)]

/-- op `no_crash_shape_pipeline`: the payload of op `pipeline` (module + `imports` facts) → the Lean predicate
`Crash.NoCrashShapePipeline` (`ok`), `NoCrashShapeFile` (`file`) and, when the front stages end normally, which
clause of `ResultsSafe` the FileIr fails. -/
def handlePipeline (payload : Json) : R Json := do
  let c ← File.parseCase payload
  let imp ← (← asArr (fieldD payload "imports" (Json.arr #[]))).mapM Pipeline.asImpFact
  let fileOk := NoCrashShapeFile c.env.analysers c.mn c.facts c.builtins c.body
  let (front, parts) : String × List String := match FileA.analyseFile c.env c.mn c.facts c.builtins c.body with
    | .ok (fir, _) =>
      ("ok",
       (if fir.all (fun p => irNamesWF p.2) then [] else ["K22:name-without-its-basename"]) ++
       (if fir.all (fun p => ifaceClean (p.1.iface.getD Rattr.Pipeline.emptyIface)) then [] else ["starred-parameter-name"]) ++
       (if fir.all (fun p => p.2.calls.all (callImportOk imp)) then [] else ["K9:import-not-found"]))
    | .fatal _ _ => ("fatal", [])
    | .crash _ => ("crash", [])
  return Json.mkObj [("ok", Json.bool (NoCrashShapePipeline c.env c.mn c.facts c.builtins c.body imp)),
                     ("file", Json.bool fileOk), ("front", front), ("resultsUnsafe", jStrList parts)]

end Rattr.Driver.C07File

import RattrDriver.AstJson
import RattrModel.FnAnalyser

namespace Rattr.Driver.Visit
open Lean Rattr Rattr.Driver Rattr.FnA

def nameJson (n : NameS) : Json := Json.arr #[Json.str n.full.toS, Json.str n.base.toS]

def callJson (c : CallSym) : Json :=
  Json.mkObj [("name", c.name.toS), ("args", jStrList (c.args.map Str.toS)),
              ("kwargs", jPairList (c.kwargs.map (fun (a, b) => (a.toS, b.toS)))),
              ("target", match c.target with | none => Json.null | some t => symJson t)]

def lvlStr : Level → String
  | .info => "info" | .warning => "warning" | .error => "error" | .fatal => "fatal"

def diagJson (d : Diag) : Json :=
  Json.arr #[Json.str (lvlStr d.lvl), Json.str d.tmpl.toS, Json.str d.arg.toS]

def stJson (outcome : String) (exc : String) (s : St) : Json :=
  Json.mkObj [("outcome", outcome), ("exc", exc),
              ("gets", jList (s.gets.map nameJson)), ("sets", jList (s.sets.map nameJson)),
              ("dels", jList (s.dels.map nameJson)), ("calls", jList (s.calls.map callJson)),
              ("diags", jList (s.diags.map diagJson)),
              ("ctx_depth", Json.num s.ctx.length)]

def parseEnv (j : Json) : R Env := do
  return { ctxEnv := { prims := (← asStrL (← field j "prims")), literals := (← asStrL (← field j "literals")) },
           analysers := (← asStrL (← field j "analysers")) }

/-- op `analyse_fn`: root context symbols (insertion order), module name, params, body. -/
def handle (payload : Json) : R Json := do
  let env ← parseEnv (← field payload "env")
  let rootSyms ← (← asArr (← field payload "root")).mapM asSym
  let root : Context := [rootSyms.map (fun s => (s.name, s))]
  let mn := str (← asStr (← field payload "module"))
  let ps ← asParams (← field payload "params")
  let body ← (← asArr (← field payload "body")).mapM asNode
  match analyse env mn root ps body with
  | .ok s => return stJson "ok" "" s
  | .fatal s d => return stJson "fatal" d.tmpl.toS s
  | .crash s e => return stJson "crash" e.toS s

end Rattr.Driver.Visit

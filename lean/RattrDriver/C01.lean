/- Driver glue for C01's star-import stages (not part of the verified model).

   op `star_root`: `Pipeline2.rootOf P P.target` — `compile_root_context(ast).expand_starred_imports()`
                   of the target under `enter_file(target)`: the symbols of the expanded root context
                   and the diagnostics of the walk over the star-imported files;
   op `star_file`: `Pipeline2.analyseAt P P.target` — the same root context, then the file walk
                   (`FileAnalyser(ast, ctx).analyse()`): FileIr keys with their IRs, as op `analyse_file`
                   prints them.

   Facts protocol as in op `pipeline2`: a fact the model was not given is the explicit outcome
   `crash "Need{Qual,File,Mod}:<what>"`. -/
import RattrDriver.File
import RattrDriver.Pipeline2
import RattrModel.Pipeline2

namespace Rattr.Driver.C01
open Lean Rattr Rattr.Driver Rattr.FnA Rattr.Driver.Visit Rattr.Pipeline2

/-- qualified names of Import symbols of a context the harness gave no `mods` fact for -/
def missing (P : Project) (c : Context) : List Str :=
  ((importsOf c).map (·.qual)).filter (fun q => !(Dict.contains P.mods q)) |>.eraseDups

def needMod (miss : List Str) : Json :=
  Json.mkObj [("outcome", Json.str "crash"), ("exc", Json.str ("NeedMod:" ++ (miss.headD []).toS)),
              ("needMods", Pipeline.strsJson miss)]

/-- op `star_root` -/
def handleRoot (payload : Json) : R Json := do
  let P ← Pipeline2.parseProject payload
  match rootOf P P.target with
  | .ok s =>
    let miss := missing P s.ctx
    if !miss.isEmpty then return needMod miss
    return File.rootJson "ok" "" s
  | .fatal s d => return File.rootJson "fatal" d.tmpl.toS s
  | .crash s e => return File.rootJson "crash" e.toS s

/-- op `star_file` -/
def handleFile (payload : Json) : R Json := do
  let P ← Pipeline2.parseProject payload
  match rootOf P P.target with
  | .ok r =>
    let miss := missing P r.ctx
    if !miss.isEmpty then return needMod miss
    match analyseAt P P.target with
    | .ok s => return File.fileJson "ok" "" s
    | .fatal s d => return File.fileJson "fatal" d.tmpl.toS s
    | .crash s e => return File.fileJson "crash" e.toS s
  | .fatal _ d => return Json.mkObj [("outcome", "root-fatal"), ("exc", d.tmpl.toS)]
  | .crash _ e => return Json.mkObj [("outcome", "root-crash"), ("exc", e.toS)]

end Rattr.Driver.C01

/- JSON helpers for the line-protocol driver (not part of the verified model). -/
import Lean.Data.Json
import RattrModel.Basic

namespace Rattr.Driver
open Lean

abbrev R := Except String

def field (j : Json) (k : String) : R Json :=
  match j.getObjVal? k with
  | .ok v => .ok v
  | .error _ => .error s!"missing field {k}"

def fieldD (j : Json) (k : String) (d : Json) : Json :=
  match j.getObjVal? k with
  | .ok v => v
  | .error _ => d

def asStr (j : Json) : R String :=
  match j with
  | .str s => .ok s
  | _ => .error s!"expected string, got {j.compress}"

def asNat (j : Json) : R Nat :=
  match j.getNat? with
  | .ok n => .ok n
  | .error _ => .error s!"expected nat, got {j.compress}"

def asInt (j : Json) : R Int :=
  match j.getInt? with
  | .ok n => .ok n
  | .error _ => .error s!"expected int, got {j.compress}"

def asBool (j : Json) : R Bool :=
  match j with
  | .bool b => .ok b
  | _ => .error s!"expected bool, got {j.compress}"

def asArr (j : Json) : R (List Json) :=
  match j with
  | .arr a => .ok a.toList
  | _ => .error s!"expected array, got {j.compress}"

def asOptStr (j : Json) : R (Option String) :=
  match j with
  | .null => .ok none
  | .str s => .ok (some s)
  | _ => .error s!"expected string|null, got {j.compress}"

def asStrList (j : Json) : R (List String) := do
  (← asArr j).mapM asStr

def asPair (j : Json) : R (String × String) := do
  match (← asArr j) with
  | [a, b] => return ((← asStr a), (← asStr b))
  | _ => .error "expected pair"

def asPairList (j : Json) : R (List (String × String)) := do
  (← asArr j).mapM asPair

def jStrList (l : List String) : Json := Json.arr (l.map Json.str).toArray
def jPairList (l : List (String × String)) : Json :=
  Json.arr (l.map (fun (a, b) => Json.arr #[Json.str a, Json.str b])).toArray
def jOptStr : Option String → Json
  | none => Json.null
  | some s => Json.str s

def jList (l : List Json) : Json := Json.arr l.toArray

end Rattr.Driver

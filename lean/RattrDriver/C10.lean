import RattrDriver.JsonUtil
import RattrModel.Naming
import RattrModel.Spec.Spell
import RattrModel.NamingSites

namespace Rattr.Driver.C10
open Lean Rattr Rattr.Driver Rattr.Naming

/-- Expression JSON: `{"k":"name","id":s} | {"k":"attr","v":e,"a":s} | {"k":"sub","v":e} |
{"k":"starred","v":e} | {"k":"call","f":e,"args":[e…]} | {"k":"str","s":s} | {"k":"other","c":s}`. -/
partial def parseExpr (j : Json) : R Expr := do
  match (← asStr (← field j "k")) with
  | "name" => return .name (← asStr (← field j "id")).toList
  | "attr" => return .attr (← parseExpr (← field j "v")) (← asStr (← field j "a")).toList
  | "sub" => return .sub (← parseExpr (← field j "v"))
  | "starred" => return .starred (← parseExpr (← field j "v"))
  | "call" =>
    let f ← parseExpr (← field j "f")
    let args ← (← asArr (← field j "args")).mapM parseExpr
    return .call f args
  | "str" => return .strConst (← asStr (← field j "s")).toList
  | "other" => return .other (← asStr (← field j "c")).toList
  | k => .error s!"unknown expr kind {k}"

def excName : Exc → String
  | .unaryOp => "RattrUnaryOpInNameable"
  | .binOp => "RattrBinOpInNameable"
  | .constant => "RattrConstantInNameable"
  | .literal => "RattrLiteralInNameable"
  | .comprehension => "RattrComprehensionInNameable"
  | .typeError => "TypeError"

def whyName : FatalWhy → String
  | .tooFewArgs => "tooFewArgs"
  | .nestedOtherCall => "nestedOtherCall"

def outJson : Out → Json
  | .ok b l => Json.mkObj [("ok", Json.arr #[Json.str (String.ofList b), Json.str (String.ofList l)])]
  | .fatal w => Json.mkObj [("fatal", Json.str (whyName w))]
  | .raised e => Json.mkObj [("raised", Json.str (excName e))]

/-- op `names`: both namers for every flag combination, and the README spelling. -/
def handle (payload : Json) : R Json := do
  let e ← parseExpr (← field payload "expr")
  return Json.mkObj [
    ("new_safe", outJson (namesOf true true e)),
    ("new_unsafe", outJson (namesOf true false e)),
    ("new_safe_noun", outJson (namesOf false true e)),
    ("new_unsafe_noun", outJson (namesOf false false e)),
    ("old_safe", outJson (oldNames true e)),
    ("old_unsafe", outJson (oldNames false e)),
    ("spec", Json.arr #[Json.str (String.ofList (Spec.base e)), Json.str (String.ofList (Spec.spell e))])]

/-- op `naming_sites`: the consumer-site table of the model (`NamingSites.sites`). -/
def handleSites (_ : Json) : R Json :=
  return Json.mkObj [("sites", Json.arr (NamingSites.sites.map (fun (f, q, c, i, s, cov) =>
    Json.mkObj [("file", Json.str f), ("func", Json.str q), ("callee", Json.str c), ("idx", Json.num i),
                ("stmt", Json.str s), ("cover", Json.str cov)])).toArray)]

end Rattr.Driver.C10

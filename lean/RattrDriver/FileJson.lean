/- JSON → `Top` / `Facts` (driver glue for the root-context and file stages; not part of the
verified model). -/
import RattrDriver.AstJson
import RattrDriver.C11
import RattrModel.RootContext

namespace Rattr.Driver
open Lean Rattr

def asAlias (j : Json) : R Alias := do
  return { name := str (← asStr (← field j "name")), asname := (← asOptStr (← field j "asname")).map str }

partial def asTop (j : Json) : R Top := do
  let k ← asStr (← field j "k")
  let nodes (key : String) : R (List Node) := do (← asArr (← field j key)).mapM asNode
  let tops (key : String) : R (List Top) := do (← asArr (← field j key)).mapM asTop
  let decos : R (List Ann.Deco) := do (← asArr (← field j "decos")).mapM C11.asDeco
  let s (key : String) : R Str := do return str (← asStr (← field j key))
  match k with
  | "import" => return .importStmt (← (← asArr (← field j "aliases")).mapM asAlias)
  | "importfrom" =>
    return .importFrom ((← asOptStr (← field j "module")).map str) (← asNat (← field j "level"))
      (← (← asArr (← field j "aliases")).mapM asAlias) (← s "abs")
      (← asBool (← field j "specFound")) (← asBool (← field j "confirmedOk"))
  | "def" =>
    return .funcDef (← s "name") (← asParams (← field j "ps")) (← nodes "body") (← decos)
      (← asBool (← field j "async"))
  | "class" => return .classDef (← s "name") (← nodes "bases") (← tops "body") (← decos)
  | "assign" =>
    let v ← match (← field j "value") with
      | .null => pure none
      | v => do pure (some (← asNode v))
    return .assign (← nodes "targets") (← nodes "extra") v
  | "delete" => return .delete (← nodes "targets")
  | "exprstmt" => return .exprStmt (← asNode (← field j "v"))
  | "expr" => return .expr (← asNode (← field j "n"))
  | "try" => return .tryStmt (← tops "body") (← tops "handlers") (← tops "orelse") (← tops "finalbody")
  | "compound" => return .compound (← s "kind") (← tops "kids")
  | _ => throw s!"unknown top kind {k}"

def asModFact (j : Json) : R (Str × ModFact) := do
  match (← asArr j) with
  | [n, f] =>
    return (str (← asStr n), { blacklisted := (← asBool (← field f "blacklisted")),
                               originFound := (← asBool (← field f "originFound")),
                               modExists := (← asBool (← field f "modExists")) })
  | _ => throw "expected [name, fact]"

def asFacts (j : Json) : R Facts := do
  return { mods := (← (← asArr (← field j "mods")).mapM asModFact),
           isInit := (← asBool (← field j "isInit")),
           excluded := (← asStrL (← field j "excluded")) }

end Rattr.Driver

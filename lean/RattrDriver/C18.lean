import RattrDriver.JsonUtil
import RattrDriver.C12
import RattrModel.Serialise
import RattrModel.IrDocument

/-
  Driver for C18. Ops:
    `ser`       {kind, obj}  → {doc}            the model's document for an object (sets come as
                                                lists in their real iteration order)
    `structure` {kind, doc}  → {ok: obj} | {err} the model's structure hook on a document
    `ir_document` {flags, modules, target, irs, target_name, target_ir, cache_infos}
                → {outcome, analysed, missing, doc, cache_imports, perm_invariant}
                  the import BFS (`Imports.bfs`) on the module graph the real locator gives, the IR
                  document assembled in that order (`Ser.irDocument`; `irs` is given sorted by module
                  name, the order of the answer comes from the BFS alone) and the sorted `imports` list
                  of the cacheable document (`Ser.cacheImports`)
  Documents travel in an ORDER-PRESERVING neutral encoding (Lean's `Json.obj` is a tree map and
  would lose key order): null/bool/number/string as themselves, list → {"a":[…]},
  dict → {"o":[[k,v],…]}.
-/
namespace Rattr.Driver.C18
open Lean Rattr Rattr.Driver Rattr.Ser

def s2 (s : String) : Str := s.toList
def toS (s : Str) : String := String.ofList s

/-! neutral encoding of JVal -/

partial def encDoc : JVal → Json
  | .null => Json.null
  | .bool b => Json.bool b
  | .num n => Json.num (JsonNumber.fromInt n)
  | .str s => Json.str (toS s)
  | .arr xs => Json.mkObj [("a", Json.arr (xs.map encDoc).toArray)]
  | .obj kvs => Json.mkObj [("o", Json.arr (kvs.map fun (k, v) => Json.arr #[Json.str (toS k), encDoc v]).toArray)]

partial def decDoc (j : Json) : R JVal :=
  match j with
  | .null => .ok .null
  | .bool b => .ok (.bool b)
  | .str s => .ok (.str (s2 s))
  | .num _ => do return .num (← asInt j)
  | .arr _ => .error "bare array in neutral doc"
  | .obj _ =>
    match j.getObjVal? "a" with
    | .ok a => do
      let xs ← (← asArr a).mapM decDoc
      return .arr xs
    | .error _ => do
      let o ← field j "o"
      let kvs ← (← asArr o).mapM fun p => do
        match (← asArr p) with
        | [k, v] => return (s2 (← asStr k), (← decDoc v))
        | _ => .error "expected [k, v]"
      return .obj kvs

/-! objects: decode -/

def asOptInt (j : Json) : R (Option Int) :=
  match j with
  | .null => .ok none
  | _ => do return some (← asInt j)

def decLoc (j : Json) : R Location := do
  return { lineno := (← asInt (← field j "lineno")), colOffset := (← asInt (← field j "col_offset")),
           endLineno := (← asOptInt (← field j "end_lineno")),
           endColOffset := (← asOptInt (← field j "end_col_offset")),
           file := s2 (← asStr (← field j "file")) }

def strs (j : Json) : R (List Str) := do return (← asStrList j).map s2
def optS (j : Json) : R (Option Str) := do return (← asOptStr j).map s2

def decIface (j : Json) : R CallIface :=
  match j with
  | .str "any" => .ok .any
  | .obj _ => do
    return .mk { posonly := (← strs (← field j "posonly")), args := (← strs (← field j "args")),
                 vararg := (← optS (← field j "vararg")), kwonly := (← strs (← field j "kwonly")),
                 kwarg := (← optS (← field j "kwarg")) }
  | _ => .error s!"bad iface {j.compress}"

def decOptIface (j : Json) : R (Option CallIface) :=
  match j with
  | .null => .ok none
  | _ => do return some (← decIface j)

def decTarget (j : Json) : R Target := do
  let k ← asStr (← field j "k")
  let n := s2 (← asStr (← field j "name"))
  let l ← decLoc (← field j "loc")
  match k with
  | "Name" => return .name n (s2 (← asStr (← field j "basename"))) l (← decOptIface (← field j "iface"))
  | "Builtin" => return .builtin n l (← decIface (← field j "iface"))
  | "Import" => return .import_ n (s2 (← asStr (← field j "qualified_name"))) l (← decIface (← field j "iface"))
  | "Func" => return .func n l (← decIface (← field j "iface")) (← asBool (← field j "is_async"))
  | "Class" => return .cls n l (← decIface (← field j "iface"))
  | _ => .error s!"bad target kind {k}"

def decSymbol (j : Json) : R Symbol := do
  let k ← asStr (← field j "k")
  if k == "Call" then
    let n := s2 (← asStr (← field j "name"))
    let l ← decLoc (← field j "loc")
    let args ← strs (← field j "args")
    let kwargs := (← asPairList (← field j "kwargs")).map fun (a, b) => (s2 a, s2 b)
    let t ← match (← field j "target") with
      | .null => pure none
      | tj => do pure (some (← decTarget tj))
    return .call n { args := args, kwargs := kwargs } t l
  else
    return .base (← decTarget j)

def decSyms (j : Json) : R (List Symbol) := do (← asArr j).mapM decSymbol

def decFnIr (j : Json) : R FunctionIr := do
  return { gets := (← decSyms (← field j "gets")), sets := (← decSyms (← field j "sets")),
           dels := (← decSyms (← field j "dels")), calls := (← decSyms (← field j "calls")) }

partial def decContext (j : Json) : R Context := do
  let p ← match (← field j "parent") with
    | .null => pure none
    | pj => do pure (some (← decContext pj))
  let t ← (← asArr (← field j "symtab")).mapM fun e => do
    match (← asArr e) with
    | [k, v] => return (s2 (← asStr k), (← decSymbol v))
    | _ => .error "expected [id, symbol]"
  return .mk p t (s2 (← asStr (← field j "file")))

def decFileIr (j : Json) : R FileIr := do
  let c ← decContext (← field j "context")
  let es ← (← asArr (← field j "entries")).mapM fun e => do
    match (← asArr e) with
    | [k, v] => return ((← decSymbol k), (← decFnIr v))
    | _ => .error "expected [symbol, ir]"
  return { context := c, fileIr := es }

def decOutputIrs (j : Json) : R OutputIrs := do
  let im ← (← asArr (← field j "imports")).mapM fun e => do
    match (← asArr e) with
    | [k, v] => return (s2 (← asStr k), (← decFileIr v))
    | _ => .error "expected [module, ir]"
  return { importIrs := im, targetName := s2 (← asStr (← field j "target_name")),
           targetIr := (← decFileIr (← field j "target_ir")) }

def decFnResults (j : Json) : R FnResults := do
  return { gets := (← strs (← field j "gets")), sets := (← strs (← field j "sets")),
           dels := (← strs (← field j "dels")), calls := (← strs (← field j "calls")) }

def decFileResults (j : Json) : R FileResults := do
  (← asArr j).mapM fun e => do
    match (← asArr e) with
    | [k, v] => return (s2 (← asStr k), (← decFnResults v))
    | _ => .error "expected [name, results]"

def decCacheable (j : Json) : R CacheableResults := do
  let im := (← asPairList (← field j "imports")).map fun (a, b) => ({ filepath := s2 a, filehash := s2 b } : ImportInfo)
  return { version := s2 (← asStr (← field j "version")),
           argumentsHash := s2 (← asStr (← field j "arguments_hash")),
           pluginsHash := s2 (← asStr (← field j "plugins_hash")),
           filepath := s2 (← asStr (← field j "filepath")),
           filehash := s2 (← asStr (← field j "filehash")),
           imports := im, results := (← decFileResults (← field j "results")) }

/-! objects: encode (same shapes) -/

def jS (s : Str) : Json := Json.str (toS s)
def jSs (l : List Str) : Json := Json.arr (l.map jS).toArray
def jOptS : Option Str → Json
  | none => Json.null
  | some s => jS s
def jOptI : Option Int → Json
  | none => Json.null
  | some n => Json.num (JsonNumber.fromInt n)

def encLoc (l : Location) : Json :=
  Json.mkObj [("lineno", Json.num (JsonNumber.fromInt l.lineno)), ("col_offset", Json.num (JsonNumber.fromInt l.colOffset)),
              ("end_lineno", jOptI l.endLineno), ("end_col_offset", jOptI l.endColOffset), ("file", jS l.file)]

def encIface : CallIface → Json
  | .any => Json.str "any"
  | .mk i => Json.mkObj [("posonly", jSs i.posonly), ("args", jSs i.args), ("vararg", jOptS i.vararg),
                         ("kwonly", jSs i.kwonly), ("kwarg", jOptS i.kwarg)]

def encOptIface : Option CallIface → Json
  | none => Json.null
  | some i => encIface i

def encTarget : Target → Json
  | .name n b l i => Json.mkObj [("k", "Name"), ("name", jS n), ("basename", jS b), ("loc", encLoc l), ("iface", encOptIface i)]
  | .builtin n l i => Json.mkObj [("k", "Builtin"), ("name", jS n), ("loc", encLoc l), ("iface", encIface i)]
  | .import_ n q l i => Json.mkObj [("k", "Import"), ("name", jS n), ("qualified_name", jS q), ("loc", encLoc l), ("iface", encIface i)]
  | .func n l i a => Json.mkObj [("k", "Func"), ("name", jS n), ("loc", encLoc l), ("iface", encIface i), ("is_async", Json.bool a)]
  | .cls n l i => Json.mkObj [("k", "Class"), ("name", jS n), ("loc", encLoc l), ("iface", encIface i)]

def encSymbol : Symbol → Json
  | .base t => encTarget t
  | .call n a t l => Json.mkObj [("k", "Call"), ("name", jS n), ("args", jSs a.args),
      ("kwargs", Json.arr (a.kwargs.map fun (k, v) => Json.arr #[jS k, jS v]).toArray),
      ("target", match t with | none => Json.null | some t => encTarget t), ("loc", encLoc l)]

def encSyms (l : List Symbol) : Json := Json.arr (l.map encSymbol).toArray

def encFnIr (ir : FunctionIr) : Json :=
  Json.mkObj [("gets", encSyms ir.gets), ("sets", encSyms ir.sets), ("dels", encSyms ir.dels), ("calls", encSyms ir.calls)]

partial def encContext : Context → Json
  | .mk p t f => Json.mkObj [("parent", match p with | none => Json.null | some c => encContext c),
      ("symtab", Json.arr (t.map fun (k, s) => Json.arr #[jS k, encSymbol s]).toArray), ("file", jS f)]

def encFileIr (f : FileIr) : Json :=
  Json.mkObj [("context", encContext f.context),
              ("entries", Json.arr (f.fileIr.map fun (s, ir) => Json.arr #[encSymbol s, encFnIr ir]).toArray)]

def encFnResults (r : FnResults) : Json :=
  Json.mkObj [("gets", jSs r.gets), ("sets", jSs r.sets), ("dels", jSs r.dels), ("calls", jSs r.calls)]

def encFileResults (r : FileResults) : Json :=
  Json.arr (r.map fun (k, v) => Json.arr #[jS k, encFnResults v]).toArray

def encCacheable (c : CacheableResults) : Json :=
  Json.mkObj [("version", jS c.version), ("arguments_hash", jS c.argumentsHash), ("plugins_hash", jS c.pluginsHash),
              ("filepath", jS c.filepath), ("filehash", jS c.filehash),
              ("imports", Json.arr (c.imports.map fun i => Json.arr #[jS i.filepath, jS i.filehash]).toArray),
              ("results", encFileResults c.results)]

def errStr : StructErr → String
  | .missingKey k => s!"missingKey:{toS k}"
  | .wrongType w => s!"wrongType:{toS w}"
  | .missingType => "missingType"
  | .invalidType t => s!"invalidType:{toS t}"
  | .badInterface => "badInterface"
  | .fileIrMissing => "fileIrMissing"
  | .outsideFragment => "outsideFragment"
  | .outOfFuel => "outOfFuel"

def fileIrKeyInj (f : FileIr) : Bool := f.fileIr.all fun p => p.2.sortKeyInjB

/-- `FileIrSets`, the hypothesis of `C18_ir_canonical`: every member list is a set under the model's `==`. -/
def fileIrSets (f : FileIr) : Bool := f.fileIr.all fun p => p.2.isSetB

/-- op `ser` -/
def handleSer (payload : Json) : R Json := do
  let kind ← asStr (← field payload "kind")
  let o ← field payload "obj"
  let (doc, inj, sets) ← match kind with
    | "symbol" => do pure (unSymbol (← decSymbol o), true, true)
    | "fnir" => do let ir ← decFnIr o; pure (unFnIr ir, ir.sortKeyInjB, ir.isSetB)
    | "fileir" => do let f ← decFileIr o; pure (unFileIr f, fileIrKeyInj f, fileIrSets f)
    | "outputirs" => do
      let x ← decOutputIrs o
      pure (unOutputIrs x, fileIrKeyInj x.targetIr && x.importIrs.all fun p => fileIrKeyInj p.2,
            fileIrSets x.targetIr && x.importIrs.all fun p => fileIrSets p.2)
    | "results" => do pure (unFileResults (← decFileResults o), true, true)
    | "cacheable" => do pure (unCacheable (← decCacheable o), true, true)
    | _ => .error s!"unknown kind {kind}"
  return Json.mkObj [("doc", encDoc doc), ("compact", Json.str (toS (JVal.render doc))),
                     ("sorted_dump", Json.str (toS (dumpSorted doc))), ("sort_key_injective", Json.bool inj),
                     ("members_are_sets", Json.bool sets)]

def wrap {α : Type} (enc : α → Json) : SR α → Json
  | .ok a => Json.mkObj [("ok", enc a)]
  | .error e => Json.mkObj [("err", Json.str (errStr e))]

/-- op `structure` -/
def handleStructure (payload : Json) : R Json := do
  let kind ← asStr (← field payload "kind")
  let doc ← decDoc (← field payload "doc")
  match kind with
  | "symbol" => return wrap encSymbol (stSymbol doc)
  | "fnir" => return wrap encFnIr (stFnIr doc)
  | "fileir" => return wrap encFileIr (stFileIr 64 doc)
  | "results" => return wrap encFileResults (stFileResults doc)
  | "cacheable" => return wrap encCacheable (stCacheable doc)
  | _ => .error s!"unknown kind {kind}"

/-! op `ir_document` -/

open Rattr.Imports in
def modStr (m : C12.Mod) : Module Str String :=
  { name := s2 m.name, origin := m.origin, readable := m.readable, blacklisted := m.blacklisted,
    inPip := m.inPip, inStdlib := m.inStdlib, excluded := m.excluded,
    imports := m.imports.map fun i => { target := i.target.map s2, declBlacklisted := i.declBlacklisted } }

def decInfos (j : Json) : R (List (Option ImportInfo)) := do
  (← asArr j).mapM fun e =>
    match e with
    | .null => pure none
    | _ => do
      match (← asArr e) with
      | [a, b] => return some { filepath := s2 (← asStr a), filehash := s2 (← asStr b) }
      | _ => .error "expected [filepath, filehash]"

open Rattr.Imports in
def handleIrDocument (payload : Json) : R Json := do
  let fl ← C12.parseFlags (← field payload "flags")
  let g : Graph Str String := (← (← asArr (← field payload "modules")).mapM C12.parseModule).map modStr
  let target : List (Imp Str) := (← C12.parseImps (← field payload "target")).map fun i =>
    { target := i.target.map s2, declBlacklisted := i.declBlacklisted }
  for i in target ++ g.flatMap (·.imports) do
    match i.target with
    | some n => if (lookup g n).isNone then throw s!"graph not closed: {toS n}"
    | none => pure ()
  let irs ← (← asArr (← field payload "irs")).mapM fun e => do
    match (← asArr e) with
    | [k, v] => return (s2 (← asStr k), (← decFileIr v))
    | _ => .error "expected [module, ir]"
  let tname := s2 (← asStr (← field payload "target_name"))
  let tir ← decFileIr (← field payload "target_ir")
  let emptyIr : FileIr := { context := .mk none [] [], fileIr := [] }
  let irOf : Str → FileIr := fun n => ((irs.find? (fun p => p.1 == n)).map (·.2)).getD emptyIr
  let out := bfs g fl (fuelBound g target) target
  let analysed := out.state.analysed
  let missing := analysed.filter fun n => !(irs.any fun p => p.1 == n)
  let doc := irDocument g fl target irOf tname tir
  let ci ← field payload "cache_infos"
  let tInfos ← decInfos (← field ci "target")
  let mInfos ← (← asArr (← field ci "modules")).mapM fun e => do
    match (← asArr e) with
    | [k, v] => return (s2 (← asStr k), (← decInfos v))
    | _ => .error "expected [module, infos]"
  let infosOf : Str → List (Option ImportInfo) := fun n => ((mInfos.find? (fun p => p.1 == n)).map (·.2)).getD []
  let keys := (assignIrs irOf analysed).map Prod.fst
  let stream := cacheInfoStream tInfos infosOf keys
  let imports := cacheImports id stream
  let set := dedupBy importInfoEq stream
  -- hypothesis of C18_cache_imports_canonical, and two concrete iteration orders of the set
  let distinct := decide ((set.map (·.filepath)).Nodup)
  let rev := decide (cacheImports List.reverse stream = imports)
  let rot := decide (cacheImports (fun l => l.drop 1 ++ l.take 1) stream = imports)
  -- the same set of contexts walked in reverse BFS order
  let revKeys := decide (cacheImports id (cacheInfoStream tInfos infosOf keys.reverse) = imports)
  return Json.mkObj [
    ("outcome", Json.str (C12.outcomeStr (match out with
      | .done _ => (.done St.empty : Out String String) | .fatal _ => .fatal St.empty
      | .crash _ => .crash St.empty | .outOfFuel _ => .outOfFuel St.empty))),
    ("analysed", jStrList (analysed.map toS)),
    ("keys", jStrList (keys.map toS)),
    ("missing", jStrList (missing.map toS)),
    ("doc", match doc with | some d => encDoc d | none => Json.null),
    ("doc_import_keys", jStrList ((match doc with | some d => docImportKeys d | none => []).map toS)),
    ("cache_imports", Json.arr (imports.map fun i => Json.arr #[jS i.filepath, jS i.filehash]).toArray),
    ("perm_invariant", Json.mkObj [("CacheFilepathsDistinct", Json.bool distinct),
      ("cacheImports-set-reversed", Json.bool rev), ("cacheImports-set-rotated", Json.bool rot),
      ("cacheImports-contexts-reversed", Json.bool revKeys)])]

end Rattr.Driver.C18

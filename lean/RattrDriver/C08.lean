import RattrDriver.AstJson
import RattrModel.CrossResolve

namespace Rattr.Driver.C08
open Lean Rattr Rattr.Driver Rattr.Cross

def asFSym (j : Json) : R FSym := do
  let kind ← match (← asStr (← field j "kind")) with
    | "Func" => pure SymKind.func
    | "Class" => pure SymKind.cls
    | x => throw s!"bad fsym kind {x}"
  let iface ← match fieldD j "iface" Json.null with
    | .null => pure none
    | i => do pure (some (← asIfaceStr i))
  return { kind := kind, name := str (← asStr (← field j "name")), iface := iface,
           file := str (← asStr (← field j "file")) }

def asFIr (j : Json) : R FIr := do (← asArr j).mapM asFSym

def resJson : Res → Json
  | .found .target i => Json.mkObj [("k", "found"), ("where", "<target>"), ("idx", i)]
  | .found (.import_ m) i => Json.mkObj [("k", "found"), ("where", m.toS), ("idx", i)]
  | .importError => Json.mkObj [("k", "ImportError")]
  | .moduleNotFound => Json.mkObj [("k", "ModuleNotFoundError")]

/-- op `cross_resolve`: `__resolve_target_and_ir` for each queried call target in one environment
(`rule`: the pinned code or one of the two earlier rules). -/
def handle (payload : Json) : R Json := do
  let imports ← (← asArr (← field payload "imports")).mapM fun e => do
    match (← asArr e) with
    | [n, syms] => return (str (← asStr n), (← asFIr syms))
    | _ => throw "imports entry must be [module, keys]"
  let env : Env := { target := (← asFIr (← field payload "target")), imports := imports,
                     moduleOf := (← asPairList (← field payload "moduleOf")).map fun (a, b) => (str a, str b) }
  -- `rule`: "current" | "pre-bb30ccd" (8b74e12 … 6f46129) | "pre-2103117"
  let rule ← asStr (fieldD payload "rule" (Json.str "current"))
  let qs ← (← asArr (← field payload "queries")).mapM asFSym
  let f : FSym → Res := match rule with
    | "pre-2103117" => resolveOld env
    | "pre-bb30ccd" => resolveFallback env
    | _ => resolve env
  return Json.mkObj [("wf", wfCheck env), ("results", jList (qs.map fun q => resJson (f q)))]

end Rattr.Driver.C08

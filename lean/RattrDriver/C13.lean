import RattrDriver.JsonUtil
import RattrModel.Locator
import RattrModel.ImportWalk
import RattrModel.Spec.ResolveName

namespace Rattr.Driver.C13
open Lean Rattr Rattr.Driver Rattr.Locator

def asComps (j : Json) : R (List Str) := do
  return (← asStrList j).map String.toList

def asOptComps (j : Json) : R (Option (List Str)) :=
  match j with
  | .null => .ok none
  | _ => do return some (← asComps j)

def jComps (c : List Str) : Json := jStrList (c.map String.ofList)
def jOptComps : Option (List Str) → Json
  | none => Json.null
  | some c => jComps c

def parseOrigin (j : Json) : R (Option Origin) :=
  match j with
  | .null => .ok none
  | _ =>
    match j.getObjVal? "ext" with
    | .ok e => do return some (.ext (← asStr e).toList)
    | .error _ => do
      match (← asArr (← field j "file")) with
      | [i, p] => return some (.file (← asNat i) (← asComps p))
      | _ => .error "bad origin"

def parseSpec (j : Json) : R (Option ModSpec) :=
  match j with
  | .null => .ok none
  | _ => do return some { name := (← asComps (← field j "name")), origin := (← parseOrigin (← field j "origin")) }

def jOrigin : Option Origin → Json
  | none => Json.null
  | some (.file i p) => Json.mkObj [("file", Json.arr #[Json.num i, jComps p])]
  | some (.ext s) => Json.mkObj [("ext", Json.str (String.ofList s))]

def jSpec : Option ModSpec → Json
  | none => Json.null
  | some s => Json.mkObj [("name", jComps s.name), ("origin", jOrigin s.origin)]

def jFound : Option (Dotted × ModSpec) → Json
  | none => Json.null
  | some (n, s) => Json.mkObj [("module", jComps n), ("spec", jSpec (some s))]

def parseEnv (payload : Json) : R Env := do
  let roots ← (← asArr (← field payload "roots")).mapM fun r => do (← asArr r).mapM asComps
  let rows ← (← asArr (← field payload "stdlib")).mapM fun row => do
    match (← asArr row) with
    | [n, s] => return ((← asComps n), (← parseSpec s))
    | _ => .error "bad stdlib row"
  return { fs := roots, stdlib := rows }

/-- optional `dirs` (search directories as spelled, absolute, as segment lists) and `links` (link ↦
target, absolute segment lists): the symbolic-link view (`Locator.Mounts`, site = the pinned one) -/
def parseMounts (payload : Json) : R (Option Mounts) :=
  match payload.getObjVal? "dirs" with
  | .error _ => .ok none
  | .ok d => do
    let dirs ← (← asArr d).mapM asComps
    let links ← (← asArr (← field payload "links")).mapM fun row => do
      match (← asArr row) with
      | [l, t] => return ((← asComps l), (← asComps t))
      | _ => .error "bad link row"
    return some { rv := resolveLinks links (2 * links.length + 2), site := resolveSite, dirs := dirs }

def absStr (p : Path) : String := "/" ++ "/".intercalate (p.map String.ofList)

def jAbs : Option Path → Json
  | none => Json.null
  | some p => Json.str (absStr p)

/-- a spec, with the absolute origin when the link view is present -/
def jSpecM (M : Option Mounts) : Option ModSpec → Json
  | none => Json.null
  | some s =>
    match M with
    | none => jSpec (some s)
    | some m => Json.mkObj [("name", jComps s.name), ("origin", jOrigin s.origin), ("abs", jAbs (specAbs m s))]

def jFoundM (M : Option Mounts) : Option (Dotted × ModSpec) → Json
  | none => Json.null
  | some (n, s) => Json.mkObj [("module", jComps n), ("spec", jSpecM M (some s))]

def errStr : Spec.ResolveErr → String
  | .noParentPackage => "noParentPackage"
  | .beyondTopLevel => "beyondTopLevel"

/-- one op against the environment, threading the memo of `derive_absolute_module_name` -/
def step (env : Env) (M : Option Mounts) (memo : Memo) (op : Json) : R (Json × Memo) := do
  let k ← asStr (← field op "k")
  match k with
  | "rel" =>
    let memo := if (← asBool (← field op "clear")) then [] else memo
    let comps ← asComps (← field op "comps")
    let isInit ← asBool (← field op "isInit")
    let level ← asNat (← field op "level")
    let target ← asOptComps (← field op "target")
    let own ← asComps (← field op "own")
    let spec : Json := match Spec.pyResolveName (Spec.packageOf own isInit) level target with
      | .ok r => Json.mkObj [("ok", jComps r)]
      | .error e => Json.mkObj [("err", errStr e)]
    match deriveModuleNameFromPath env comps with
    | none => return (Json.mkObj [("base", Json.null), ("abs", Json.null), ("found", Json.null), ("spec", spec)], memo)
    | some base =>
      let (a, memo') := deriveAbsM memo isInit base target level
      return (Json.mkObj [("base", jComps base), ("abs", jComps a),
                          ("found", jFoundM M (findModuleNameAndSpec env a)), ("spec", spec)], memo')
  | "find" =>
    let q ← asComps (← field op "q")
    let lp := Spec.longestPrefix (Spec.existsOnPath env.fs) q
    let fm : Json := match lp with
      | none => Json.null
      | some n => match Spec.firstMatch env.fs n with
        | none => Json.null
        | some (i, p) => Json.arr #[Json.num i, jComps p]
    return (Json.mkObj [("found", jFoundM M (findModuleNameAndSpec env q)), ("specLongest", jOptComps lp),
                        ("specFirst", fm)], memo)
  | "path" =>
    let comps ← asComps (← field op "comps")
    let n := deriveModuleNameFromPath env comps
    let sp := match n with
      | none => none
      | some n => findModuleSpecFast env n
    return (Json.mkObj [("name", jOptComps n), ("spec", jSpecM M sp)], memo)
  | "resolve" =>
    -- the resolver itself, for validation against `os.path.realpath`
    let p ← asComps (← field op "p")
    match M with
    | none => .error "resolve without dirs/links"
    | some m => return (Json.mkObj [("r", Json.str (absStr (m.rv p)))], memo)
  | "follow" =>
    -- locate `name`, enter its file the way a followed import (`spec.origin`) or the star-expansion
    -- (`Import.origin`) does, derive the module name from the current file, resolve a relative import
    let m ← match M with
      | none => .error "follow without dirs/links"
      | some m => pure m
    let memo := if (← asBool (← field op "clear")) then [] else memo
    let name ← asComps (← field op "name")
    let star ← asBool (← field op "star")
    let level ← asNat (← field op "level")
    let target ← asOptComps (← field op "target")
    let sp := findModuleSpecFast env name
    -- since 58a9012 both enter the origin as located; `before58a9012` asks for the old star rule
    let old := match op.getObjVal? "before58a9012" with
      | .ok (Json.bool b) => b
      | _ => false
    let entered : Option Path := sp.bind fun s => if star && old then importOriginAbs m s else specAbs m s
    let ownInit : Bool := match sp with
      | some { origin := some (.file _ rel), .. } => rel.getLast? == some initPy
      | _ => false
    let spec : Json := match Spec.pyResolveName (Spec.packageOf name ownInit) level target with
      | .ok r => Json.mkObj [("ok", jComps r)]
      | .error e => Json.mkObj [("err", errStr e)]
    let head : List (String × Json) := [("located", jSpecM M sp), ("entered", jAbs entered), ("spec", spec)]
    match entered with
    | none => return (Json.mkObj (head ++ [("base", Json.null), ("abs", Json.null), ("found", Json.null)]), memo)
    | some p =>
      match nameOfAbs env p with
      | none => return (Json.mkObj (head ++ [("base", Json.null), ("abs", Json.null), ("found", Json.null)]), memo)
      | some base =>
        let isInit := p.getLast? == some initPy
        let (a, memo') := deriveAbsM memo isInit base target level
        return (Json.mkObj (head ++ [("base", jComps base), ("abs", jComps a),
                                      ("found", jFoundM M (findModuleNameAndSpec env a))]), memo')
  | _ => .error s!"unknown locator op {k}"

def steps (env : Env) (M : Option Mounts) : Memo → List Json → R (List Json)
  | _, [] => .ok []
  | m, op :: rest => do
    let (o, m') ← step env M m op
    return o :: (← steps env M m' rest)

/-- op `locator`: a file system, the stdlib classification table, and a sequence of ops. -/
def handle (payload : Json) : R Json := do
  let env ← parseEnv payload
  let ops ← asArr (← field payload "ops")
  return jList (← steps env (← parseMounts payload) [] ops)

/-! ### op `import_walk`: the whole walk over a project (RattrModel/ImportWalk.lean) -/

open Rattr.Walk in
def parseStmt (j : Json) : R Stmt := do
  let k ← asStr (← field j "k")
  let line ← asNat (← field j "line")
  match k with
  | "def" => return .def_ line (← asStr (← field j "name")).toList
  | "imp" =>
    let a ← asOptStr (← field j "asname")
    return .imp line (← asComps (← field j "module")) (a.map String.toList)
  | "from" =>
    let names ← (← asArr (← field j "names")).mapM fun n => do
      match (← asArr n) with
      | [x, a] => return ((← asStr x).toList, (← asOptStr a).map String.toList)
      | _ => .error "bad alias"
    return .from_ line (← asNat (← field j "level")) (← asOptComps (← field j "module")) names
  | _ => .error s!"unknown stmt {k}"

open Rattr.Walk in
def parseFile (j : Json) : R File := do
  return { dir := (← asComps (← field j "dir")), stem := (← asStr (← field j "stem")).toList,
           stmts := (← (← asArr (← field j "stmts")).mapM parseStmt) }

def dotted (d : Dotted) : String := ".".intercalate (d.map String.ofList)

open Rattr.Walk in
def jCur (c : Cur) : Json :=
  if c.out then Json.mkObj [("ext", Json.str (absStr c.path))]
  else Json.mkObj [("abs", Json.bool c.abs), ("rel", jComps c.path)]

open Rattr.Walk in
/-- optional `phys`: rows `[path as spelled, directory segments of the resolved path, its stem]` -/
def parsePhys (payload : Json) : R (Dict Locator.Path Cur) :=
  match payload.getObjVal? "phys" with
  | .error _ => .ok []
  | .ok rows => do
    (← asArr rows).mapM fun row => do
      match (← asArr row) with
      | [p, d, st] => return ((← asComps p), { abs := true, dir := (← asComps d), stem := (← asStr st).toList, out := true })
      | _ => .error "bad phys row"

open Rattr.Walk in
def jSym (s : Sym) : Json :=
  if s.isImport then
    Json.mkObj [("t", "import"), ("name", dotted s.name), ("qual", dotted s.qual), ("line", Json.num s.line),
                ("file", jCur s.file)]
  else Json.mkObj [("t", "func"), ("name", dotted s.name), ("line", Json.num s.line), ("file", jCur s.file)]

open Rattr.Walk in
def jStop : Stop → String
  | .fatal => "fatal"
  | .crash e => "crash:" ++ e
  | .outside w => "outside:" ++ w
  | .fuel => "fuel"

open Rattr.Walk in
def jLvl : Lvl → String
  | .warning => "warning"
  | .error => "error"
  | .fatal => "fatal"

open Rattr.Walk in
def jRec (r : Rec) : Json :=
  let own := r.file.dropLast ++ (if r.stem == sInit then [] else [r.stem])
  let spec : Json := match Spec.pyResolveName (Spec.packageOf own (r.stem == sInit)) r.call.level r.call.target with
    | .ok x => Json.mkObj [("ok", jComps x)]
    | .error e => Json.mkObj [("err", errStr e)]
  Json.mkObj [("file", jComps r.file), ("cur", jCur r.cur), ("isInit", Json.bool r.call.isInit),
              ("base", jComps r.call.base), ("target", jOptComps r.call.target), ("level", Json.num r.call.level),
              ("result", jComps r.result), ("spec", spec)]

open Rattr.Walk in
def handleWalk (payload : Json) : R Json := do
  let env ← parseEnv payload
  let files ← (← asArr (← field payload "files")).mapM parseFile
  let P : Proj := { env := env, rootComps := (← asComps (← field payload "rootComps")), files := files,
                    phys := (← parsePhys payload) }
  let tgt ← parseFile (← field payload "target")
  let fuel ← asNat (← field payload "fuel")
  -- `before58a9012`: the star-expansion enters the fully resolved path (the rule the fix replaced)
  let old := match payload.getObjVal? "before58a9012" with
    | .ok (Json.bool b) => b
    | _ => false
  let out := if old then runBefore_58a9012 P fuel tgt else run P fuel tgt
  let s := out.st
  let ctxs : List Json := match out with
    | .ok (t, irs) _ =>
      Json.mkObj [("key", Json.null), ("syms", jList (t.syms.map jSym))]
        :: irs.map (fun (k, t) => Json.mkObj [("key", jComps k), ("syms", jList (t.syms.map jSym))])
    | .stop _ _ => []
  let oc : String := match out with
    | .ok _ _ => "ok"
    | .stop w _ => jStop w
  return Json.mkObj [
    ("outcome", oc),
    ("events", jList (s.events.map fun e =>
      Json.mkObj [("file", jComps e.file.path), ("cur", jCur e.cur), ("syms", jList (e.syms.map jSym))])),
    ("contexts", jList ctxs),
    ("diags", jList (s.diags.map fun d =>
      Json.mkObj [("level", jLvl d.lvl), ("t", d.tmpl),
                  ("line", match d.line with | some n => Json.num n | none => Json.null)])),
    ("trace", jList (s.trace.map jRec))]

end Rattr.Driver.C13

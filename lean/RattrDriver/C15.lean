import RattrDriver.JsonUtil
import RattrModel.Diag
import RattrModel.Spec.ExitCode
import RattrModel.DiagScope

/- Driver ops of C15 / C16: `diag_run` (model + spec on one (cfg, event list)), `diag_render`. -/
namespace Rattr.Driver.C15
open Lean Rattr Rattr.Driver Rattr.Diag

def parseLevel : String → R Level
  | "info" => .ok .info | "warning" => .ok .warning | "error" => .ok .error | "fatal" => .ok .fatal
  | s => .error s!"bad level {s}"

def parseWhere : String → R Where
  | "target" => .ok .target | "import" => .ok .import_ | "simplification" => .ok .none
  | s => .error s!"bad where {s}"

def parseWarn : String → R WarnLevel
  | "none" => .ok .none | "local" => .ok .local_ | "default" => .ok .default | "all" => .ok .all
  | s => .error s!"bad warning level {s}"

def levelStr : Level → String
  | .info => "info" | .warning => "warning" | .error => "error" | .fatal => "fatal"

def whereStr : Where → String
  | .target => "target" | .import_ => "import" | .none => "simplification"

def parseEvent (j : Json) : R Event := do
  return { level := (← parseLevel (← asStr (← field j "level"))),
           badness := (← asNat (← field j "badness")),
           loc := (← parseWhere (← asStr (← field j "where"))) }

def parseCfg (j : Json) : R Cfg := do
  return { strict := (← asBool (← field j "strict")),
           threshold := (← asNat (← field j "threshold")),
           warnLevel := (← parseWarn (← asStr (← field j "warn"))),
           collapseHome := (← asBool (← field j "H")),
           truncateDeep := (← asBool (← field j "T")) }

def jState (s : State) : Json := Json.arr #[Json.num s.target, Json.num s.imports, Json.num s.simpl]
def jLine (l : Line) : Json := Json.arr #[Json.str (levelStr l.level), Json.str (whereStr l.loc)]
def jLines (ls : List Line) : Json := jList (ls.map jLine)

/-- op `diag_run`. -/
def handle (payload : Json) : R Json := do
  let cfg ← parseCfg (← field payload "cfg")
  let evs ← (← asArr (← field payload "events")).mapM parseEvent
  let r := run cfg evs
  let spec := Json.mkObj [
    ("exit", Json.num (Spec.exit cfg.strict cfg.threshold evs)),
    ("output", Json.bool (Spec.outputPrinted cfg.strict cfg.threshold evs)),
    ("buckets", jState (Spec.buckets (Spec.processed cfg.strict evs))),
    ("bucketsAll", jState (Spec.buckets evs)),
    ("counted", Json.num (Spec.countedBadness evs)),
    ("processed", Json.num (Spec.processed cfg.strict evs).length),
    ("gateFails", Json.bool (Spec.gateFails cfg.strict cfg.threshold evs)),
    ("errorLines", jLines (Spec.errorLines cfg.strict cfg.threshold evs))]
  return Json.mkObj [
    ("buckets", jState r.state), ("printed", jLines r.printed), ("exit", Json.num r.exit),
    ("output", Json.bool r.output), ("spec", spec)]

/-! op `diag_scoped`: a run as a list of steps (enter_file blocks and diagnostics with the ids of the
scopes active at the raise, outermost first); scope kinds come from the regenerated table. -/

open Rattr.DiagScope in
def parseFile (j : Json) : R (Option FileId) :=
  match j with
  | .null => .ok none
  | _ => do return some (← asNat j)

open Rattr.DiagScope in
def parseStep (j : Json) : R Step := do
  match (← asStr (← field j "t")) with
  | "enter" => return .enterFile (← parseFile (← field j "f"))
  | "leave" => return .leaveFile
  | "abandon" => return .abandonFile
  | "diag" =>
    let ids ← asStrList (← field j "scopes")
    let kinds ← ids.mapM fun id =>
      match kindOfId id with
      | some k => .ok k
      | none => .error s!"scope id not in the regenerated table (or its verdict is unknown): {id}"
    return .diag (← parseLevel (← asStr (← field j "level"))) (← asNat (← field j "badness"))
      (← parseFile (← field j "src")) (← asBool (fieldD j "filtered" (Json.bool false))) kinds
  | t => .error s!"bad step {t}"

open Rattr.DiagScope in
def specJson (cfg : Cfg) (evs : List Event) : Json :=
  Json.mkObj [
    ("exit", Json.num (Spec.exit cfg.strict cfg.threshold evs)),
    ("output", Json.bool (Spec.outputPrinted cfg.strict cfg.threshold evs)),
    ("buckets", jState (Spec.buckets (Spec.processed cfg.strict evs))),
    ("bucketsAll", jState (Spec.buckets evs)),
    ("counted", Json.num (Spec.countedBadness evs)),
    ("processed", Json.num (Spec.processed cfg.strict evs).length),
    ("gateFails", Json.bool (Spec.gateFails cfg.strict cfg.threshold evs)),
    ("errorLines", jLines (Spec.errorLines cfg.strict cfg.threshold evs))]

open Rattr.DiagScope in
/-- op `diag_scoped`. -/
def handleScoped (payload : Json) : R Json := do
  let cfg ← parseCfg (← field payload "cfg")
  let steps ← (← asArr (← field payload "steps")).mapM parseStep
  let r := DiagScope.run cfg steps
  return Json.mkObj [
    ("buckets", jState r.state), ("logged", jLines r.logged), ("stderr", jLines r.stderr),
    ("locs", jStrList (r.locs.map whereStr)),
    ("exit", Json.num r.exit), ("output", Json.bool r.output), ("gate", Json.bool r.gate),
    ("inOwnFile", Json.bool (inOwnFile none [] steps)),
    ("allPass", Json.bool (allPass steps)), ("allBenign", Json.bool (allBenign steps)),
    -- the contract on the places where the diagnostics really arose
    ("spec", specJson cfg (bySrc steps)),
    -- the contract on the places the code counted them for (self-check of the theorems)
    ("specByCode", specJson cfg (locate none [] steps))]

/-- op `diag_scopes`: the model's reading of the regenerated scope table. -/
def handleScopes (_ : Json) : R Json :=
  return jList (Generated.C15.scopes.map fun (id, k, v) =>
    Json.mkObj [("id", Json.str id), ("kind", Json.str k), ("verdict", Json.str v),
                ("known", Json.bool (DiagScope.kindOfVerdict k v).isSome)])

def parsePath (j : Json) : R Diag.Path := do
  return { abs := (← asBool (← field j "abs")), comps := (← asStrList (← field j "comps")) }

/-- op `diag_render`. -/
def handleRender (payload : Json) : R Json := do
  let h ← asBool (← field payload "H")
  let t ← asBool (← field payload "T")
  let root ← parsePath (← field payload "root")
  let home ← parsePath (← field payload "home")
  let p ← parsePath (← field payload "path")
  return Json.str (render h t root home p).posix

end Rattr.Driver.C15

import RattrDriver.JsonUtil
import RattrModel.Diag
import RattrModel.Spec.ExitCode
import RattrModel.DiagScope
import RattrModel.SimplResolve

/- Driver ops of C15 / C16: `diag_run` (model + spec on one (cfg, event list)), `diag_render`. -/
namespace Rattr.Driver.C15
open Lean Rattr Rattr.Driver Rattr.Diag

def parseLevel : String → R Level
  | "info" => .ok .info | "warning" => .ok .warning | "error" => .ok .error | "fatal" => .ok .fatal
  | s => .error s!"bad level {s}"

def parseWhere : String → R Where
  | "target" => .ok .target | "import" => .ok .import_ | "simplification" => .ok .none
  | s => .error s!"bad where {s}"

def parseWarn : String → R WarnLevel
  | "none" => .ok .none | "local" => .ok .local_ | "default" => .ok .default | "all" => .ok .all
  | s => .error s!"bad warning level {s}"

def levelStr : Level → String
  | .info => "info" | .warning => "warning" | .error => "error" | .fatal => "fatal"

def whereStr : Where → String
  | .target => "target" | .import_ => "import" | .none => "simplification"

def parseEvent (j : Json) : R Event := do
  return { level := (← parseLevel (← asStr (← field j "level"))),
           badness := (← asNat (← field j "badness")),
           loc := (← parseWhere (← asStr (← field j "where"))) }

def parseCfg (j : Json) : R Cfg := do
  return { strict := (← asBool (← field j "strict")),
           threshold := (← asNat (← field j "threshold")),
           warnLevel := (← parseWarn (← asStr (← field j "warn"))),
           collapseHome := (← asBool (← field j "H")),
           truncateDeep := (← asBool (← field j "T")) }

def jState (s : State) : Json := Json.arr #[Json.num s.target, Json.num s.imports, Json.num s.simpl]
def jLine (l : Line) : Json := Json.arr #[Json.str (levelStr l.level), Json.str (whereStr l.loc)]
def jLines (ls : List Line) : Json := jList (ls.map jLine)

/-- op `diag_run`. -/
def handle (payload : Json) : R Json := do
  let cfg ← parseCfg (← field payload "cfg")
  let evs ← (← asArr (← field payload "events")).mapM parseEvent
  let r := run cfg evs
  let spec := Json.mkObj [
    ("exit", Json.num (Spec.exit cfg.strict cfg.threshold evs)),
    ("output", Json.bool (Spec.outputPrinted cfg.strict cfg.threshold evs)),
    ("buckets", jState (Spec.buckets (Spec.processed cfg.strict evs))),
    ("bucketsAll", jState (Spec.buckets evs)),
    ("counted", Json.num (Spec.countedBadness evs)),
    ("processed", Json.num (Spec.processed cfg.strict evs).length),
    ("gateFails", Json.bool (Spec.gateFails cfg.strict cfg.threshold evs)),
    ("errorLines", jLines (Spec.errorLines cfg.strict cfg.threshold evs))]
  return Json.mkObj [
    ("buckets", jState r.state), ("printed", jLines r.printed), ("exit", Json.num r.exit),
    ("output", Json.bool r.output), ("spec", spec)]

/-! op `diag_scoped`: a run as a list of steps (enter_file blocks and diagnostics with the ids of the
scopes active at the raise, outermost first); scope kinds come from the regenerated table. -/

open Rattr.DiagScope in
def parseFile (j : Json) : R (Option FileId) :=
  match j with
  | .null => .ok none
  | _ => do return some (← asNat j)

open Rattr.DiagScope in
def parseStep (j : Json) : R Step := do
  match (← asStr (← field j "t")) with
  | "enter" => return .enterFile (← parseFile (← field j "f"))
  | "leave" => return .leaveFile
  | "abandon" => return .abandonFile
  | "diag" =>
    let ids ← asStrList (← field j "scopes")
    let kinds ← ids.mapM fun id =>
      match kindOfId id with
      | some k => .ok k
      | none => .error s!"scope id not in the regenerated table (or its verdict is unknown): {id}"
    return .diag (← parseLevel (← asStr (← field j "level"))) (← asNat (← field j "badness"))
      (← parseFile (← field j "src")) (← asBool (fieldD j "filtered" (Json.bool false))) kinds
  | t => .error s!"bad step {t}"

open Rattr.DiagScope in
def specJson (cfg : Cfg) (evs : List Event) : Json :=
  Json.mkObj [
    ("exit", Json.num (Spec.exit cfg.strict cfg.threshold evs)),
    ("output", Json.bool (Spec.outputPrinted cfg.strict cfg.threshold evs)),
    ("buckets", jState (Spec.buckets (Spec.processed cfg.strict evs))),
    ("bucketsAll", jState (Spec.buckets evs)),
    ("counted", Json.num (Spec.countedBadness evs)),
    ("processed", Json.num (Spec.processed cfg.strict evs).length),
    ("gateFails", Json.bool (Spec.gateFails cfg.strict cfg.threshold evs)),
    ("errorLines", jLines (Spec.errorLines cfg.strict cfg.threshold evs))]

open Rattr.DiagScope in
/-- op `diag_scoped`. -/
def handleScoped (payload : Json) : R Json := do
  let cfg ← parseCfg (← field payload "cfg")
  let steps ← (← asArr (← field payload "steps")).mapM parseStep
  let r := DiagScope.run cfg steps
  return Json.mkObj [
    ("buckets", jState r.state), ("logged", jLines r.logged), ("stderr", jLines r.stderr),
    ("locs", jStrList (r.locs.map whereStr)),
    ("exit", Json.num r.exit), ("output", Json.bool r.output), ("gate", Json.bool r.gate),
    ("inOwnFile", Json.bool (inOwnFile none [] steps)),
    ("allPass", Json.bool (allPass steps)), ("allBenign", Json.bool (allBenign steps)),
    -- the contract on the places where the diagnostics really arose
    ("spec", specJson cfg (bySrc steps)),
    -- the contract on the places the code counted them for (self-check of the theorems)
    ("specByCode", specJson cfg (locate none [] steps))]

/-! op `diag_resolve`: the simplifier's import resolution over a chain of re-exporting modules.
payload: {"hops": [checks of each module looked at, nearest first], "final": {"kind", "flag"}} -/

open Rattr.SimplResolve in
def parseChecks (j : Json) : R Checks := do
  return { moduleKnown := (← asBool (← field j "moduleKnown")), blacklisted := (← asBool (← field j "blacklisted")),
           followLocal := (← asBool (← field j "followLocal")), skipPip := (← asBool (← field j "skipPip")),
           skipStdlib := (← asBool (← field j "skipStdlib")), hasIr := (← asBool (← field j "hasIr")) }

open Rattr.SimplResolve in
def parseFinal (j : Json) : R Final := do
  match (← asStr (← field j "kind")) with
  | "callable" => return .callable (← asBool (← field j "flag"))
  | "absent" => return .absent (← asBool (← field j "flag"))
  | "other" => return .other
  | k => .error s!"bad final {k}"

open Rattr.SimplResolve Rattr.DiagScope in
/-- op `diag_resolve`. -/
def handleResolve (payload : Json) : R Json := do
  let hops ← (← asArr (← field payload "hops")).mapM parseChecks
  let fin ← parseFinal (← field payload "final")
  match hops.reverse with
  | [] => .error "empty chain"
  | last :: revInit =>
    let ch := revInit.foldl (fun acc c => Chain.via c acc) (Chain.stop last fin)
    let r := resolve ch
    let outcome := match r.2 with
      | .resolved => "resolved" | .unresolved => "unresolved" | .importError => "import-error"
    return Json.mkObj [
      ("reports", jList (r.1.map fun x => Json.arr #[Json.str (levelStr x.1), Json.num x.2])),
      ("outcome", Json.str outcome), ("depth", Json.num ch.depth),
      -- where the enter_file discipline places them when the resolution starts outside every file
      ("locs", jStrList ((locate none [] (steps ch)).map fun e => whereStr e.loc)),
      ("inOwnFile", Json.bool (inOwnFile none [] (steps ch)))]

open Rattr.SimplResolve in
/-- op `diag_walk`: one queue element of the import walk. -/
def handleWalk (payload : Json) : R Json := do
  let f : ImportFacts := {
    nameKnown := (← asBool (← field payload "nameKnown")), specKnown := (← asBool (← field payload "specKnown")),
    hasOrigin := (← asBool (← field payload "hasOrigin")), builtinLoader := (← asBool (← field payload "builtinLoader")),
    seen := (← asBool (← field payload "seen")), blacklisted := (← asBool (← field payload "blacklisted")),
    skipPip := (← asBool (← field payload "skipPip")), skipStdlib := (← asBool (← field payload "skipStdlib")) }
  return match walkOne f with
    | .report lv b fam => Json.mkObj [("t", Json.str "report"), ("level", Json.str (levelStr lv)), ("badness", Json.num b), ("family", Json.num fam)]
    | .skip => Json.mkObj [("t", Json.str "skip")]
    | .analyse => Json.mkObj [("t", Json.str "analyse")]

/-- op `diag_scopes`: the model's reading of the regenerated scope table. -/
def handleScopes (_ : Json) : R Json :=
  return jList (Generated.C15.scopes.map fun (id, k, v) =>
    Json.mkObj [("id", Json.str id), ("kind", Json.str k), ("verdict", Json.str v),
                ("known", Json.bool (DiagScope.kindOfVerdict k v).isSome)])

def parsePath (j : Json) : R Diag.Path := do
  return { abs := (← asBool (← field j "abs")), comps := (← asStrList (← field j "comps")) }

/-- op `diag_render`. -/
def handleRender (payload : Json) : R Json := do
  let h ← asBool (← field payload "H")
  let t ← asBool (← field payload "T")
  let root ← parsePath (← field payload "root")
  let home ← parsePath (← field payload "home")
  let p ← parsePath (← field payload "path")
  return Json.str (render h t root home p).posix

end Rattr.Driver.C15

import RattrDriver.JsonUtil
import RattrModel.Swaps
import RattrModel.Spec.PyBind
import RattrModel.Results
import RattrModel.SrcCall

namespace Rattr.Driver.C04
open Lean Rattr Rattr.Driver

def si : StandIns String := { tuple := "@Tuple", dict := "@Dict" }

def parseParams (j : Json) : R (List (Spec.Param String)) := do
  (← asArr j).mapM fun p => do
    return { name := (← asStr (← field p "name")), hasDefault := (← asBool (← field p "default")) }

def parseSig (j : Json) : R (Spec.Sig String) := do
  return { posonly := (← parseParams (← field j "posonly")),
           args := (← parseParams (← field j "args")),
           vararg := (← asOptStr (← field j "vararg")),
           kwonly := (← parseParams (← field j "kwonly")),
           kwarg := (← asOptStr (← field j "kwarg")) }

def parseCall (j : Json) : R (CallArgs String) := do
  return { args := (← asStrList (← field j "args")), kwargs := (← asPairList (← field j "kwargs")) }

def diagJson : SwapDiag String → Json
  | .posonlyShort => Json.mkObj [("k", "posonlyShort")]
  | .tooManyPositional => Json.mkObj [("k", "tooManyPositional")]
  | .unexpectedKeywords ks => Json.mkObj [("k", "unexpectedKeywords"), ("names", jStrList ks)]
  | .byPositionAndName ks => Json.mkObj [("k", "byPositionAndName"), ("names", jStrList ks)]

def errStr : Spec.BindErr → String
  | .tooManyPositional => "tooManyPositional"
  | .multipleValues => "multipleValues"
  | .unexpectedKeyword => "unexpectedKeyword"
  | .missingRequired => "missingRequired"

/-- the call as written: `{"pos": [[starred?, spelling]], "kws": [[name | null, spelling]], "self": name | null}` -/
def parseSrc (j : Json) : R (SrcCall String × Option String) := do
  let pos ← (← asArr (← field j "pos")).mapM fun p => do
    match (← asArr p) with
    | [b, s] => return ((← asBool b), (← asStr s))
    | _ => throw "pos entry must be [bool, str]"
  let kws ← (← asArr (← field j "kws")).mapM fun p => do
    match (← asArr p) with
    | [k, v] => return ((← asOptStr k), (← asStr v))
    | _ => throw "kws entry must be [str|null, str]"
  return ({ pos := pos, kws := kws }, (← asOptStr (fieldD j "self" Json.null)))

def parseWarn : String → R Diag.WarnLevel
  | "none" => pure .none | "local" => pure .local_ | "default" => pure .default | "all" => pure .all
  | w => throw s!"unknown warning level {w}"

def levelStr : Diag.Level → String
  | .info => "info" | .warning => "warning" | .error => "error" | .fatal => "fatal"

/-- op `swaps`: model of construct_call_swaps and the Python-binding spec on the same case. With `src`
(the call as written) the recorded call is first computed by the model of `CallArguments.from_call`
(returned as `recorded`); with `cfg` (`{"warn", "strict"}`) the lines the arity diagnostics put on
stderr under that configuration are returned as `printed`. -/
def handle (payload : Json) : R Json := do
  let sig ← parseSig (← field payload "sig")
  let src? : Option (SrcCall String × Option String) ←
    match payload.getObjVal? "src" with
    | .ok j => pure (some (← parseSrc j))
    | .error _ => pure none
  let call ← match src? with
    | some (sc, self) => pure (SrcCall.toArgs self sc)
    | none => parseCall (← field payload "call")
  let (sw, ds) := Swaps.construct si sig.iface call
  let spec : Json := match Spec.pyBind sig call with
    | .error e => Json.mkObj [("err", errStr e)]
    | .ok b => Json.mkObj [("ok", Json.mkObj [
        ("explicit", jPairList b.explicit), ("varargGot", jStrList b.varargGot),
        ("kwargGot", jPairList b.kwargGot),
        ("expected", jPairList (Spec.expectedSwaps si sig b)),
        ("expectedLenient", jPairList (Spec.expectedSwapsLenient si sig b))])]
  let extra1 : List (String × Json) := match src? with
    | some (sc, _) => [("recorded", Json.mkObj [("args", jStrList call.args), ("kwargs", jPairList call.kwargs)]),
                       ("starredErrors", Json.num sc.starredErrors)]
    | none => []
  let extra2 : List (String × Json) ←
    match payload.getObjVal? "cfg" with
    | .ok j => do
      let cfg : Diag.Cfg := { strict := (← asBool (← field j "strict")), threshold := 0,
                              warnLevel := (← parseWarn (← asStr (← field j "warn"))),
                              collapseHome := false, truncateDeep := false }
      let o := Diag.runEvents cfg Diag.State.init (SrcCall.arityEvents ds)
      pure [("printed", jStrList (o.printed.map fun l => levelStr l.level)), ("exited", Json.bool o.exited)]
    | .error _ => pure []
  return Json.mkObj ([("swaps", jPairList sw), ("diags", jList (ds.map diagJson)), ("spec", spec)] ++ extra1 ++ extra2)

/-! op `unbind`: the substitution AS USED for inlining — `unbind_ir_with_call_swaps(ir, swaps)` with
`swaps` either given (any dict) or computed by `construct_call_swaps` from `sig` + `call`. -/

def parseNames (j : Json) : R (List NameS) := do
  (← asArr j).mapM fun p => do
    let (a, b) ← asPair p
    return { full := str a, base := str b }

def namesJson (l : List NameS) : Json :=
  jList (l.map (fun n => Json.arr #[Json.str n.full.toS, Json.str n.base.toS]))

def ifaceStr (i : Iface String) : Iface Str :=
  { posonly := i.posonly.map str, args := i.args.map str, vararg := i.vararg.map str,
    kwonly := i.kwonly.map str, kwarg := i.kwarg.map str }

def handleUnbind (payload : Json) : R Json := do
  let sw : Dict Str Str ←
    match payload.getObjVal? "swaps" with
    | .ok j => pure ((← asPairList j).map fun (a, b) => (str a, str b))
    | .error _ => do
      let sig ← parseSig (← field payload "sig")
      let call ← parseCall (← field payload "call")
      let callS : CallArgs Str := { args := call.args.map str, kwargs := call.kwargs.map fun (a, b) => (str a, str b) }
      pure (Swaps.construct ({ tuple := str "@Tuple", dict := str "@Dict" } : StandIns Str) (ifaceStr sig.iface) callS).1
  let ir : IrSets := ⟨← parseNames (← field payload "gets"), ← parseNames (← field payload "sets"),
                      ← parseNames (← field payload "dels")⟩
  let swJ := jPairList (sw.map fun (a, b) => (a.toS, b.toS))
  match Results.unbindIr sw ir with
  | none => return Json.mkObj [("outcome", "never"), ("swaps", swJ)]
  | some u =>
    return Json.mkObj [("outcome", "ok"), ("swaps", swJ), ("gets", namesJson u.gets),
                       ("sets", namesJson u.sets), ("dels", namesJson u.dels)]

end Rattr.Driver.C04

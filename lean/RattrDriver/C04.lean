import RattrDriver.JsonUtil
import RattrModel.Swaps
import RattrModel.Spec.PyBind

namespace Rattr.Driver.C04
open Lean Rattr Rattr.Driver

def si : StandIns String := { tuple := "@Tuple", dict := "@Dict" }

def parseParams (j : Json) : R (List (Spec.Param String)) := do
  (← asArr j).mapM fun p => do
    return { name := (← asStr (← field p "name")), hasDefault := (← asBool (← field p "default")) }

def parseSig (j : Json) : R (Spec.Sig String) := do
  return { posonly := (← parseParams (← field j "posonly")),
           args := (← parseParams (← field j "args")),
           vararg := (← asOptStr (← field j "vararg")),
           kwonly := (← parseParams (← field j "kwonly")),
           kwarg := (← asOptStr (← field j "kwarg")) }

def parseCall (j : Json) : R (CallArgs String) := do
  return { args := (← asStrList (← field j "args")), kwargs := (← asPairList (← field j "kwargs")) }

def diagJson : SwapDiag String → Json
  | .posonlyShort => Json.mkObj [("k", "posonlyShort")]
  | .tooManyPositional => Json.mkObj [("k", "tooManyPositional")]
  | .unexpectedKeywords ks => Json.mkObj [("k", "unexpectedKeywords"), ("names", jStrList ks)]
  | .byPositionAndName ks => Json.mkObj [("k", "byPositionAndName"), ("names", jStrList ks)]

def errStr : Spec.BindErr → String
  | .tooManyPositional => "tooManyPositional"
  | .multipleValues => "multipleValues"
  | .unexpectedKeyword => "unexpectedKeyword"
  | .missingRequired => "missingRequired"

/-- op `swaps`: model of construct_call_swaps and the Python-binding spec on the same case. -/
def handle (payload : Json) : R Json := do
  let sig ← parseSig (← field payload "sig")
  let call ← parseCall (← field payload "call")
  let (sw, ds) := Swaps.construct si sig.iface call
  let spec : Json := match Spec.pyBind sig call with
    | .error e => Json.mkObj [("err", errStr e)]
    | .ok b => Json.mkObj [("ok", Json.mkObj [
        ("explicit", jPairList b.explicit), ("varargGot", jStrList b.varargGot),
        ("kwargGot", jPairList b.kwargGot),
        ("expected", jPairList (Spec.expectedSwaps si sig b)),
        ("expectedLenient", jPairList (Spec.expectedSwapsLenient si sig b))])]
  return Json.mkObj [("swaps", jPairList sw), ("diags", jList (ds.map diagJson)), ("spec", spec)]

end Rattr.Driver.C04

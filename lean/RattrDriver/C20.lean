import RattrDriver.JsonUtil
import RattrModel.Cli
import RattrModel.Argv
import RattrModel.Spec.Precedence

namespace Rattr.Driver.C20
open Lean Rattr Rattr.Driver Rattr.Cli

/-- Text codec (trusted, see Cli.lean): canonical decimal ↔ `Text.num`, anything else a word. -/
def isCanonicalDecimal (s : String) : Bool :=
  let cs := s.toList
  let ds := match cs with | '-' :: r => r | r => r
  !ds.isEmpty && ds.all Char.isDigit && (ds.length == 1 || ds.head? != some '0') && s != "-0"

def textOf (s : String) : Text :=
  if isCanonicalDecimal s then
    match s.toInt? with
    | some i => .num i
    | none => .word (str s)
  else .word (str s)

def textStr : Text → String
  | .num i => toString i
  | .word s => s.toS

def parseScalar (j : Json) : R Scalar := do
  if let .ok v := j.getObjVal? "b" then return .bool (← asBool v)
  if let .ok v := j.getObjVal? "i" then return .int (← asInt v)
  if let .ok v := j.getObjVal? "s" then return .str (textOf (← asStr v))
  if let .ok _ := j.getObjVal? "o" then return .other
  if let .ok _ := j.getObjVal? "l" then return .other   -- nested list
  if let .ok _ := j.getObjVal? "t" then return .other   -- inline table inside a list
  .error s!"bad scalar {j.compress}"

def parseTVal (j : Json) : R TVal := do
  if let .ok v := j.getObjVal? "l" then return .list (← (← asArr v).mapM parseScalar)
  if let .ok _ := j.getObjVal? "t" then return .table
  return .sc (← parseScalar j)

def parseToml (j : Json) : R Toml := do
  (← asArr j).mapM fun kv => do
    match (← asArr kv) with
    | [k, v] => return (str (← asStr k), (← parseTVal v))
    | _ => .error "expected [key, value]"

def parseFile (j : Json) : R (Option TomlFile) := do
  match j with
  | .null => return none
  | .str "decode" => return some .decodeError
  | _ => return some (.table (← parseToml j))

def parseDir (j : Json) : R Dir := do
  return { vcs := (← asBool (← field j "vcs")), pyproject := (← parseFile (fieldD j "pyproject" .null)) }

def parseWorld (j : Json) : R World := do
  return { overrideFile := (← parseFile (fieldD j "override" .null)),
           cwd := (← parseDir (← field j "cwd")),
           parents := (← (← asArr (fieldD j "parents" (.arr #[]))).mapM parseDir) }

def valJson : Val → Json
  | .none => .null
  | .suppress => Json.mkObj [("suppress", true)]
  | .bool b => .bool b
  | .int i => Json.num (JsonNumber.fromInt i)
  | .text t => .str (textStr t)
  | .texts l => jStrList (l.map textStr)
  | .other k => Json.mkObj [("other", k.toS)]

/-- spec-side values: null | bool | int | string | [strings] -/
def parseVal (j : Json) : R Val := do
  match j with
  | .null => return .none
  | .bool b => return .bool b
  | .str s => return .text (textOf s)
  | .arr a => return .texts (← a.toList.mapM fun x => do return textOf (← asStr x))
  | _ => return .int (← asInt j)

def argErrJson : ArgErr → List (String × Json)
  | .expectedOneArgument d => [("err", "expectedOneArgument"), ("dest", d.toS)]
  | .invalidValue d => [("err", "invalidValue"), ("dest", d.toS)]
  | .invalidChoice d => [("err", "invalidChoice"), ("dest", d.toS)]
  | .notAllowedWith d => [("err", "notAllowedWith"), ("dest", d.toS)]
  | .required => [("err", "required")]
  | .unrecognized => [("err", "unrecognized")]
  | .versionExit => [("err", "versionExit")]
  | .unsupported => [("err", "unsupported")]
  | .ignoredExplicitArgument d => [("err", "ignoredExplicitArgument"), ("dest", d.toS)]
  | .ambiguousOption => [("err", "ambiguousOption")]

def tomlFailJson : TomlFail → List (String × Json)
  | .decode => [("err", "decode")]
  | .type k => [("err", "type"), ("key", k.toS)]
  | .notImplemented => [("err", "notImplemented")]
  | .arg e => ("src", "argparse") :: argErrJson e

def outcomeJson : Outcome → Json
  | .ok ns => Json.mkObj [("outcome", "ok"), ("ns", Json.mkObj (ns.map fun (k, v) => (k.toS, valJson v)))]
  | .cliError e => Json.mkObj (("outcome", "cliError") :: argErrJson e)
  | .tomlError e => Json.mkObj (("outcome", "tomlError") :: tomlFailJson e)
  | .tomlFatal e => Json.mkObj (("outcome", "tomlFatal") :: tomlFailJson e)

def parseKind (s : String) : R Spec.Kind :=
  match s with
  | "scalar" => .ok .scalar | "flag" => .ok .flag | "list" => .ok .list
  | _ => .error s!"bad kind {s}"

def parseDocType (s : String) : R Spec.DocType :=
  match s with
  | "bool" => .ok .bool | "int" => .ok .int | "str" => .ok .str | "list[str]" => .ok .listOfStr
  | _ => .error s!"bad doc type {s}"

/-- One option as the spec sees it: what each source says. -/
def specEntry (j : Json) : R (String × Json) := do
  let dest ← asStr (← field j "dest")
  let kind ← parseKind (← asStr (← field j "kind"))
  let default ← parseVal (← field j "default")
  let cli ← (← asArr (← field j "cli")).mapM parseVal
  let choices ← match fieldD j "choices" .null with
    | .null => pure none
    | c => do pure (some (← (← asArr c).mapM parseVal))
  let tomlJ := fieldD j "toml" .null
  let (acc, toml) ← match tomlJ with
    | .null => pure (Json.null, none)
    | t => do
      let tv ← parseTVal t
      let ty ← parseDocType (← asStr (← field j "doc_type"))
      let a := Spec.acceptable ty choices tv
      pure (Json.bool a, if a then Spec.tomlMeaning tv else none)
  return (dest, Json.mkObj [("acceptable", acc), ("effective", valJson (Spec.effective kind default toml cli))])

/-- op `cli_merge`: the model of `parse_arguments` on (world, project_toml_conf, argv), and the
spec's effective value per option from what each source says. -/
def handle (payload : Json) : R Json := do
  let argv := (← asStrList (← field payload "argv")).map textOf
  let world ← parseWorld (← field payload "world")
  let inputConf ← match fieldD payload "input_conf" .null with
    | .null => pure none
    | j => do pure (some (← parseToml j))
  let eoe ← asBool (fieldD payload "exit_on_error" (.bool false))
  -- the model with argparse's own tokeniser (RattrModel/Argv.lean); on canonical argv it IS
  -- `parseArguments` (C20.parseArgumentsX_canon)
  let out := parseArgumentsX world inputConf argv eoe
  -- the normalised option list of the command line: [dest, value | null] per occurrence
  let norm : Json := match tokenise cliParserH argv with
    | .error e => Json.mkObj (argErrJson e)
    | .ok toks => Json.arr ((occurrences cliParserH toks).map fun (d, v) =>
        Json.arr #[Json.str d.toS, match v with | none => Json.null | some t => Json.str (textStr t)]).toArray
  let spec ← (← asArr (fieldD payload "spec" (.arr #[]))).mapM specEntry
  let src := Spec.tomlSource (match fieldD payload "spec_override" .null with | .null => none | j => some j)
                             (match fieldD payload "spec_pyproject" .null with | .null => none | j => some j)
  return Json.mkObj [("model", outcomeJson out), ("spec", Json.mkObj spec), ("norm", norm),
                     ("spec_source", match src with | none => .null | some j => j),
                     ("toml_tokens", match inputConf with
                        | some c => (match validateToml tomlTypeMap c with
                            | .ok c' => jStrList ((translate tomlNameMap c').map textStr)
                            | .error _ => .null)
                        | none => .null)]

end Rattr.Driver.C20

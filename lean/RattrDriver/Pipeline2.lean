/- Driver glue for the multi-file pipeline model: op `pipeline2` (not part of the verified model). -/
import RattrDriver.Pipeline
import RattrModel.Pipeline2

namespace Rattr.Driver.Pipeline2
open Lean Rattr Rattr.Driver Rattr.FnA Rattr.Driver.Visit Rattr.Pipeline2

def asQFact (j : Json) : R (Str × QFact) := do
  match (← asArr j) with
  | [n, f] =>
    return (str (← asStr n),
      { module := (← asOptStr (← field f "module")).map str,
        origin := (← asOptStr (← field f "origin")).map str,
        pySource := (← asBool (← field f "pySource")),
        builtinLoader := (← asBool (← field f "builtinLoader")),
        blacklisted := (← asBool (← field f "blacklisted")),
        inPip := (← asBool (← field f "inPip")),
        inStdlib := (← asBool (← field f "inStdlib")) })
  | _ => throw "expected [qualified name, fact]"

def asSrcFile (j : Json) : R SrcFile := do
  return { origin := str (← asStr (← field j "origin")),
           derived := (← asOptStr (← field j "derived")).map str,
           isInit := (← asBool (← field j "isInit")),
           body := (← (← asArr (← field j "body")).mapM asTop) }

def parseProject (payload : Json) : R Project := do
  return { env := (← parseEnv (← field payload "env")),
           builtins := (← asStrL (← field payload "builtins")),
           mods := (← (← asArr (← field payload "mods")).mapM asModFact),
           excluded := (← asStrL (← field payload "excluded")),
           quals := (← (← asArr (← field payload "quals")).mapM asQFact),
           target := (← asSrcFile (← field payload "target")),
           files := (← (← asArr (← field payload "files")).mapM asSrcFile) }

/-- the qualified names of Import symbols of every analysed context that have no `mods` entry (the
model reads `modExists` from there with a silent default: the harness must supply them). -/
def missingMods (P : Project) (fs : List AFile) : List Str :=
  ((fs.flatMap fun f => (importsOf f.ctx).map (·.qual)).filter fun q => !(Dict.contains P.mods q)).eraseDups

def liveCalls (rs : Key → Nat → Option Key) (k : Key) (fn : FnInfo) : List CallRec :=
  fn.calls.filter fun c => (rs k c.cid).isSome

def zipIdx {α : Type} (l : List α) : List (Nat × α) := (List.range l.length).zip l

/-- largest number of distinct RESOLVABLE Call symbols with one name inside one function -/
def maxTie (P : Prog) (rs : Key → Nat → Option Key) : Nat :=
  ((zipIdx P.fns).map fun (k, fn) =>
    let live := liveCalls rs k fn
    (live.map fun c => (live.filter fun d => d.name == c.name).length).foldl max 0).foldl max 0

/-- (resolvable call edges, of which into another file, of which to classes, deepest call tree
among the target's roots, largest tree) -/
def stats (fs : List AFile) (P : Prog) (rs : Key → Nat → Option Key) (roots : Nat) : Nat × Nat × Nat × Nat × Nat :=
  let fir := gfir fs
  let per := (zipIdx P.fns).map fun (k, fn) => (k, liveCalls rs k fn)
  let edges := (per.map fun (_, l) => l.length).foldl (· + ·) 0
  let cross := (per.map fun (k, l) =>
      (l.filter fun c => match rs k c.cid with
        | some g => homeOf fs g != homeOf fs k
        | none => false).length).foldl (· + ·) 0
  let cls := (per.map fun (k, l) =>
      (l.filter fun c => match rs k c.cid with
        | some g => (match fir[g]? with | some p => p.1.kind == .cls | none => false)
        | none => false).length).foldl (· + ·) 0
  let trees := (List.range roots).map fun r =>
      match callTree2 P rs r with
      | some nodes => (((List.range nodes.length).map (Pipeline.depthOf nodes nodes.length)).foldl max 0, nodes.length)
      | none => (0, 0)
  (edges, cross, cls, (trees.map (·.1)).foldl max 0, (trees.map (·.2)).foldl max 0)

/-- op `pipeline2`: `Pipeline2.runWith2` on a project. -/
def handle (payload : Json) : R Json := do
  let P ← parseProject payload
  let ties ← asStr (fieldD payload "ties" (Json.str "insertion"))
  let ord : List CallSym → List CallSym := if ties == "reversed" then List.reverse else id
  let mut extra : List (String × Json) := []
  let mut store : Json := Json.null
  match analyseAll P with
  | .ok (t, irs, _) =>
    let fs := t :: irs
    let miss := missingMods P fs
    if !miss.isEmpty then
      return Json.mkObj [("outcome", Json.str "crash"), ("exc", Json.str ("NeedMod:" ++ (miss.headD []).toS)),
                         ("needMods", Pipeline.strsJson miss)]
    let Pg := toProg2 id fs
    let rs := resolveAt P fs (allCalls2 fs)
    let (e, x, k, d, n) := stats fs Pg rs t.ir.length
    let names := (((gfir fs).flatMap (·.2.calls)).filterMap (·.target)).filter (·.kind == .func) |>.map (·.name)
    extra := [("irs", Pipeline.strsJson (irs.map (·.key))), ("keys", Json.num (gfir fs).length),
              ("targetKeys", Json.num t.ir.length),
              ("maxTie", Json.num (maxTie Pg rs)), ("edges", Json.num e), ("crossEdges", Json.num x),
              ("clsEdges", Json.num k), ("depth", Json.num d), ("treeSize", Json.num n),
              ("callTargets", Pipeline.strsJson names.eraseDups)]
    match resultsStore2 ord P t irs with
    | .ok (_, _, σ) =>
      let homes := homesFrom 0 fs
      store := jList (((gfir fs).zip (σ.zip homes)).map fun (p, e, h) =>
        Json.mkObj [("file", Json.num h), ("name", Json.str p.1.name.toS), ("gets", jList (e.gets.map nameJson)),
                    ("sets", jList (e.sets.map nameJson)), ("dels", jList (e.dels.map nameJson))])
    | _ => pure ()
  | _ => pure ()
  match runWith2 ord P with
  | .ok (doc, ds) =>
    return Json.mkObj ([("outcome", Json.str "ok"), ("exc", Json.str ""), ("doc", Pipeline.docJson doc),
                        ("diags", jList (ds.map diagJson)), ("store", store)] ++ extra)
  | .fatal ds d =>
    return Json.mkObj ([("outcome", Json.str "fatal"), ("exc", Json.str d.tmpl.toS),
                        ("diags", jList (ds.map diagJson))] ++ extra)
  | .crash e => return Json.mkObj ([("outcome", Json.str "crash"), ("exc", Json.str e.toS)] ++ extra)

end Rattr.Driver.Pipeline2

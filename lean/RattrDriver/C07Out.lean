/- driver op `c07_out_encode`: the output-encoding model on concrete strings (Tie B of RattrModel.OutputEncode). -/
import RattrDriver.JsonUtil
import RattrModel.OutputEncode

namespace Rattr.Driver.C07Out
open Lean Rattr.OutEnc

def natList (l : List Nat) : Json := Json.arr (l.map fun n => Json.num (JsonNumber.fromNat n)).toArray

def one (s : PyStr) : Json :=
  let a := dumpStr true s
  let r := dumpStr false s
  Json.mkObj [
    ("ascii", natList a), ("raw", natList r),
    ("ascii_ok", Json.arr #[Json.bool (writable .ascii a), Json.bool (writable .latin1 a), Json.bool (writable .utf8 a)]),
    ("raw_ok", Json.arr #[Json.bool (writable .ascii r), Json.bool (writable .latin1 r), Json.bool (writable .utf8 r)]),
    ("pinned", Json.bool pinnedEnsureAscii)]

/-- payload: `{"strs": [[code point, …], …]}` -/
def handle (payload : Json) : R Json := do
  let strs ← asArr (← field payload "strs")
  let out ← strs.mapM fun j => do
    let cps ← (← asArr j).mapM asNat
    return one cps
  return Json.arr out.toArray

end Rattr.Driver.C07Out

import RattrDriver.JsonUtil
import RattrDriver.C20
import RattrModel.Imports
import RattrModel.Spec.Allowed
import RattrModel.FollowConfig
import RattrModel.ImportEdges
import RattrModel.ImportBlocks

namespace Rattr.Driver.C12
open Lean Rattr Rattr.Driver Rattr.Imports

abbrev Mod := Module String String

def parseImp (j : Json) : R (Imp String) := do
  return { target := (← asOptStr (← field j "target")), declBlacklisted := (← asBool (← field j "declBl")) }

def parseImps (j : Json) : R (List (Imp String)) := do (← asArr j).mapM parseImp

def parseModule (j : Json) : R Mod := do
  return { name := (← asStr (← field j "name")),
           origin := (← asOptStr (← field j "origin")),
           readable := (← asBool (← field j "readable")),
           blacklisted := (← asBool (← field j "blacklisted")),
           inPip := (← asBool (← field j "inPip")),
           inStdlib := (← asBool (← field j "inStdlib")),
           excluded := (← asBool (← field j "excluded")),
           imports := (← parseImps (← field j "imports")) }

def parseFlags (j : Json) : R Flags := do
  return { loc := (← asBool (← field j "loc")), pip := (← asBool (← field j "pip")),
           stdlib := (← asBool (← field j "stdlib")) }

def reasonStr : Reason → String
  | .unresolved => "unresolved" | .noSpec => "noSpec" | .noOrigin => "noOrigin" | .seen => "seen"
  | .blacklist => "blacklist" | .pip => "pip" | .stdlib => "stdlib"

def clsStr : Class → String
  | .local => "local" | .pip => "pip" | .stdlib => "stdlib" | .builtin => "builtin" | .missing => "missing"

def allowedJson : Resolve.Allowed String → Json
  | .crashNoModule => Json.str "crashNoModule"
  | .ignoredBlacklist => Json.str "ignoredBlacklist"
  | .ignoredNoLocal => Json.str "ignoredNoLocal"
  | .ignoredPip => Json.str "ignoredPip"
  | .ignoredStdlib => Json.str "ignoredStdlib"
  | .crashNotFound => Json.str "crashNotFound"
  | .found n => Json.mkObj [("found", Json.str n)]

def outcomeStr : Out String String → String
  | .done _ => "done" | .fatal _ => "fatal" | .crash _ => "crash" | .outOfFuel _ => "outOfFuel"

/-- Optional `config` part of op `imports`: the model of the configuration stage
(`Cli.parseArguments` + `Arguments.follow_imports`) on the case's TOML files and argv, and what the
theorem `C12_configured_level` predicts from what each source SAYS (`says.cli` / `says.toml`). -/
def handleConfig (j : Json) : R Json := do
  let argv := (← asStrList (← field j "argv")).map C20.textOf
  let world ← C20.parseWorld (← field j "world")
  let out := Cli.parseArguments world none argv true
  let says := fieldD j "says" Json.null
  let theoremLevel : Json ← match says with
    | .null => pure Json.null
    | s => do
      let cli ← (← asArr (← field s "cli")).mapM fun x => do pure (Cli.Val.int (← asInt x))
      let toml ← match fieldD s "toml" .null with
        | .null => pure none
        | t => do pure (some (Cli.Val.int (← asInt t)))
      pure (C20.valJson (Spec.effective .scalar (.int 1) toml cli))
  match out with
  | .ok ns =>
    let lv := Dict.get? ns FollowConfig.levelDest
    let fl := lv.bind FollowConfig.flagsOfVal
    return Json.mkObj [
      ("outcome", "ok"),
      ("level", match lv with | some v => C20.valJson v | none => .null),
      ("patterns", jStrList ((FollowConfig.patternsOfNs ns).map C20.textStr)),
      ("flags", match fl with
        | some f => Json.mkObj [("loc", f.loc), ("pip", f.pip), ("stdlib", f.stdlib)]
        | none => .null),
      ("theoremLevel", theoremLevel)]
  | o => return Json.mkObj [("outcome", "error"), ("detail", C20.outcomeJson o), ("theoremLevel", theoremLevel)]

/-! ### optional `project` part of op `imports`: the edge model (RattrModel/ImportEdges.lean) -/

def toDotted (s : String) : Locator.Dotted := Strs.splitDot s.toList
def ofDotted (d : Locator.Dotted) : String := String.ofList (Strs.joinDot d)

def parseStmt (j : Json) : R Edges.Stmt := do
  return { level := (← asNat (← field j "level")),
           module := (← asOptStr (← field j "module")).map toDotted,
           name := (← asOptStr (← field j "name")).map String.toList,
           declBl := (← asBool (fieldD j "declBl" (Json.bool false))) }

def errStr : Spec.ResolveErr → String
  | .noParentPackage => "noParentPackage" | .beyondTopLevel => "beyondTopLevel"

/-- Per file, per statement: the `Import` symbol rattr's rule gives (`qualified`, `module`), what
Python's rule gives (`pyQualified` / `pyError`, `pyModule`), whether the statement is in the fragment
of `C12_edge_like_python` (`wf`) and whether the two edges are equal (`same`: the theorem's
conclusion). `exists` = the dotted names that are modules of the project (by construction). -/
def handleProject (j : Json) : R Json := do
  let names := (← asStrList (← field j "exists")).map toDotted
  let ex : Locator.Dotted → Bool := fun n => names.contains n
  let files ← (← asArr (← field j "files")).mapM fun fj => do
    let src : Edges.Src := { base := toDotted (← asStr (← field fj "base")), isInit := (← asBool (← field fj "isInit")) }
    let stmts ← (← asArr (← field fj "stmts")).mapM parseStmt
    pure (src, stmts)
  return jList (files.map fun (src, stmts) => jList (stmts.map fun s =>
    let q := Edges.qualified src s
    let pq := Edges.pyQualified src s
    Json.mkObj [
      ("qualified", Json.str (ofDotted q)),
      ("module", jOptStr ((Edges.moduleName ex q).map ofDotted)),
      ("pyQualified", match pq with | .ok r => Json.str (ofDotted r) | .error _ => Json.null),
      ("pyError", match pq with | .ok _ => Json.null | .error e => Json.str (errStr e)),
      ("pyModule", jOptStr ((Edges.pyTarget ex src s).map ofDotted)),
      ("wf", Json.bool (Edges.wf src s)),
      ("same", Json.bool (decide (Edges.impOf ex src s = Edges.pyImpOf ex src s)))]))

/-! ### optional `blocks` per file of `project`: the model of `register_stmts` (RattrModel/ImportBlocks.lean) -/

mutual
partial def parseBlk (j : Json) : R (Blocks.Blk Nat) := do
  match j.getNat? with
  | .ok n => return .leaf n
  | .error _ =>
    let k ← asStr (← field j "k")
    let part := fun (key : String) => parseBlkL (fieldD j key (Json.arr #[]))
    match k with
    | "if" => return .ifS (← part "a") (← part "b")
    | "loop" => return .loopS (← part "a") (← part "b")
    | "with" => return .withS (← part "a")
    | "try" => return .tryS (← part "a") (← part "b") (← part "c") (← part "d")
    | "match" => return .matchS (← part "a")
    | "opaque" => return .noVisit (← part "a")
    | _ => throw s!"unknown block kind {k}"
partial def parseBlkL (j : Json) : R (List (Blocks.Blk Nat)) := do (← asArr j).mapM parseBlk
end

/-- Per file: `null`, or the import symbols (numbered in source order) `register_stmts` reaches, in its
order (`reg`), all of them in source order (`written`), and the decidable hypotheses of the block theorems. -/
def handleBlocks (j : Json) : R Json := do
  let outs ← (← asArr (← field j "files")).mapM fun fj => do
    match fieldD fj "blocks" Json.null with
    | .null => pure Json.null
    | b => do
      let t ← parseBlkL b
      pure (Json.mkObj [
        ("reg", jList ((Blocks.regL t).map fun (n : Nat) => Json.num (JsonNumber.fromNat n))),
        ("written", jList ((Blocks.writtenL t).map fun (n : Nat) => Json.num (JsonNumber.fromNat n))),
        ("descended", Json.bool (Blocks.descendedL t)),
        ("tryFree", Json.bool (Blocks.tryFreeL t))])
  return jList outs

/-- op `imports`: the model of the import-following stage, the executable spec closure and the
decidable hypotheses of the C12 theorems, on one module graph. `flags` are the bits the running
implementation reports (`Arguments.follow_*_imports`); the spec uses the documented meaning of
`level`. -/
def handle (payload : Json) : R Json := do
  let level ← asNat (← field payload "level")
  let fl ← parseFlags (← field payload "flags")
  let g : Graph String String ← (← asArr (← field payload "modules")).mapM parseModule
  let target ← parseImps (← field payload "target")
  -- every import target must name a module of the graph (the harness closes the graph)
  for i in target ++ g.flatMap (·.imports) do
    match i.target with
    | some n => if (lookup g n).isNone then throw s!"graph not closed: {n}"
    | none => pure ()
  -- real file per origin (os.path.realpath, computed by the harness): optional
  let reals : List (String × String) := (← (← asArr (← field payload "modules")).mapM fun mj => do
    let o ← asOptStr (← field mj "origin")
    let r ← asOptStr (fieldD mj "real" Json.null)
    pure (match o, r with | some o, some r => [(o, r)] | _, _ => [])).flatten
  -- isort section per module name (place_module of the installed isort): optional
  let secs : List (String × String) := (← (← asArr (← field payload "modules")).mapM fun mj => do
    let n ← asStr (← field mj "name")
    let sj ← asOptStr (fieldD mj "section" Json.null)
    pure (match sj with | some sc => [(n, sc)] | none => [])).flatten
  let sec : String → Section := fun n =>
    match secs.find? (fun p => p.1 == n) with | some p => Section.ofString p.2 | none => .other
  let haveReal := !reals.isEmpty
  let real : String → String := fun o => match reals.find? (fun p => p.1 == o) with | some p => p.2 | none => o
  let config ← match fieldD payload "config" Json.null with
    | .null => pure Json.null
    | c => handleConfig c
  let edges ← match fieldD payload "project" Json.null with
    | .null => pure Json.null
    | p => handleProject p
  let blockOrders ← match fieldD payload "project" Json.null with
    | .null => pure Json.null
    | p => handleBlocks p
  let bound := fuelBound g target
  let fuel := match (fieldD payload "fuel" Json.null).getNat? with
    | .ok n => n
    | .error _ => bound
  let out := bfs g fl fuel target
  let st := out.state
  let sfl := Spec.levelFlags level
  let keys := irsKeys st.analysed
  return Json.mkObj [
    ("outcome", Json.str (outcomeStr out)),
    ("analysed", jStrList st.analysed),
    ("keys", jStrList keys),
    ("seen", jStrList st.seen),
    ("skipped", jList (st.skipped.map fun (n, r) => Json.arr #[jOptStr n, Json.str (reasonStr r)])),
    ("pops", Json.num st.pops),
    ("fuelBound", Json.num bound),
    ("specFlagsAgree", Json.bool (decide (sfl = fl))),
    ("specReach", jStrList (Spec.reach g sfl target)),
    ("permitted", jStrList ((g.filter (Spec.permitted sfl)).map (·.name))),
    ("classes", Json.mkObj (g.map fun m => (m.name, Json.str (clsStr m.cls)))),
    ("resolve", jList (target.map fun i => allowedJson (Resolve.importAllowed g fl keys i))),
    ("config", config),
    ("edges", edges),
    ("blockOrders", blockOrders),
    ("realNodup", Json.bool (decide (realFiles g real st.analysed).Nodup)),
    ("hyps", Json.mkObj [
      ("sectionsAgree", if secs.isEmpty then Json.null else Json.bool (decide (Spec.SectionsAgree g sec))),
      ("originsCanonical", if haveReal then Json.bool (Spec.originsCanonicalB g real) else Json.null),
      ("flagsOK", Json.bool (decide (Spec.FlagsOK fl))),
      ("originInjective", Json.bool (decide (Spec.OriginInjective g))),
      ("noOverBlacklist", Json.bool (decide (Spec.NoOverBlacklist g))),
      ("exclusionHonoured", Json.bool (decide (Spec.ExclusionHonoured g sfl))),
      ("realBlacklist", Json.bool (decide (Spec.RealBlacklist g)))])]

end Rattr.Driver.C12

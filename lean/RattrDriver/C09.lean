import RattrDriver.JsonUtil
import RattrDriver.C10
import RattrDriver.Visit
import RattrModel.Spec.ArgSpell

namespace Rattr.Driver.C09
open Lean Rattr Rattr.Driver Rattr.Naming Rattr.FnA

/-- op `arg_spell`: what the call record owes an argument expression — the README spelling, whether
the expression is in the documented fragment (`Spec.argDoc` / `Spec.strictDoc`), and what the model's
two namers answer under `safe=True` (`arg_name` / `kwarg_name` call the deprecated one). -/
def handle (payload : Json) : R Json := do
  let e ← C10.parseExpr (← field payload "expr")
  return Json.mkObj [
    ("spec", Json.arr #[Json.str (String.ofList (Spec.base e)), Json.str (String.ofList (Spec.spell e))]),
    ("doc", Json.bool (Spec.argDoc e)),
    ("strict", Json.bool (Spec.strictDoc e)),
    ("old_safe", C10.outJson (Naming.oldNames true e)),
    ("new_safe", C10.outJson (Naming.namesOf true true e))]

/-- op `analyse_fns`: `analyse_fn` for many functions of ONE module (the root context, which is most of
an `analyse_fn` request, is sent and parsed once): `{env, root, module, fns: [{params, body}]}` →
`{outs: [<analyse_fn response>…]}`. -/
def handleFns (payload : Json) : R Json := do
  let env ← Visit.parseEnv (← field payload "env")
  let rootSyms ← (← asArr (← field payload "root")).mapM asSym
  let root : Context := [rootSyms.map (fun s => (s.name, s))]
  let mn := str (← asStr (← field payload "module"))
  let outs ← (← asArr (← field payload "fns")).mapM fun j => do
    let ps ← asParams (← field j "params")
    let body ← (← asArr (← field j "body")).mapM asNode
    return (match analyse env mn root ps body with
      | .ok s => Visit.stJson "ok" "" s
      | .fatal s d => Visit.stJson "fatal" d.tmpl.toS s
      | .crash s e => Visit.stJson "crash" e.toS s)
  return Json.mkObj [("outs", jList outs)]

end Rattr.Driver.C09

import RattrDriver.JsonUtil
import RattrDriver.C12
import RattrModel.Stats
import RattrModel.RelBase
import RattrModel.Spec.Allowed

/-! op `c07_run` (property C07, round 3): the numbers of `--stdout stats`, the output stage of `main`, and the
keys of `import_irs` / the verdict of `resolve_import` for every import statement of a followed project. -/
namespace Rattr.Driver.C07Stats
open Lean Rattr Rattr.Driver Rattr.Imports Rattr.Stats

def outStr : Stats.Out → String
  | .ok => "ok"
  | .crash e => "crash:" ++ e

def originOf (g : Graph String String) (n : String) : Option String := (lookup g n).bind (·.origin)

/-- which of the three classes of `C07.ImportErrorClass` an import falls into (reporting aid; the theorem
`C07_import_error_classes` says a crashing statement import is never `unclassified`). -/
def klass (g : Graph String String) (analysed : List String) (i : Imp String) : String :=
  match i.target with
  | none => "module-unresolved"
  | some n =>
    match originOf g n with
    | none => "module-without-file"
    | some o =>
      match analysed.find? (fun n' => n' != n && originOf g n' == some o) with
      | some n' => "same-origin-under-another-name:" ++ n'
      | none => "unclassified"

def handleRun (j : Json) : R Json := do
  let fl ← C12.parseFlags (← field j "flags")
  let g : Graph String String ← (← asArr (← field j "modules")).mapM C12.parseModule
  let target ← C12.parseImps (← field j "target")
  let srcs : List (String × String) ← (← asArr (← field j "modules")).mapM fun mj => do
    pure ((← asStr (← field mj "name")), (← asStr (fieldD mj "source" (Json.str ""))))
  let src : String → Str := fun n => match srcs.find? (fun p => p.1 == n) with | some p => p.2.toList | none => []
  let targetSource := (← asStr (← field j "targetSource")).toList
  let output ← match Output.ofString (← asStr (← field j "output")) with
    | some o => pure o
    | none => throw "unknown output"
  for i in target ++ g.flatMap (·.imports) do
    match i.target with
    | some n => if (lookup g n).isNone then throw s!"graph not closed: {n}"
    | none => pure ()
  let out := bfs g fl (fuelBound g target) target
  let st := out.state
  let keys := irsKeys st.analysed
  let stats := if fl.any then statsOf targetSource src st else statsOfNoFollow targetSource
  -- every import statement of the target and of every analysed module, in that order
  let stmts : List (String × Imp String) :=
    target.map (fun i => ("<target>", i)) ++
    st.analysed.flatMap fun n => match lookup g n with
      | some m => m.imports.map (fun i => (n, i))
      | none => []
  let resolve := stmts.map fun (w, i) =>
    let v := Resolve.importAllowed g fl keys i
    Json.mkObj [("in", Json.str w), ("target", jOptStr i.target), ("verdict", C12.allowedJson v),
                ("class", match v with
                  | .crashNoModule | .crashNotFound => Json.str (klass g st.analysed i)
                  | _ => Json.null)]
  return Json.mkObj [
    ("outcome", Json.str (C12.outcomeStr out)),
    ("keys", jStrList keys),
    ("seen", jStrList st.seen),
    ("pops", Json.num st.pops),
    ("fileLines", Json.num stats.fileLines), ("importLines", Json.num stats.importLines),
    ("numberOfImports", Json.num stats.numberOfImports), ("uniqueImports", Json.num stats.uniqueImports),
    ("output", Json.str (outStr (outputStage output stats false))),
    ("resolve", jList resolve),
    ("originInjective", Json.bool (decide (Spec.OriginInjective g)))]

def handle (payload : Json) : R Json := do
  let lines ← match fieldD payload "lines" Json.null with
    | .null => pure Json.null
    | l => do pure (jList ((← asStrList l).map fun s => Json.num (readLines s.toList)))
  let shows ← match fieldD payload "show" Json.null with
    | .null => pure Json.null
    | l => do
      let rows ← (← asArr l).mapM fun r => do
        match (← asArr r) with
        | [a, b, c, d, tz, o] =>
          let s : RunStats := ⟨← asInt a, ← asInt b, ← asInt c, ← asInt d⟩
          let out ← match Output.ofString (← asStr o) with
            | some o => pure o
            | none => throw "unknown output"
          pure (Json.str (outStr (outputStage out s (← asBool tz))))
        | _ => throw "show row: [fileLines, importLines, nImports, unique, timesZero, output]"
      pure (jList rows)
  -- K23: the guard of the relative-import visitors; `exists` = the dotted names `module_exists` accepts (real verdicts)
  let relbase ← match fieldD payload "relbase" Json.null with
    | .null => pure Json.null
    | l => do
      let rows ← (← asArr l).mapM fun r => do
        let comps := (← asStrList (← field r "comps")).map String.toList
        let trueNames ← (← asArr (← field r "exists")).mapM fun n => do pure ((← asStrList n).map String.toList)
        let fixed ← asBool (fieldD r "fixed" (Json.bool true))
        pure (Json.str (match RelBase.relBase fixed (fun n => trueNames.contains n) comps with
          | .crash e => "crash:" ++ e
          | .fatal => "fatal"
          | .base b => "base:" ++ ".".intercalate (b.map String.ofList)))
      pure (jList rows)
  -- K25: the tail of main; row = [fileLines, importLines, nImports, unique, timesZero, output, cache (null | bool), fixed]
  let tails ← match fieldD payload "tail" Json.null with
    | .null => pure Json.null
    | l => do
      let rows ← (← asArr l).mapM fun r => do
        match (← asArr r) with
        | [a, b, c, d, tz, o, cache, fixed] =>
          let s : RunStats := ⟨← asInt a, ← asInt b, ← asInt c, ← asInt d⟩
          let out ← match Output.ofString (← asStr o) with
            | some o => pure o
            | none => throw "unknown output"
          let cw : Option Bool ← match cache with
            | .null => pure none
            | x => do pure (some (← asBool x))
          pure (Json.str (match mainTail (← asBool fixed) out s (← asBool tz) cw with
            | .ok => "ok" | .fatal => "fatal" | .crash e => "crash:" ++ e))
        | _ => throw "tail row: [fileLines, importLines, nImports, unique, timesZero, output, cache, fixed]"
      pure (jList rows)
  let run ← match fieldD payload "run" Json.null with
    | .null => pure Json.null
    | r => handleRun r
  return Json.mkObj [("lines", lines), ("show", shows), ("run", run), ("relbase", relbase), ("tail", tails)]

end Rattr.Driver.C07Stats

import RattrDriver.JsonUtil
import RattrDriver.C15
import RattrDriver.Pipeline
import RattrModel.DiagSites
import RattrModel.MainRun
import RattrModel.MainCache
import RattrModel.Generated.C16

/- Driver ops of C16: `c16_tables` (the model's source tables, so that the harness never keeps a
copy of its own), `c16_main` / `c16_out` (the whole `main` of the model, every output mode). -/
namespace Rattr.Driver.C16
open Lean Rattr Rattr.Driver Rattr.Diag Rattr.DiagSites

def jPair (p : String × String) : Json := Json.arr #[Json.str p.1, Json.str p.2]

def jSite (s : Site) : Json :=
  Json.arr #[Json.str s.1, Json.str s.2.1, Json.str s.2.2.1, Json.num s.2.2.2]

/-- op `c16_tables`: the allowed readers, the readers of the regenerated table that are NOT allowed,
and the class / possible places of every regenerated diagnostic call site. -/
def handleTables (_ : Json) : R Json := do
  let newReaders := Generated.C16.verbosityReaders.filter fun r => !(allowedReaders.contains r)
  let sites := Generated.C16.diagSites.map fun s =>
    match classOf s with
    | some c => Json.mkObj [("site", jSite s), ("class", Json.str c.name),
                            ("wheres", jList (c.wheres.map fun w => Json.str (C15.whereStr w))),
                            ("programReachable", Json.bool c.programReachable)]
    | none => Json.mkObj [("site", jSite s), ("class", Json.null), ("wheres", jList []),
                          ("programReachable", Json.bool true)]
  return Json.mkObj [("allowedReaders", jList (allowedReaders.map jPair)),
                     ("newReaders", jList (newReaders.map jPair)),
                     ("sites", jList sites)]

/-- op `c16_main`: `MainRun.mainWith` on a `pipeline` payload (module encoding + facts + import
facts + ties) for every configuration in `cfgs`. -/
def handleMain (payload : Json) : R Json := do
  let c ← File.parseCase payload
  let imp ← (← asArr (fieldD payload "imports" (Json.arr #[]))).mapM Pipeline.asImpFact
  let ties ← asStr (fieldD payload "ties" (Json.str "insertion"))
  let ord : List CallSym → List CallSym := if ties == "reversed" then List.reverse else id
  let cfgs ← (← asArr (← field payload "cfgs")).mapM C15.parseCfg
  match MainRun.stagedWith ord c.env c.mn c.facts c.builtins c.body imp with
  | .error e => return Json.mkObj [("outcome", Json.str "crash"), ("exc", Json.str e.toS)]
  | .ok st =>
    let evs := MainRun.events st
    let runs := cfgs.map fun cfg =>
      let r := MainRun.mainOf cfg st
      Json.mkObj [("exit", Json.num r.diag.exit), ("output", Json.bool r.diag.output),
                  ("buckets", C15.jState r.diag.state), ("printed", C15.jLines r.diag.printed),
                  ("stdout", match r.stdout with | some d => Pipeline.docJson d | none => Json.null)]
    return Json.mkObj [("outcome", Json.str "ok"),
                       ("events", jList (evs.map fun e => Json.arr #[Json.str (C15.levelStr e.level), Json.num e.badness,
                                                                    Json.str (C15.whereStr e.loc)])),
                       ("hasDoc", Json.bool st.doc.isSome), ("runs", jList runs)]

def parseMode (s : String) : R MainRun.OutMode :=
  match MainRun.OutMode.every.find? (fun m => m.name == s) with
  | some m => pure m
  | none => throw s!"unknown output mode {s}"

def jPrinted : MainRun.Printed → Json
  | .stats d => Json.mkObj [("mode", Json.str "stats"), ("buckets", C15.jState d.buckets), ("threshold", Json.num d.threshold)]
  | .ir d => Json.mkObj [("mode", Json.str "ir"), ("filename", Json.str d.filename.toS),
                         ("contextFile", Json.str d.contextFile.toS),
                         ("symbols", jList (d.symbols.map fun (k, f) => Json.arr #[Json.str k.toS, Json.str f.toS])),
                         ("importIrs", jStrList (d.importIrs.map Str.toS))]
  | .results d => Json.mkObj [("mode", Json.str "results"), ("doc", Pipeline.docJson d)]
  | .cacheable d => Json.mkObj [("mode", Json.str "cacheable"), ("filepath", Json.str d.filepath.toS),
                                ("doc", Pipeline.docJson d.results)]

/-- op `c16_out`: `MainRun.mainOutWith` on a `pipeline` payload, the target as spelled (`target`) and a
list of `jobs` = [configuration, output mode]. -/
def handleOut (payload : Json) : R Json := do
  let c ← File.parseCase payload
  let imp ← (← asArr (fieldD payload "imports" (Json.arr #[]))).mapM Pipeline.asImpFact
  let ties ← asStr (fieldD payload "ties" (Json.str "insertion"))
  let ord : List CallSym → List CallSym := if ties == "reversed" then List.reverse else id
  let target := str (← asStr (← field payload "target"))
  let jobs ← (← asArr (← field payload "jobs")).mapM fun j => do
    match (← asArr j) with
    | [cfg, mode] => return ((← C15.parseCfg cfg), (← parseMode (← asStr mode)))
    | _ => throw "expected [cfg, mode]"
  match MainRun.stagedWith ord c.env c.mn c.facts c.builtins c.body imp with
  | .error e => return Json.mkObj [("outcome", Json.str "crash"), ("exc", Json.str e.toS)]
  | .ok st =>
    let runs := jobs.map fun (cfg, mode) =>
      let r := MainRun.mainOut mode target cfg st
      Json.mkObj [("exit", Json.num r.diag.exit), ("buckets", C15.jState r.diag.state),
                  ("printed", C15.jLines r.diag.printed),
                  ("stdout", match r.stdout with | some d => jPrinted d | none => Json.null)]
    return Json.mkObj [("outcome", Json.str "ok"), ("keys", jStrList (st.keys.map Str.toS)), ("runs", jList runs)]

def parseGate (s : String) : R MainCache.Gate :=
  match MainCache.Gate.every.find? (fun g => g.name == s) with
  | some g => pure g
  | none => throw s!"unknown gate state {s}"

/-- op `c16_cache`: `MainCache.mainCache` on an event list (what analysis + simplification emit), the
cache set-up (`refresh`, `gate`, `writable`) and a list of configurations. -/
def handleCache (payload : Json) : R Json := do
  let evs ← (← asArr (← field payload "events")).mapM C15.parseEvent
  let cfgs ← (← asArr (← field payload "cfgs")).mapM C15.parseCfg
  let s : MainCache.Setup := { refresh := (← asBool (← field payload "refresh")),
                               gate := (← parseGate (← asStr (← field payload "gate"))),
                               writable := (← asBool (← field payload "writable")) }
  let runs := cfgs.map fun cfg =>
    let r := MainCache.mainCache s cfg evs
    Json.mkObj [("exit", Json.num r.diag.exit), ("output", Json.bool r.diag.output),
                ("buckets", C15.jState r.diag.state), ("printed", C15.jLines r.diag.printed),
                ("cache", Json.str r.cache.name)]
  return Json.mkObj [("runs", jList runs)]

end Rattr.Driver.C16

import RattrDriver.JsonUtil
import RattrModel.Cache
import RattrModel.CacheDeps
import RattrModel.CacheRun

/-! Driver ops for C19.

`cache_gate`: the gate (`Cache.gateJ`) on one file content + world facts.
`cache_history`: the state machine (`Cache.step`) on an op sequence with abstract hashes; the
analysis parameters (`fresh`, `recorded`, `fails`) are supplied as a finite table keyed by the part
of the world they may depend on. -/

namespace Rattr.Driver.C19
open Lean Rattr Rattr.Cache Rattr.Driver

/-- Tagged encoding of a `json.loads` value (numbers travel as their Python `str()`). -/
partial def parseJVal (j : Json) : R JVal := do
  match (← asStr (← field j "t")) with
  | "null" => return .null
  | "bool" => return .bool (← asBool (← field j "v"))
  | "num" => return .num (← asStr (← field j "r")).toList
  | "str" => return .str (← asStr (← field j "v")).toList
  | "arr" => return .arr (← (← asArr (← field j "v")).mapM parseJVal)
  | "obj" =>
    let kvs ← (← asArr (← field j "v")).mapM fun kv => do
      match (← asArr kv) with
      | [k, v] => return ((← asStr k).toList, (← parseJVal v))
      | _ => throw "expected [key, value]"
    return .obj kvs
  | t => throw s!"unknown JVal tag {t}"

/-- Stand-in for Python's `str()` of lists / dicts (only its inequality with real hashes matters). -/
def render : JVal → Str
  | .arr _ => "[...]".toList
  | .obj _ => "{...}".toList
  | _ => "?".toList

def parseFile (j : Json) : R (Option FileContent) := do
  match j with
  | .null => return none
  | _ =>
    match (← asStr (← field j "k")) with
    | "notUtf8" => return some .notUtf8
    | "notJson" => return some .notJson
    | "json" => return some (.json (← parseJVal (← field j "v")))
    | k => throw s!"unknown file kind {k}"

def errStr : StructErr → String
  | .typeError => "TypeError"
  | .classValidation => "ClassValidationError"
  | .unicodeDecode => "UnicodeDecodeError"
  | .osError => "OSError"

def verdictJson : Verdict → Json
  | .fresh => Json.mkObj [("verdict", "fresh")]
  | .stale => Json.mkObj [("verdict", "stale")]
  | .crash e => Json.mkObj [("verdict", "crash"), ("err", errStr e)]

def lookupS (k : String) : List (String × String) → Option String
  | [] => none
  | (a, b) :: r => if a = k then some b else lookupS k r

/-- op `cache_gate` -/
def handleGate (payload : Json) : R Json := do
  let f ← parseFile (← field payload "file")
  let wj ← field payload "world"
  let files ← asPairList (← field wj "files")
  let D : Dir Str Str :=
    { isFile := fun p => (lookupS (String.ofList p) files).isSome
      emptyHash := (← asStr (← field wj "emptyHash")).toList }
  let w : World Str Str Str Unit :=
    { target := (← asStr (← field wj "target")).toList
      contents := fun p => ((lookupS (String.ofList p) files).getD "").toList
      opts := (← asStr (← field wj "args")).toList
      other := ()
      version := (← asStr (← field wj "version")).toList
      plugins := (← asStr (← field wj "plugins")).toList }
  let unreadable ← asStrList (fieldD wj "unreadable" (Json.arr #[]))
  let v := gateJIO render D (fun p => unreadable.contains (String.ofList p)) w f
  let ws : Bool := match f with
    | some (.json v) => wellShaped v
    | _ => false
  let structured : Bool := match classify render f with
    | .valid _ => true
    | _ => false
  -- the diagnostic the gate emits on its way to `stale`, and what it costs (`RattrModel.CacheRun`)
  let diag := CacheRun.gateDiag CacheRun.GateLevels.real D w (classify render f)
  let diagJ : Json := match diag with
    | none => Json.null
    | some l => Json.str l.name
  return (verdictJson v).mergeObj (Json.mkObj [("wellShaped", ws), ("structured", structured),
    ("diag", diagJ), ("gateBadness", Json.num (CacheRun.diagBadness diag))])

/-! ### histories -/

abbrev W := World String String String String
abbrev St := State String String String String String

/-- The part of the world the supplied analysis table is keyed by. -/
def worldKey (L : Layout String) (w : W) : List String :=
  [w.contents w.target, w.contents L.direct, w.contents L.transitive, w.opts, w.other]

structure Row where
  key : List String
  recorded : List String
  fails : Bool
  fresh : String

def findRow (rows : List Row) (k : List String) : Option Row := rows.find? (fun r => r.key = k)

def parseOp (j : Json) : R (Op String String String) := do
  match (← asStr (← field j "op")) with
  | "editTarget" => return .editTarget (← asStr (← field j "c"))
  | "editDirect" => return .editDirect (← asStr (← field j "c"))
  | "editTransitive" => return .editTransitive (← asStr (← field j "c"))
  | "changeOption" => return .changeOption (← asStr (← field j "o")) (← asStr (← field j "x"))
  | "runWithCache" => return .runWithCache
  | "forceRefresh" => return .forceRefresh
  | o => throw s!"unknown op {o}"

def outStr : Out → String
  | .noRun => "noRun"
  | .hit => "hit"
  | .missWritten => "missWritten"
  | .missFatal => "missFatal"
  | .crash e => "crash:" ++ errStr e

def diskJson : CacheFile String String String String → Json
  | .absent => Json.str "absent"
  | .malformed => Json.str "malformed"
  | .crashing e => Json.str ("crashing:" ++ errStr e)
  | .valid d => Json.mkObj [
      ("version", d.version), ("args", d.argumentsHash), ("plugins", d.pluginsHash),
      ("filepath", d.filepath), ("filehash", d.filehash),
      ("imports", jPairList d.imports), ("results", d.results)]

/-- op `cache_history` -/
def handleHistory (payload : Json) : R Json := do
  let ij ← field payload "init"
  let files ← asPairList (← field ij "files")
  let target ← asStr (← field ij "target")
  let L : Layout String :=
    { direct := (← asStr (← field ij "direct")), transitive := (← asStr (← field ij "transitive")) }
  let D : Dir String String :=
    { isFile := fun p => (lookupS p files).isSome, emptyHash := (← asStr (← field ij "emptyHash")) }
  let w0 : W :=
    { target := target
      contents := fun p => (lookupS p files).getD ""
      opts := (← asStr (← field ij "opts"))
      other := (← asStr (← field ij "other"))
      version := (← asStr (← field ij "version"))
      plugins := (← asStr (← field ij "plugins")) }
  let rows ← (← asArr (← field payload "analysis")).mapM fun r => do
    return ({ key := (← asStrList (← field r "key")), recorded := (← asStrList (← field r "recorded")),
              fails := (← asBool (← field r "fails")), fresh := (← asStr (← field r "fresh")) } : Row)
  let A : Analysis String String String String String :=
    { fresh := fun w => ((findRow rows (worldKey L w)).map (·.fresh)).getD "<no-row>"
      recorded := fun w => ((findRow rows (worldKey L w)).map (·.recorded)).getD []
      readSet := fun w => w.target :: ((findRow rows (worldKey L w)).map (·.recorded)).getD []
      fails := fun w => ((findRow rows (worldKey L w)).map (·.fails)).getD false }
  let disk0 : CacheFile String String String String ←
    match (← asStr (← field payload "disk")) with
    | "absent" => pure .absent
    | "malformed" => pure .malformed
    | "crashing" => pure (.crashing .typeError)
    | d => throw s!"unknown disk {d}"
  let ops ← (← asArr (← field payload "ops")).mapM parseOp
  -- run step by step, reporting output and disk after every step
  let mut s : St := { world := w0, disk := disk0 }
  let mut res : Array Json := #[]
  for o in ops do
    let (s', out) := step D A L s o
    let missingRow : Bool := match o with
      | .runWithCache | .forceRefresh => (findRow rows (worldKey L s.world)).isNone
      | _ => false
    res := res.push (Json.mkObj [("out", outStr out), ("disk", diskJson s'.disk),
      ("missingRow", missingRow)])
    s := s'
  return Json.mkObj [("steps", Json.arr res)]

/-! ### histories over any file, dependencies computed by the model (`RattrModel.CacheDeps`) -/

namespace Deps
open Rattr.CacheDeps Rattr.Imports

abbrev WD := CacheDeps.W String String String
abbrev StD := State String String ArgsKey String String

def parseRaw (j : Json) : R RawOpts := do
  return { follow := (← asNat (← field j "follow")),
           exclImports := (← asStrList (← field j "F")).map String.toList,
           exclNames := (← asStrList (← field j "x")).map String.toList }

def keyJson (k : ArgsKey) : Json :=
  Json.mkObj [("prefix", String.ofList k.litPrefix), ("follow", Json.num k.follow),
    ("F", jStrList (k.exclImports.map String.ofList)), ("x", jStrList (k.exclNames.map String.ofList))]

/-- op `cache_argkey`: the hashed tuple of one option set. -/
def handleArgsKey (payload : Json) : R Json := do
  let pre ← asStr (← field payload "prefix")
  let raw ← parseRaw (← field payload "opts")
  return keyJson (argsKey pre.toList raw)

structure ImpRow where
  origin : String
  content : String
  syms : List (Str × Option Str)

def parseStatic (j : Json) : R (Static String String) := do
  let mods ← (← asArr (← field j "mods")).mapM fun m => do
    return ({ name := (← asStr (← field m "name")).toList, origin := (← asOptStr (← field m "origin")),
              readable := (← asBool (← field m "readable")) } : ModInfo String)
  let stdlib := (← asStrList (← field j "stdlib")).map String.toList
  let matches_ ← asPairList (← field j "matches")
  let permanent := (← asStrList (← field j "permanent")).map String.toList
  let rows ← (← asArr (← field j "imports")).mapM fun r => do
    let syms ← (← asArr (← field r "syms")).mapM fun s => do
      match (← asArr s) with
      | [a, b] => return ((← asStr a).toList, (← asOptStr b).map String.toList)
      | _ => throw "expected [stmt, target]"
    return ({ origin := (← asStr (← field r "origin")), content := (← asStr (← field r "content")),
              syms := syms } : ImpRow)
  return { mods := mods
           originStr := String.toList
           reMatch := fun p t => matches_.contains (String.ofList p, String.ofList t)
           isStdlib := fun n => stdlib.contains n
           permanent := permanent
           builtins := (← asStr (← field j "builtins"))
           importsOf := fun o c =>
             ((rows.find? (fun r => r.origin = o && r.content = c)).map (·.syms)).getD []
           fuel := (← asNat (← field j "fuel")) }

def parseOpG (pre : Str) (j : Json) : R (OpG String String ArgsKey String) := do
  match (← asStr (← field j "op")) with
  | "edit" => return .edit (← asStr (← field j "p")) (← asStr (← field j "c"))
  | "setOptions" =>
    return .setOptions (argsKey pre (← parseRaw (← field j "o"))) (← asStr (← field j "x"))
  | "runWithCache" => return .runWithCache
  | "forceRefresh" => return .forceRefresh
  | o => throw s!"unknown op {o}"

def diskJsonD : CacheFile String String ArgsKey String → Json
  | .absent => Json.str "absent"
  | .malformed => Json.str "malformed"
  | .crashing e => Json.str ("crashing:" ++ errStr e)
  | .valid d => Json.mkObj [
      ("version", d.version), ("args", keyJson d.argumentsHash), ("plugins", d.pluginsHash),
      ("filepath", d.filepath), ("filehash", d.filehash),
      ("imports", jPairList d.imports), ("results", d.results)]

def bfsOutcome : Imports.Out Str String → String
  | .done _ => "done" | .fatal _ => "fatal" | .crash _ => "crash" | .outOfFuel _ => "outOfFuel"

structure RowD where
  contents : List String
  opts : ArgsKey
  other : String
  fails : Bool
  fresh : String

/-- op `cache_deps_history` -/
def handleHistory (payload : Json) : R Json := do
  let S ← parseStatic (← field payload "static")
  let pre := (← asStr (← field (← field payload "static") "litPrefix")).toList
  let ij ← field payload "init"
  let files ← asPairList (← field ij "files")
  let D : Dir String String :=
    { isFile := fun p => (lookupS p files).isSome, emptyHash := (← asStr (← field ij "emptyHash")) }
  let w0 : WD :=
    { target := (← asStr (← field ij "target"))
      contents := fun p => (lookupS p files).getD ""
      opts := argsKey pre (← parseRaw (← field ij "opts"))
      other := (← asStr (← field ij "other"))
      version := (← asStr (← field ij "version"))
      plugins := (← asStr (← field ij "plugins")) }
  let keyPaths ← asStrList (← field payload "keyPaths")
  let rows ← (← asArr (← field payload "analysis")).mapM fun r => do
    return ({ contents := (← asStrList (← field r "contents")),
              opts := argsKey pre (← parseRaw (← field r "opts")),
              other := (← asStr (← field r "other")),
              fails := (← asBool (← field r "fails")),
              fresh := (← asStr (← field r "fresh")) } : RowD)
  let find : WD → Option RowD := fun w => rows.find? (fun r =>
    r.contents = keyPaths.map w.contents && r.opts = w.opts && r.other = w.other)
  let A : Analysis String String ArgsKey String String :=
    depsAnalysis S D (fun w => ((find w).map (·.fresh)).getD "<no-row>")
      (fun w => ((find w).map (·.fails)).getD false)
  let disk0 : CacheFile String String ArgsKey String ←
    match (← asStr (← field payload "disk")) with
    | "absent" => pure .absent
    | "malformed" => pure .malformed
    | "crashing" => pure (.crashing .typeError)
    | d => throw s!"unknown disk {d}"
  let ops ← (← asArr (← field payload "ops")).mapM (parseOpG pre)
  let mut s : StD := { world := w0, disk := disk0 }
  let mut res : Array Json := #[]
  for o in ops do
    let (s', out) := stepG D A s o
    let extra : List (String × Json) := match o with
      | .runWithCache | .forceRefresh =>
        let r := CacheDeps.run S D s.world
        [("missingRow", Json.bool (find s.world).isNone),
         ("key", keyJson s.world.opts),
         ("bfs", Json.str (bfsOutcome r)),
         ("analysed", jStrList (r.state.analysed.map String.ofList)),
         ("readSet", jStrList (CacheDeps.readSet S D s.world)),
         ("recorded", jStrList (CacheDeps.recorded S D s.world)),
         ("builtinsUnreadable", Json.bool (BuiltinsUnreadable S))]
      | _ => []
    res := res.push (Json.mkObj ([("out", Json.str (outStr out)), ("disk", diskJsonD s'.disk)] ++ extra))
    s := s'
  return Json.mkObj [("steps", Json.arr res)]

end Deps

/-! ### histories with symbolic links, damage to the cache file and strictness options
(`RattrModel.CacheRun`) -/

namespace X
open Rattr.CacheDeps Rattr.CacheRun Rattr.Imports Deps

abbrev SX := StateX String String ArgsKey String String

structure RowX where
  contents : List String
  opts : ArgsKey
  other : String
  fails : Bool
  badness : Option Nat
  fresh : String

def parseLimit (j : Json) : R Limit :=
  match j with
  | .str "strict" => .ok .strict
  | _ => do return .threshold (← asNat j)

def parseDamage (j : Json) : R Damage := do
  match (← asStr j) with
  | "removed" => return .removed
  | "notJson" => return .notJson
  | "raises:TypeError" => return .raises .typeError
  | "raises:ClassValidationError" => return .raises .classValidation
  | "raises:UnicodeDecodeError" => return .raises .unicodeDecode
  | d => throw s!"unknown damage {d}"

def parseOpX (pre : Str) (j : Json) : R (OpX String String ArgsKey String) := do
  match (← asStr (← field j "op")) with
  | "write" => return .write (← asStr (← field j "p")) (← asStr (← field j "c"))
  | "relink" => return .relink (← asPairList (← field j "ps"))
  | "setOptions" =>
    return .setOptions (argsKey pre (← parseRaw (← field j "o"))) (← asStr (← field j "x"))
  | "damage" => return .damage (← parseDamage (← field j "d"))
  | "runWithCache" => return .runWithCache
  | "forceRefresh" => return .forceRefresh
  | o => throw s!"unknown op {o}"

def parseLevel (j : Json) : R Level := do
  match (← asStr j) with
  | "info" => return .info
  | "warning" => return .warning
  | "error" => return .error
  | l => throw s!"unknown level {l}"

/-- op `cache_x_history` -/
def handleHistory (payload : Json) : R Json := do
  let S ← parseStatic (← field payload "static")
  let pre := (← asStr (← field (← field payload "static") "litPrefix")).toList
  let ij ← field payload "init"
  let files ← asPairList (← field ij "files")
  let links ← asPairList (fieldD ij "links" (Json.arr #[]))
  -- `isfile` follows links: every link of the family leads to a regular file at all times
  let D : Dir String String :=
    { isFile := fun p => (lookupS p files).isSome || (lookupS p links).isSome
      emptyHash := (← asStr (← field ij "emptyHash")) }
  let fs0 : LinkFs String String :=
    { files := fun p => (lookupS p files).getD "", resolve := fun p => (lookupS p links).getD p }
  let w0 : WD :=
    { target := (← asStr (← field ij "target"))
      contents := fs0.view
      opts := argsKey pre (← parseRaw (← field ij "opts"))
      other := (← asStr (← field ij "other"))
      version := (← asStr (← field ij "version"))
      plugins := (← asStr (← field ij "plugins")) }
  let keyPaths ← asStrList (← field payload "keyPaths")
  let limits ← (← asArr (fieldD payload "limits" (Json.arr #[]))).mapM fun l => do
    match (← asArr l) with
    | [a, b] => return ((← asStr a), (← parseLimit b))
    | _ => throw "expected [other, limit]"
  let limitOf : String → Limit := fun x =>
    ((limits.find? (fun l => l.1 = x)).map (·.2)).getD (.threshold 0)
  let rows ← (← asArr (← field payload "analysis")).mapM fun r => do
    let b ← match fieldD r "badness" Json.null with
      | .null => pure none
      | j => do pure (some (← asNat j))
    return ({ contents := (← asStrList (← field r "contents")),
              opts := argsKey pre (← parseRaw (← field r "opts")),
              other := (← asStr (← field r "other")),
              fails := (← asBool (← field r "fails")),
              badness := b,
              fresh := (← asStr (← field r "fresh")) } : RowX)
  -- rows that carry a badness are keyed without the un-hashed options: the model itself decides
  -- `fails` from badness and limit, for every strictness setting
  let find : WD → Option RowX := fun w => rows.find? (fun r =>
    r.contents = keyPaths.map w.contents && r.opts = w.opts && (r.badness.isSome || r.other = w.other))
  let A0 : AnalysisB String String ArgsKey String String :=
    depsAnalysisB S D (fun w => ((find w).map (·.fresh)).getD "<no-row>")
      (fun w => ((find w).bind (·.badness)).getD 0) limitOf
  let A : AnalysisB String String ArgsKey String String :=
    { A0 with stageFails := fun w => A0.stageFails w ||
        ((find w).map (fun r => r.badness.isNone && r.fails)).getD false }
  let G : GateLevels ← match payload.getObjVal? "levels" with
    | .ok lj => do
      pure { noTarget := (← parseLevel (fieldD lj "noTarget" "info")),
             noCache := (← parseLevel (fieldD lj "noCache" "info")),
             malformed := (← parseLevel (fieldD lj "malformed" "info")) }
    | .error _ => pure GateLevels.real
  let disk0 : CacheFile String String ArgsKey String ←
    match (← asStr (← field payload "disk")) with
    | "absent" => pure .absent
    | "malformed" => pure .malformed
    | "crashing" => pure (.crashing .typeError)
    | d => throw s!"unknown disk {d}"
  let ops ← (← asArr (← field payload "ops")).mapM (parseOpX pre)
  let mut s : SX := { fs := fs0, st := { world := w0, disk := disk0 } }
  let mut res : Array Json := #[]
  for o in ops do
    let (s', out) := stepX G D A s o
    let extra : List (String × Json) := match o with
      | .runWithCache | .forceRefresh =>
        let r := CacheDeps.run S D s.st.world
        [("missingRow", Json.bool (find s.st.world).isNone),
         ("key", keyJson s.st.world.opts),
         ("bfs", Json.str (bfsOutcome r)),
         ("analysed", jStrList (r.state.analysed.map String.ofList)),
         ("readSet", jStrList (CacheDeps.readSet S D s.st.world)),
         ("recorded", jStrList (CacheDeps.recorded S D s.st.world)),
         ("builtinsUnreadable", Json.bool (BuiltinsUnreadable S)),
         ("gateBadness", Json.num (diagBadness (gateDiag G D s.st.world s.st.disk))),
         ("plainOk", Json.bool (plainRunOk A s.st.world))]
      | _ => []
    res := res.push (Json.mkObj ([("out", Json.str (outStr out)), ("disk", diskJsonD s'.st.disk)] ++ extra))
    s := s'
  return Json.mkObj [("steps", Json.arr res)]

end X

end Rattr.Driver.C19

import RattrDriver.JsonUtil
import RattrDriver.C06
import RattrDriver.C13
import RattrModel.Resolve
import RattrModel.Locator

/-! Driver ops of C05's project stages that need no result generation:

  * `c05_reexport`: `resolve_import` (RattrModel/Resolve.lean) for a LIST of `Import` symbols in one module
    table. The model is a function of (table, symbol), so the answers cannot depend on how often or in
    which order the harness asks the implementation — the harness asks it several times, in several orders.
  * `c05_first_dir`: `locate_module_in_python_path` / `find_module_spec_fast` (RattrModel/Locator.lean)
    over the search directories IN THE ORDER of `iter_python_path_dirs`: which directory's file a module
    name present in several search directories resolves to. -/

namespace Rattr.Driver.C05
open Lean Rattr Rattr.Driver

/-- op `c05_reexport`: payload = the world of op `resolve_import` + `queries: [[name, qualified_name]]`
+ `fuel`. -/
def handleReexport (payload : Json) : R Json := do
  let w ← C06.parseWorld payload
  let fuel ← asNat (← field payload "fuel")
  let qs ← (← asArr (← field payload "queries")).mapM asPair
  return jList (qs.map fun (n, q) => C06.outcomeJson (Resolve.resolveImport w fuel ⟨str n, str q⟩))

/-- op `c05_first_dir`: payload = `roots: [[path segments]]` (one file list per search directory, in
search order) + `names: [[module name segments]]`; answer per name: every hit `[directory index, path]`
in order (the first one is what `find_module_spec_fast` takes). -/
def handleFirstDir (payload : Json) : R Json := do
  let roots ← (← asArr (← field payload "roots")).mapM fun r => do (← asArr r).mapM C13.asComps
  let names ← (← asArr (← field payload "names")).mapM C13.asComps
  return jList (names.map fun n =>
    jList ((Locator.locate roots n).map fun (i, p) => Json.arr #[Json.num i, C13.jComps p]))

end Rattr.Driver.C05

import RattrDriver.C03
import RattrDriver.C06
import RattrModel.ResultsProject
import RattrModel.Provenance

namespace Rattr.Driver.C14
open Lean Rattr Rattr.Driver Rattr.Results Rattr.ResProject

def parseTarget (j : Json) : R CallTarget := do
  match (← asStr (← field j "k")) with
  | "none" => return .none
  | "builtin" => return .builtin
  | "name" => return .name
  | "func" => return .func (str (← asStr (← field j "name"))) (str (← asStr (← field j "file")))
  | "cls" => return .cls (str (← asStr (← field j "name"))) (str (← asStr (← field j "file")))
  | "imp" => return .imp (str (← asStr (← field j "name"))) (str (← asStr (← field j "qual")))
  | x => throw s!"bad call target kind {x}"

def parseFn (j : Json) : R PFn := do
  let calls ← (← asArr (← field j "calls")).mapM fun c => do
    return ({ call := (← C03.parseCall c), target := (← parseTarget (← field c "target")) } : PCall)
  return { isClass := (← asBool (← field j "isClass")), name := str (← asStr (← field j "name")),
           file := str (← asStr (← field j "file")),
           iface := C03.ifaceStr (← C03.parseIface (← field j "iface")), calls := calls,
           ir := ⟨← C03.parseNames (← field j "gets"), ← C03.parseNames (← field j "sets"),
                  ← C03.parseNames (← field j "dels")⟩ }

def parseModule (j : Json) : R PModule := do
  return { name := str (← asStr (← field j "name")),
           ctx := (← (← asArr (← field j "ctx")).mapM C06.parseMSym),
           fns := (← (← asArr (← field j "fns")).mapM parseFn) }

def resJson : Res → Json
  | .key k => Json.num k
  | .none_ => Json.null
  | .importError => Json.str "ImportError"
  | .recursionError => Json.str "RecursionError"

def setsJson (ir : IrSets) : Json :=
  Json.mkObj [("gets", C03.namesJson ir.gets), ("sets", C03.namesJson ir.sets), ("dels", C03.namesJson ir.dels)]

def projJson (p : Proj) : Json :=
  jList ((modules p).map fun m => jList (m.fns.map fun f => setsJson f.ir))

def keysJson (p : Proj) : Json :=
  jList ((modules p).map fun m => Json.arr #[Json.str m.name.toS,
    jList (m.fns.map fun f => Json.arr #[Json.bool f.isClass, Json.str f.name.toS])])

/-- op `results_project`: resolution of every call, then `rounds` result generations over the project. -/
def handle (payload : Json) : R Json := do
  let target ← parseModule (← field payload "target")
  let imports ← (← asArr (← field payload "imports")).mapM parseModule
  let mof ← (← asArr (← field payload "moduleOfFile")).mapM asPair
  let p0 : Proj := { target := target, imports := imports,
                     existing := (← asStrList (← field payload "existing")).map str,
                     ignored := (← asStrList (← field payload "ignored")).map str,
                     excluded := (← asStrList (← field payload "excluded")).map str,
                     moduleOfFile := mof.map (fun (a, b) => (str a, str b)),
                     fuel := (← asNat (fieldD payload "fuel" (Json.num 64))) }
  let rounds ← asNat (fieldD payload "rounds" (Json.num 1))
  let resolution := jList ((modules p0).map fun m => jList (m.fns.map fun f =>
    jList (f.calls.map fun c => resJson (findCallTarget p0 c.target))))
  let mut p := p0
  let mut outs : List Json := []
  let mut stop := false
  for _ in [0:rounds] do
    if !stop then
      let one (kind : String) (rs : List (Key × IrSets)) (after : Proj) (at_ : Json) : Json :=
        Json.mkObj [("outcome", kind), ("atRoot", at_),
          ("results", jList (rs.map (fun (k, ir) => C03.irJson k ir))),
          ("store", projJson after), ("keys", keysJson after),
          ("skeletonSame", Json.bool (skeleton after == skeleton p0))]
      match generateProject p with
      | .ok rs after =>
        outs := outs ++ [one "ok" rs after Json.null]
        p := after
      | .raised rs after f =>
        outs := outs ++ [one "raised" rs after (Json.num f)]
        p := after
      | .outOfFuel => outs := outs ++ [Json.mkObj [("outcome", "outOfFuel")]]; stop := true
      | .never => outs := outs ++ [Json.mkObj [("outcome", "never")]]; stop := true
  return Json.mkObj [("resolution", resolution), ("sizes", jList ((modules p0).map fun m => Json.num m.fns.length)),
                     ("rounds", jList outs)]

/-! op `results_located`: the LOCATED engine (`RattrModel.Provenance.generateL`) over one store, `rounds` times.
A name is `[full, base, loc]`, `loc` a number the harness assigns to each distinct (file, line, column). -/

open Rattr.Provenance in
def parseLNames (j : Json) : R (List (LName Nat)) := do
  (← asArr j).mapM fun p => do
    match (← asArr p) with
    | [a, b, l] => return { n := { full := str (← asStr a), base := str (← asStr b) }, loc := (← asNat l) }
    | _ => throw "bad located name"

open Rattr.Provenance in
def lnamesJson (l : List (LName Nat)) : Json :=
  jList (l.map (fun x => Json.arr #[Json.str x.n.full.toS, Json.str x.n.base.toS, Json.num x.loc]))

open Rattr.Provenance in
def lsetsJson (k : Key) (ir : LSets Nat) : Json :=
  Json.mkObj [("key", Json.num k), ("gets", lnamesJson ir.gets), ("sets", lnamesJson ir.sets), ("dels", lnamesJson ir.dels)]

open Rattr.Provenance in
def handleLocated (payload : Json) : R Json := do
  let fnsJ ← asArr (← field payload "fns")
  let mut fns : List FnInfo := []
  let mut store0 : List (LSets Nat) := []
  for f in fnsJ do
    let iface := C03.ifaceStr (← C03.parseIface (← field f "iface"))
    let calls ← (← asArr (← field f "calls")).mapM C03.parseCall
    fns := fns ++ [{ iface := iface, calls := calls }]
    store0 := store0 ++ [⟨← parseLNames (← field f "gets"), ← parseLNames (← field f "sets"),
                          ← parseLNames (← field f "dels")⟩]
  let resTab ← (← asArr (← field payload "resolve")).mapM fun p => do
    match (← asArr p) with
    | [c, k] => return ((← asNat c), (match k with | .null => none | _ => k.getNat?.toOption))
    | _ => throw "bad resolve entry"
  let order ← (← asArr (← field payload "order")).mapM asNat
  let rounds ← asNat (fieldD payload "rounds" (Json.num 1))
  let P : Prog := { fns := fns, resolve := fun c => (resTab.lookup c).join }
  let n := fns.length
  let mut σ : LStore Nat := fun k => (store0[k]?).getD ⟨[], [], []⟩
  let mut outs : List Json := []
  for _ in [0:rounds] do
    match generateL P order σ with
    | .outOfFuel => return Json.mkObj [("outcome", "outOfFuel")]
    | .never => return Json.mkObj [("outcome", "never")]
    | .ok (rs, σ') =>
      σ := σ'
      outs := outs ++ [Json.mkObj [
        ("results", jList (rs.map (fun (k, ir) => lsetsJson k ir))),
        ("store", jList ((List.range n).map (fun k => lsetsJson k (σ' k))))]]
  return Json.mkObj [("outcome", "ok"), ("rounds", jList outs)]

end Rattr.Driver.C14

/- Driver glue for the whole-pipeline model: op `pipeline` (not part of the verified model). -/
import RattrDriver.File
import RattrModel.Pipeline

namespace Rattr.Driver.Pipeline
open Lean Rattr Rattr.Driver Rattr.FnA Rattr.Driver.Visit Rattr.Pipeline

def asImpFact (j : Json) : R (Str × ImpFact) := do
  match (← asArr j) with
  | [n, f] =>
    return (str (← asStr n), { found := (← asBool (← field f "found")),
                               blacklisted := (← asBool (← field f "blacklisted")) })
  | _ => throw "expected [qualified name, fact]"

def strsJson (l : List Str) : Json := jStrList (l.map Str.toS)

def docJson (d : ResultsDoc) : Json :=
  jList (d.map fun (n, r) => Json.arr #[Json.str n.toS,
    Json.mkObj [("gets", strsJson r.gets), ("sets", strsJson r.sets), ("dels", strsJson r.dels),
                ("calls", strsJson r.calls)]])

def targetsOf (fir : FileIr) (k : SymKind) : List Sym :=
  ((fir.flatMap (·.2.calls)).filterMap (·.target)).filter (·.kind == k)

/-- the largest number of distinct RESOLVABLE Call symbols with one name inside one function: with
≥ 2 of them CPython's set order (hash order) decides the order of the tie. -/
def maxTie (P : Prog) : Nat :=
  (P.fns.map fun fn =>
    let live := fn.calls.filter fun c => (P.resolve c.cid).isSome
    (live.map fun c => (live.filter fun d => d.name == c.name).length).foldl max 0).foldl max 0

/-- depth of node `i` of a call tree (root = 0), by its parent chain -/
def depthOf (nodes : List Results.Node) : Nat → Nat → Nat
  | 0, _ => 0
  | fuel + 1, i =>
    match nodes[i]? with
    | some n => (match n.parent with | some p => depthOf nodes fuel p + 1 | none => 0)
    | none => 0

/-- (resolvable call edges, of which to classes, deepest call tree) — reach of the generator -/
def stats (fir : FileIr) (P : Prog) : Nat × Nat × Nat :=
  let edges := (P.fns.map fun fn => (fn.calls.filter fun c => (P.resolve c.cid).isSome).length).foldl (· + ·) 0
  let cls := (P.fns.map fun fn => (fn.calls.filter fun c =>
      match P.resolve c.cid with
      | some k => (match fir[k]? with | some p => p.1.kind == .cls | none => false)
      | none => false).length).foldl (· + ·) 0
  let depth := ((List.range fir.length).map fun r =>
      match Results.callTree P r with
      | some nodes => ((List.range nodes.length).map (depthOf nodes nodes.length)).foldl max 0
      | none => 0).foldl max 0
  (edges, cls, depth)

/-- op `pipeline`: `Pipeline.runWith` on the module encoding of `analyse_file` plus `imports`
(facts about Import call targets) and `ties` ("insertion" | "reversed"). Without the facts it needs
it answers `need-facts` and lists what to compute. -/
def handle (payload : Json) : R Json := do
  let c ← File.parseCase payload
  let imp ← (← asArr (fieldD payload "imports" (Json.arr #[]))).mapM asImpFact
  let ties ← asStr (fieldD payload "ties" (Json.str "insertion"))
  let ord : List CallSym → List CallSym := if ties == "reversed" then List.reverse else id
  -- what the results stage will ask about (from the model's own file stage)
  let mut extra : List (String × Json) := []
  let mut store : Json := Json.null
  match RootCtx.compile c.facts c.builtins c.body with
  | .ok r =>
    File.checkFacts c r
    if !hasStarred r.ctx then
      match FileA.analyseWith c.env c.mn c.facts r.ctx c.body with
      | .ok s =>
        let quals := ((targetsOf s.ir .import_).map (·.qual)).eraseDups
        let missing := quals.filter fun q => !(Dict.contains imp q)
        let names := ((targetsOf s.ir .func).map (·.name)).eraseDups
        extra := [("needImports", strsJson missing), ("callTargets", strsJson names),
                  ("maxTie", Json.num (maxTie (toProg id c.facts imp s.ir))),
                  ("keys", Json.num s.ir.length)]
        if missing.isEmpty then
          let (e, k, d) := stats s.ir (toProg id c.facts imp s.ir)
          extra := extra ++ [("edges", Json.num e), ("clsEdges", Json.num k), ("depth", Json.num d)]
          -- the IR as result generation leaves it (C14's subject), per FileIr key
          match resultsStore ord c.facts imp s.ir with
          | .ok (_, _, σ) =>
            store := jList ((s.ir.zip σ).map fun (p, e) =>
              Json.mkObj [("name", Json.str p.1.name.toS), ("gets", jList (e.gets.map nameJson)),
                          ("sets", jList (e.sets.map nameJson)), ("dels", jList (e.dels.map nameJson))])
          | _ => pure ()
        if !missing.isEmpty then
          return Json.mkObj ([("outcome", Json.str "need-facts")] ++ extra)
      | _ => pure ()
  | _ => pure ()
  match runWith ord c.env c.mn c.facts c.builtins c.body imp with
  | .ok (doc, ds) =>
    return Json.mkObj ([("outcome", Json.str "ok"), ("exc", Json.str ""), ("doc", docJson doc),
                        ("diags", jList (ds.map diagJson)), ("store", store)] ++ extra)
  | .fatal ds d =>
    return Json.mkObj ([("outcome", Json.str "fatal"), ("exc", Json.str d.tmpl.toS),
                        ("diags", jList (ds.map diagJson))] ++ extra)
  | .crash e => return Json.mkObj ([("outcome", Json.str "crash"), ("exc", Json.str e.toS)] ++ extra)

end Rattr.Driver.Pipeline

import RattrDriver.AstJson
import RattrModel.Resolve
import RattrModel.Blacklist
import RattrModel.ResolveLocal
import RattrModel.Spec.ImportEquiv
import RattrModel.StarChain

namespace Rattr.Driver.C06
open Lean Rattr Rattr.Driver Rattr.Resolve

def asOptS (j : Json) : R (Option Str) := do return (← asOptStr j).map str

def parseStmt (j : Json) : R ImportStmt := do
  let k ← asStr (← field j "k")
  match k with
  | "plain" => return .plain (str (← asStr (← field j "module"))) (← asOptS (fieldD j "asname" Json.null))
  | "from" => return .from_ (str (← asStr (← field j "module"))) (str (← asStr (← field j "name")))
                (← asOptS (fieldD j "asname" Json.null))
  | "star" => return .star (str (← asStr (← field j "module")))
  | "rel" => return .rel (← asNat (← field j "level")) (← asOptS (fieldD j "module" Json.null))
                (str (← asStr (← field j "name"))) (← asOptS (fieldD j "asname" Json.null))
  | "relstar" => return .relStar (← asNat (← field j "level")) (← asOptS (fieldD j "module" Json.null))
  | x => throw s!"bad import stmt kind {x}"

def parseMSym (j : Json) : R MSym := do
  let n := str (← asStr (← field j "name"))
  match (← asStr (← field j "k")) with
  | "func" => return .func n (← asBool (← field j "hasIr"))
  | "cls" => return .cls n (← asBool (← field j "hasIr"))
  | "imp" => return .imp n (str (← asStr (← field j "qual")))
  | "other" => return .other n
  | x => throw s!"bad msym kind {x}"

def msymJson : MSym → Json
  | .func n ir => Json.mkObj [("k", "func"), ("name", n.toS), ("hasIr", ir)]
  | .cls n ir => Json.mkObj [("k", "cls"), ("name", n.toS), ("hasIr", ir)]
  | .imp n q => Json.mkObj [("k", "imp"), ("name", n.toS), ("qual", q.toS)]
  | .other n => Json.mkObj [("k", "other"), ("name", n.toS)]

/-- regular-expression sources → patterns of the modelled fragment (error outside the fragment) -/
def parsePatterns (j : Json) : R (List Blacklist.Pattern) := do
  (← asStrList j).mapM fun src =>
    match Blacklist.parse (str src) with
    | some p => pure p
    | none => throw s!"pattern outside the modelled fragment: {src}"

/-- `[name, is_in_stdlib(name), [__safe_origin(m) | null for m in derive_module_names_right(name)]]` -/
def parseFacts (j : Json) : R (List (Str × Blacklist.NameFacts)) := do
  (← asArr j).mapM fun e => do
    match (← asArr e) with
    | [n, sl, os] =>
      let origins ← (← asArr os).mapM asOptS
      return (str (← asStr n), { inStdlib := (← asBool sl), origins := origins })
    | _ => throw "facts entry must be [name, inStdlib, origins]"

def factsFn (facts : List (Str × Blacklist.NameFacts)) (n : Str) : Blacklist.NameFacts :=
  match Dict.get? facts n with
  | some f => f
  | none => { inStdlib := false, origins := [] }

def parseWorld (j : Json) : R World := do
  let irs ← (← asArr (← field j "irs")).mapM fun e => do
    match (← asArr e) with
    | [n, syms] => return (str (← asStr n), (← (← asArr syms).mapM parseMSym))
    | _ => throw "irs entry must be [name, syms]"
  let existing := (← asStrList (← field j "existing")).map str
  -- optional "blacklist": {patterns, facts}: the ignored set is then COMPUTED by the model of
  -- `is_in_import_blacklist` (plus whatever "ignored" lists explicitly)
  let explicit := (← asStrList (← field j "ignored")).map str
  let ignored ← match j.getObjVal? "blacklist" with
    | .ok b => do
      let ps ← parsePatterns (← field b "patterns")
      let facts ← parseFacts (← field b "facts")
      pure (explicit ++ Blacklist.ignoredOf ps (factsFn facts) existing)
    | .error _ => pure explicit
  return { existing := existing, ignored := ignored, irs := irs }

def outcomeJson : Outcome → Json
  | .found m s => Json.mkObj [("k", "found"), ("module", m.toS), ("sym", msymJson s)]
  | .none_ w => Json.mkObj [("k", "none"), ("why", match w with
      | .ignored => "ignored" | .likelyIgnored => "likely-ignored" | .isMethod => "is-method"
      | .likelyUndefined => "likely-undefined")]
  | .importError e => Json.mkObj [("k", "ImportError"), ("why", match e with
      | .noModule => "no-module" | .notFound => "not-found")]
  | .recursionError => Json.mkObj [("k", "RecursionError")]

/-- op `resolve_import`: the call site (`get_call_target` in the importer's real root symbols) and
`resolve_import` in the module table. -/
def handle (payload : Json) : R Json := do
  let w ← parseWorld payload
  let rootSyms ← (← asArr (← field payload "root")).mapM asSym
  let root : Context := [rootSyms.map (fun s => (s.name, s))]
  let callee := str (← asStr (← field payload "callee"))
  let fuel ← asNat (← field payload "fuel")
  let (t, _) := callTargetFor root callee
  let assigned ← asOptS (fieldD payload "assignedTo" Json.null)
  let args := (← asStrList (fieldD payload "args" (Json.arr #[]))).map str
  let out : Json := match resolveCall w fuel root callee with
    | .noImportTarget k => Json.mkObj [("k", "no-import-target"),
        ("kind", match k with | none => Json.null | some .name => "Name" | some .builtin => "Builtin"
                              | some .import_ => "Import" | some .func => "Func" | some .cls => "Class")]
    | .viaImport o => outcomeJson o
  return Json.mkObj [("target", match t with | none => Json.null | some s => symJson s),
                     ("outcome", out),
                     ("recordArgs", jStrList ((callRecordArgs t assigned args).map Str.toS))]

/-- op `import_symbols`: the `Import(name, qualified_name)` each statement creates. -/
def handleSymbols (payload : Json) : R Json := do
  let f : FileId := { base := str (← asStr (← field payload "base")), isInit := (← asBool (← field payload "isInit")) }
  let stmts ← (← asArr (← field payload "stmts")).mapM parseStmt
  return jList (stmts.map fun s =>
    let y := importSymbol f s
    Json.arr #[Json.str y.name.toS, Json.str y.qual.toS, Json.str y.id.toS])

open Rattr.Spec.ImportEquiv in
/-- op `import_spec`: Python's binding of each spelled callee (the independent spec). -/
def handleSpec (payload : Json) : R Json := do
  let mods ← (← asArr (← field payload "modules")).mapM fun m => do
    let decls ← (← asArr (← field m "decls")).mapM fun d => do
      match (← asStr (← field d "k")) with
      | "def" => return Decl.def_ (str (← asStr (← field d "name"))) (← asBool (← field d "isClass"))
                   ((← asStrList (← field d "members")).map str)
      | _ => return Decl.imp (← parseStmt d)
    return ({ name := str (← asStr (← field m "name")), isPkg := (← asBool (← field m "isPkg")), decls := decls } : PyModule)
  let fuel ← asNat (← field payload "fuel")
  let qs ← (← asArr (← field payload "queries")).mapM asPair
  return jList (qs.map fun (tm, spelled) =>
    match expected mods fuel (str tm) (str spelled) with
    | some (.obj m k c _) => Json.arr #[Json.str "obj", Json.str m.toS, Json.str k.toS, Json.bool c]
    | some (.member m k a) => Json.arr #[Json.str "obj", Json.str m.toS, Json.str (k ++ '.' :: a).toS, Json.bool false]
    | some (.module m) => Json.arr #[Json.str "module", Json.str m.toS]
    | none => Json.null)

/-- op `blacklist`: the model's `is_in_import_blacklist` verdict for each `[name, inStdlib, origins]`
under the given pattern sources. -/
def handleBlacklist (payload : Json) : R Json := do
  let ps ← parsePatterns (← field payload "patterns")
  let facts ← parseFacts (← field payload "names")
  return jList (facts.map fun (n, f) => Json.bool (Blacklist.isInImportBlacklist ps n f))

/-- op `regex`: `[pattern source, subject]` ↦ `[fullmatch, match]` (null outside the fragment). -/
def handleRegex (payload : Json) : R Json := do
  let cs ← (← asArr (← field payload "cases")).mapM asPair
  return jList (cs.map fun (src, subj) =>
    match Blacklist.parse (str src) with
    | none => Json.null
    | some p => Json.arr #[Json.bool (Blacklist.fullMatch p (str subj)), Json.bool (Blacklist.prefixMatch p (str subj))])

open Rattr.ResolveLocal in
def parseDSym (j : Json) : R DSym := do
  let kind ← match (← asStr (← field j "kind")) with
    | "func" => pure DKind.func
    | "cls" => pure DKind.cls
    | x => throw s!"bad symbol kind {x}"
  return { kind := kind, name := str (← asStr (← field j "name")), iface := str (← asStr (← field j "iface")),
           file := str (← asStr (← field j "file")) }

open Rattr.ResolveLocal in
def dsymJson (d : DSym) : Json :=
  Json.mkObj [("kind", match d.kind with | .func => "func" | .cls => "cls"), ("name", d.name.toS),
              ("iface", d.iface.toS), ("file", d.file.toS)]

open Rattr.ResolveLocal in
/-- op `resolve_local`: `__resolve_target_and_ir` for each Func / Class call target in the environment
`{target: [sym], imports: [[module, [sym]]], moduleOf: [[file, module]]}`. -/
def handleLocal (payload : Json) : R Json := do
  let target ← (← asArr (← field payload "target")).mapM parseDSym
  let imports ← (← asArr (← field payload "imports")).mapM fun e => do
    match (← asArr e) with
    | [n, ks] => return (str (← asStr n), (← (← asArr ks).mapM parseDSym))
    | _ => throw "imports entry must be [module, keys]"
  let moduleOf := (← asPairList (← field payload "moduleOf")).map fun (f, m) => (str f, str m)
  let env : Env := { target := target, imports := imports, moduleOf := moduleOf }
  let calls ← (← asArr (← field payload "calls")).mapM parseDSym
  return Json.mkObj [("wf", Json.bool (localWFb env)), ("out", jList (calls.map fun t =>
    match resolveTargetAndIr env t with
    | .ok r => Json.mkObj [("k", "found"), ("inTarget", r.inTarget), ("module", r.module.toS), ("key", dsymJson r.key)]
    | .error e => Json.mkObj [("k", "error"), ("err", match e with
        | .importError => "ImportError" | .moduleNotFound => "ModuleNotFoundError" | .keyError => "KeyError")]))]

open Rattr.StarChain in
def parseStarFile (j : Json) : R StarFile := do
  let fid : FileId := { base := str (← asStr (← field j "base")), isInit := (← asBool (← field j "isInit")) }
  let names := (← asStrList (← field j "names")).map str
  let stars ← (← asArr (← field j "stars")).mapM parseStmt
  return { fid := fid, names := names, stars := stars }

open Rattr.StarChain in
/-- op `star_expand`: `Context.expand_starred_imports` of the file `start` (its unexpanded root context
given as `ctx`) over the table `files` (module name ↦ file); answers the symbols the expansion
APPENDED, as `[name, qualified_name]`. -/
def handleStarExpand (payload : Json) : R Json := do
  let files ← (← asArr (← field payload "files")).mapM fun e => do
    match (← asArr e) with
    | [n, f] => return (str (← asStr n), (← parseStarFile f))
    | _ => throw "files entry must be [module, file]"
  let start ← parseStarFile (← field payload "start")
  let ctx ← (← asArr (← field payload "ctx")).mapM parseMSym
  let out := expandFile files (fuelFor files start) start ctx
  return jList ((out.drop ctx.length).map fun m =>
    match m with
    | .imp n q => Json.arr #[Json.str n.toS, Json.str q.toS]
    | x => Json.arr #[Json.str x.key.toS, Json.null])

end Rattr.Driver.C06

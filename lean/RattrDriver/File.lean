/- Driver glue for stages S2 / S4: ops `root_context`, `analyse_file` (not part of the verified model). -/
import RattrDriver.FileJson
import RattrDriver.Visit
import RattrModel.FileAnalyser

namespace Rattr.Driver.File
open Lean Rattr Rattr.Driver Rattr.FnA Rattr.Driver.Visit

structure Case where
  env : Env
  mn : Str
  facts : Facts
  builtins : List Str
  body : List Top

def parseCase (payload : Json) : R Case := do
  return { env := (← parseEnv (← field payload "env")), mn := str (← asStr (← field payload "module")),
           facts := (← asFacts (← field payload "facts")), builtins := (← asStrL (← field payload "builtins")),
           body := (← (← asArr (← field payload "body")).mapM asTop) }

def symFullJson (s : Sym) : Json :=
  (symJson s).mergeObj (Json.mkObj [("modExists", s.modExists)])

def rootJson (outcome exc : String) (s : St) : Json :=
  Json.mkObj [("outcome", outcome), ("exc", exc),
              ("symbols", jList ((RootCtx.scopeSyms s.ctx).map symFullJson)),
              ("diags", jList (s.diags.map diagJson)), ("depth", Json.num s.ctx.length)]

/-- every import symbol's qualified name must have been given a fact (else the harness forgot a
candidate name: an error of the machinery, not of rattr). -/
def checkFacts (c : Case) (s : St) : R Unit := do
  for sy in RootCtx.scopeSyms s.ctx do
    if sy.kind == .import_ && !(Dict.contains c.facts.mods sy.qual) then
      throw s!"no module fact for {sy.qual.toS}"

/-- op `root_context` -/
def handleRoot (payload : Json) : R Json := do
  let c ← parseCase payload
  match RootCtx.compile c.facts c.builtins c.body with
  | .ok s => checkFacts c s; return rootJson "ok" "" s
  | .fatal s d => return rootJson "fatal" d.tmpl.toS s
  | .crash s e => return rootJson "crash" e.toS s

def irJson (ir : IR) : Json :=
  Json.mkObj [("gets", jList (ir.gets.map nameJson)), ("sets", jList (ir.sets.map nameJson)),
              ("dels", jList (ir.dels.map nameJson)), ("calls", jList (ir.calls.map callJson))]

def fileJson (outcome exc : String) (s : FileA.FState) : Json :=
  Json.mkObj [("outcome", outcome), ("exc", exc),
              ("keys", jList (s.ir.map fun (k, v) => Json.mkObj [("sym", symJson k), ("ir", irJson v)])),
              ("diags", jList (s.diags.map diagJson)),
              ("symbols", jList ((RootCtx.scopeSyms s.ctx).map symFullJson)),
              ("depth", Json.num s.ctx.length)]

/-- op `analyse_file`: the model's own root context, then the file walk. -/
def handleFile (payload : Json) : R Json := do
  let c ← parseCase payload
  match RootCtx.compile c.facts c.builtins c.body with
  | .ok r =>
    checkFacts c r
    match FileA.analyseWith c.env c.mn c.facts r.ctx c.body with
    | .ok s => return fileJson "ok" "" s
    | .fatal s d => return fileJson "fatal" d.tmpl.toS s
    | .crash s e => return fileJson "crash" e.toS s
  | .fatal _ d => return Json.mkObj [("outcome", "root-fatal"), ("exc", d.tmpl.toS)]
  | .crash _ e => return Json.mkObj [("outcome", "root-crash"), ("exc", e.toS)]

end Rattr.Driver.File

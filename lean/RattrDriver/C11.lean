/- Driver glue for C11: ops `annotation`, `file_decision`, `is_name` (not part of the verified model). -/
import RattrDriver.AstJson
import RattrModel.Annotations
import RattrModel.Spec.Honoured
import RattrModel.Spec.DeclaredSubst
import RattrModel.DeclaredInline
import RattrModel.Regex
import RattrDriver.C04

namespace Rattr.Driver.C11
open Lean Rattr Rattr.Driver Rattr.Ann

partial def asLit (j : Json) : R Lit := do
  let k ← asStr (← field j "k")
  let lits (key : String) : R (List Lit) := do (← asArr (← field j key)).mapM asLit
  match k with
  | "num" => return .num (str (← asStr (← field j "r")))
  | "str" => return .str (str (← asStr (← field j "s")))
  | "bytes" => return .bytes (str (← asStr (← field j "s")))
  | "const" =>
    match (← asStr (← field j "c")) with
    | "None" => return .nameConst .none
    | "True" => return .nameConst .true
    | "False" => return .nameConst .false
    | c => throw s!"bad const {c}"
  | "list" => return .list (← lits "xs")
  | "tuple" => return .tuple (← lits "xs")
  | "set" => return .set (← lits "xs")
  | "dict" =>
    let ks ← lits "ks"
    let vs ← lits "vs"
    if ks.length != vs.length then throw "dict keys/values length mismatch"
    return .dict (ks.zip vs)
  | "dictUnpack" => return .dictUnpack
  | "other" => return .other
  | _ => throw s!"unknown literal kind {k}"

def asKws (j : Json) : R (List (Option Str × Lit)) := do
  (← asArr j).mapM fun p => do
    match (← asArr p) with
    | [k, v] => return ((← asOptStr k).map str, (← asLit v))
    | _ => throw "expected [name|null, literal]"

def fatalStr : Fatal → String
  | .unableToEvaluate => "unable-to-evaluate"
  | .likelyMissingComma => "likely-missing-comma"
  | .positionalArgs => "positional-args"
  | .unexpectedKeywords => "unexpected-keywords"
  | .expectsSetOfNames k => s!"expects-set-of-names:{k.toS}"
  | .expectsCallSpecs => "expects-call-specs"
  | .duplicatedAnnotation => "duplicated-annotation"

def crashStr : Crash → String
  | .unhashable => "TypeError:unhashable"
  | .noItemsAttr => "AttributeError:items"
  | .decoratorShape => "TypeError:decorator"
  | .buildRaised => "build-raised"

def nameJson (n : NameS) : Json := Json.arr #[Json.str n.full.toS, Json.str n.base.toS]

def callJson (target : Str → Json) (c : DeclCall) : Json :=
  Json.mkObj [("name", c.name.toS), ("args", jStrList (c.args.map Str.toS)),
              ("kwargs", jPairList (c.kwargs.map (fun (a, b) => (a.toS, b.toS)))),
              ("target", target c.name)]

def irJson (target : Str → Json) (ir : DeclaredIr) : Json :=
  Json.mkObj [("gets", jList (ir.gets.map nameJson)), ("sets", jList (ir.sets.map nameJson)),
              ("dels", jList (ir.dels.map nameJson)), ("calls", jList (ir.calls.map (callJson target)))]

def outcomeJson (target : Str → Json) : Outcome DeclaredIr → Json
  | .ok ir => Json.mkObj [("outcome", "ok"), ("detail", ""), ("ir", irJson target ir)]
  | .fatal f => Json.mkObj [("outcome", "fatal"), ("detail", fatalStr f)]
  | .crash c => Json.mkObj [("outcome", "crash"), ("detail", crashStr c)]

/-- the call-target resolver `context.get_call_target(name, culprit=fn_def)` on the root context
snapshot, when the payload carries one -/
def targetFn (payload : Json) : R (Str → Json) := do
  match payload.getObjVal? "root" with
  | .error _ => return fun _ => Json.null
  | .ok rootJ =>
    let envJ ← field payload "env"
    let env : Context.Env := { prims := (← asStrL (← field envJ "prims")),
                               literals := (← asStrL (← field envJ "literals")) }
    let rootSyms ← (← asArr rootJ).mapM asSym
    let root : Context := [rootSyms.map (fun s => (s.name, s))]
    return fun n =>
      match (Context.getCallTarget env root n false true).1 with
      | none => Json.null
      | some t =>
        let kind := match t.kind with
          | .name => "Name" | .builtin => "Builtin" | .import_ => "Import" | .func => "Func" | .cls => "Class"
        Json.mkObj [("kind", kind), ("name", t.name.toS)]

/-- op `annotation`: decorator arguments → model outcome + declared IR + the spec's verdicts. -/
def handleAnnotation (payload : Json) : R Json := do
  let pos ← (← asArr (← field payload "pos")).mapM asLit
  let kws ← asKws (← field payload "kws")
  let tf ← targetFn payload
  let out := parseResults pos kws
  let noTarget : Str → Json := fun _ => Json.null
  let spec : Json :=
    let ev := Spec.Honoured.evaluableL pos && Spec.Honoured.kwsEvaluable kws
    let hc := Spec.Honoured.hashClosedL pos && Spec.Honoured.kwsHashClosed kws
    match evalArgs pos kws with
    | .ok (pv, kv) =>
      Json.mkObj [("evaluable", ev), ("hashClosed", hc), ("evaluated", true),
                  ("wellFormed", Spec.Honoured.WellFormed pv kv),
                  ("noCrashShape", Spec.Honoured.NoCrashShape kv),
                  ("declared", irJson noTarget (Spec.Honoured.declared kv))]
    | _ => Json.mkObj [("evaluable", ev), ("hashClosed", hc), ("evaluated", false)]
  return Json.mkObj [("model", outcomeJson tf out), ("spec", spec)]

def asDeco (j : Json) : R Deco := do
  let head ← match (← asOptStr (← field j "head")) with
    | none => pure DecoHead.bad
    | some n => pure (DecoHead.named (str n))
  let call ← match fieldD j "call" Json.null with
    | .null => pure none
    | c => do pure (some ((← (← asArr (← field c "pos")).mapM asLit), (← asKws (← field c "kws"))))
  return { head := head, call := call }

def asBools (j : Json) : R (List Bool) := do (← asArr j).mapM asBool

/-- op `file_decision`: one callable of a file → skip | declared | analyse (or fatal / crash). -/
def handleDecision (payload : Json) : R Json := do
  let decos ← (← asArr (← field payload "decos")).mapM asDeco
  let verdicts ← asBools (← field payload "verdicts")
  let kind : CKind ← match (← asStr (← field payload "kind")) with
    | "func" => pure CKind.func
    | "cls" => pure CKind.cls
    | "lam" => pure CKind.lam
    | "static" => do
      let cd ← (← asArr (← field payload "cls_decos")).mapM asDeco
      let cv ← asBools (← field payload "cls_verdicts")
      pure (CKind.static cd cv)
    | k => throw s!"bad callable kind {k}"
  let c : Callable := { name := str (← asStr (← field payload "name")), kind := kind, decos := decos,
                        verdicts := verdicts }
  let noTarget : Str → Json := fun _ => Json.null
  let m : Json := match decisionOf c with
    | .ok .skip => Json.mkObj [("outcome", "ok"), ("decision", "skip")]
    | .ok .analyse => Json.mkObj [("outcome", "ok"), ("decision", "analyse")]
    | .ok (.declared ir) => Json.mkObj [("outcome", "ok"), ("decision", "declared"), ("ir", irJson noTarget ir)]
    | .fatal f => Json.mkObj [("outcome", "fatal"), ("detail", fatalStr f)]
    | .crash k => Json.mkObj [("outcome", "crash"), ("detail", crashStr k)]
  return Json.mkObj [("model", m),
    ("spec", Json.mkObj [("expectedEntry", Spec.Honoured.expectedEntry decos verdicts),
                         ("allNamed", Spec.Honoured.allNamed decos)])]

def setsJson (u : IrSets) : Json :=
  Json.mkObj [("gets", jList (u.gets.map nameJson)), ("sets", jList (u.sets.map nameJson)),
              ("dels", jList (u.dels.map nameJson))]

/-- op `declared_unbind`: decorator arguments + the callee's signature + one call → what the caller inlines
(model: `parseResults` ; `Swaps.construct` ; `Results.unbindIr`) and the spec's simultaneous substitution. -/
def handleDeclaredUnbind (payload : Json) : R Json := do
  let pos ← (← asArr (← field payload "pos")).mapM asLit
  let kws ← asKws (← field payload "kws")
  let sig ← C04.parseSig (← field payload "sig")
  let call ← C04.parseCall (← field payload "call")
  let callS : CallArgs Str := { args := call.args.map str, kwargs := call.kwargs.map fun (a, b) => (str a, str b) }
  let si : StandIns Str := { tuple := str "@Tuple", dict := str "@Dict" }
  let iface := C04.ifaceStr sig.iface
  let sw := (Swaps.construct si iface callS).1
  let swJ := jPairList (sw.map fun (a, b) => (a.toS, b.toS))
  let noTarget : Str → Json := fun _ => Json.null
  match parseResults pos kws with
  | .ok ir =>
    let (u, ds) := inlineDeclared si iface callS ir
    let spec : Json := match evalArgs pos kws with
      | .ok (pv, kv) =>
        Json.mkObj [("wellFormed", Spec.Honoured.WellFormed pv kv),
                    ("subst", setsJson (Spec.Honoured.substDeclared sw kv))]
      | _ => Json.null
    let m := match u with
      | none => Json.mkObj [("outcome", "never")]
      | some u => Json.mkObj [("outcome", "ok"), ("ir", setsJson u)]
    return Json.mkObj [("parse", "ok"), ("declared", irJson noTarget ir), ("swaps", swJ), ("diags", ds.length),
                       ("model", m), ("spec", spec)]
  | .fatal f => return Json.mkObj [("parse", "fatal"), ("detail", fatalStr f)]
  | .crash c => return Json.mkObj [("parse", "crash"), ("detail", crashStr c)]

/-- op `is_name`: the automaton and the spec's identifier predicate on one string. -/
def handleIsName (payload : Json) : R Json := do
  let s := str (← asStr (← field payload "s"))
  return Json.mkObj [("model", isName s), ("spec", Spec.Honoured.isIdent s),
                     ("base", (asName s).base.toS), ("specBase", (Spec.Honoured.specBase s).toS)]

/-! op `re_match`: exclusion patterns (AST of the regular fragment) × names → `fullmatch` / `match` / `search`
verdicts of the model (`RattrModel/Regex.lean`) and `is_excluded_name`. -/

def asChar (j : Json) : R Char := do
  match (← asStr j).toList with
  | [c] => return c
  | _ => throw "expected a one-character string"

partial def asCC (j : Json) : R Regex.CC := do
  match (← asStr (← field j "k")) with
  | "lit" => return .lit (← asChar (← field j "c"))
  | "any" => return .any
  | "word" => return .word
  | "digit" => return .digit
  | "range" => return .range (← asChar (← field j "lo")) (← asChar (← field j "hi"))
  | "union" => return .union (← asCC (← field j "a")) (← asCC (← field j "b"))
  | "neg" => return .neg (← asCC (← field j "a"))
  | k => throw s!"unknown class kind {k}"

partial def asRe (j : Json) : R Regex.Re := do
  match (← asStr (← field j "k")) with
  | "eps" => return .eps
  | "cls" => return .cls (← asCC (← field j "c"))
  | "cat" => return .cat (← asRe (← field j "a")) (← asRe (← field j "b"))
  | "alt" => return .alt (← asRe (← field j "a")) (← asRe (← field j "b"))
  | "star" => return .star (← asRe (← field j "a"))
  | "plus" => return Regex.Re.plus (← asRe (← field j "a"))
  | "opt" => return Regex.Re.opt (← asRe (← field j "a"))
  | k => throw s!"unknown pattern kind {k}"

def handleReMatch (payload : Json) : R Json := do
  let pats ← (← asArr (← field payload "pats")).mapM asRe
  let names ← asStrList (← field payload "names")
  let bl (l : List Bool) : Json := jList (l.map Json.bool)
  let rows := names.map fun n =>
    let s := str n
    Json.mkObj [("full", bl (Regex.verdicts pats s)),
                ("prefix", bl (pats.map (Regex.prefixmatch · s))),
                ("search", bl (pats.map (Regex.searchmatch · s))),
                ("excluded", Json.bool (Regex.isExcludedName pats s)),
                ("decision", match fileDecision [] (Regex.verdicts pats s) with
                  | .ok .skip => "skip" | .ok .analyse => "analyse" | _ => "other")]
  return Json.mkObj [("rows", jList rows)]

end Rattr.Driver.C11

import RattrDriver.Visit
import RattrModel.Callable

/-! op `analyse_callable`: the whole definition node (signature included) as `FunctionAnalyser`
receives it. Payload = that of `analyse_fn` + `"sig"`: the signature expressions, by part. -/
namespace Rattr.Driver.Callable
open Lean Rattr Rattr.Driver Rattr.FnA Rattr.Driver.Visit

def asSig (j : Json) : R Sig := do
  let nodes (key : String) : R (List Node) := do (← asArr (← field j key)).mapM asNode
  return { decorators := (← nodes "decorators"), defaults := (← nodes "defaults"),
           kwDefaults := (← nodes "kw_defaults"), annotations := (← nodes "annotations"),
           returns := (← nodes "returns"), typeParams := (← nodes "type_params") }

def handle (payload : Json) : R Json := do
  let env ← parseEnv (← field payload "env")
  let rootSyms ← (← asArr (← field payload "root")).mapM asSym
  let root : Context := [rootSyms.map (fun s => (s.name, s))]
  let mn := str (← asStr (← field payload "module"))
  let ps ← asParams (← field payload "params")
  let body ← (← asArr (← field payload "body")).mapM asNode
  let sig ← asSig (← field payload "sig")
  let c : Callable := { sig := sig, ps := ps, body := body }
  let out := match Callable.analyse env mn root c with
    | .ok s => stJson "ok" "" s
    | .fatal s d => stJson "fatal" d.tmpl.toS s
    | .crash s e => stJson "crash" e.toS s
  return out.setObjVal! "sig_exprs" (Json.num c.sig.exprs.length)

end Rattr.Driver.Callable

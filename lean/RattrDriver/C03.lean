import RattrDriver.JsonUtil
import RattrModel.Results
import RattrModel.Spec.Unroll
import RattrDriver.C04

namespace Rattr.Driver.C03
open Lean Rattr Rattr.Driver Rattr.Results

def parseIface (j : Json) : R (Iface String) := do
  return { posonly := (← asStrList (← field j "posonly")), args := (← asStrList (← field j "args")),
           vararg := (← asOptStr (← field j "vararg")), kwonly := (← asStrList (← field j "kwonly")),
           kwarg := (← asOptStr (← field j "kwarg")) }

def ifaceStr (i : Iface String) : Iface Str :=
  { posonly := i.posonly.map str, args := i.args.map str, vararg := i.vararg.map str,
    kwonly := i.kwonly.map str, kwarg := i.kwarg.map str }

def parseNames (j : Json) : R (List NameS) := do
  (← asArr j).mapM fun p => do
    let (a, b) ← asPair p
    return { full := str a, base := str b }

def parseCall (j : Json) : R CallRec := do
  return { cid := (← asNat (← field j "cid")), name := str (← asStr (← field j "name")),
           args := { args := (← asStrList (← field j "args")).map str,
                     kwargs := (← asPairList (← field j "kwargs")).map (fun (a, b) => (str a, str b)) } }

def namesJson (l : List NameS) : Json :=
  jList (l.map (fun n => Json.arr #[Json.str n.full.toS, Json.str n.base.toS]))

def irJson (k : Key) (ir : IrSets) : Json :=
  Json.mkObj [("key", Json.num k), ("gets", namesJson ir.gets), ("sets", namesJson ir.sets),
              ("dels", namesJson ir.dels)]

/-- op `results`: run `generate` `rounds` times over one store. -/
def handle (payload : Json) : R Json := do
  let fnsJ ← asArr (← field payload "fns")
  let mut fns : List FnInfo := []
  let mut store0 : List IrSets := []
  for f in fnsJ do
    let iface := ifaceStr (← parseIface (← field f "iface"))
    let calls ← (← asArr (← field f "calls")).mapM parseCall
    fns := fns ++ [{ iface := iface, calls := calls }]
    store0 := store0 ++ [⟨← parseNames (← field f "gets"), ← parseNames (← field f "sets"),
                          ← parseNames (← field f "dels")⟩]
  let resTab ← (← asArr (← field payload "resolve")).mapM fun p => do
    match (← asArr p) with
    | [c, k] => return ((← asNat c), (match k with | .null => none | _ => k.getNat?.toOption))
    | _ => throw "bad resolve entry"
  let order ← (← asArr (← field payload "order")).mapM asNat
  let rounds ← asNat (fieldD payload "rounds" (Json.num 1))
  let P : Prog := { fns := fns, resolve := fun c => (resTab.lookup c).join }
  let n := fns.length
  let mut σ : Store := fun k => (store0[k]?).getD IrSets.empty
  let mut outs : List Json := []
  for _ in [0:rounds] do
    match generate P order σ with
    | .outOfFuel => return Json.mkObj [("outcome", "outOfFuel")]
    | .never => return Json.mkObj [("outcome", "never")]
    | .ok (rs, σ') =>
      σ := σ'
      outs := outs ++ [Json.mkObj [
        ("results", jList (rs.map (fun (k, ir) => irJson k ir))),
        ("store", jList ((List.range n).map (fun k => irJson k (σ' k))))]]
  return Json.mkObj [("outcome", "ok"), ("rounds", jList outs)]

/-! op `c03_spec` (round 3): the Lean SPEC of C03 on a snapshot — `Spec.derive` to a given depth and
`Spec.unrollRoot` (one unrolling of every cycle) for every function — so that the harness can hold its
own closure oracle (`resultslib.Closure.derive`, `resultslib.unroll_once`) against the definitions the
theorems are about. -/

def sigStr (s : Spec.Sig String) : Spec.Sig Str :=
  let ps (l : List (Spec.Param String)) : List (Spec.Param Str) := l.map fun p => ⟨str p.name, p.hasDefault⟩
  { posonly := ps s.posonly, args := ps s.args, vararg := s.vararg.map str, kwonly := ps s.kwonly,
    kwarg := s.kwarg.map str }

def accJson (k : Key) (a : Spec.Acc) : Json :=
  Json.mkObj [("key", Json.num k), ("gets", jStrList (a.gets.map (·.toS))), ("sets", jStrList (a.sets.map (·.toS))),
              ("dels", jStrList (a.dels.map (·.toS)))]

def handleSpec (payload : Json) : R Json := do
  let fnsJ ← asArr (← field payload "fns")
  let mut fns : List FnInfo := []
  let mut store0 : List IrSets := []
  for f in fnsJ do
    let iface := ifaceStr (← parseIface (← field f "iface"))
    let calls ← (← asArr (← field f "calls")).mapM parseCall
    fns := fns ++ [{ iface := iface, calls := calls }]
    store0 := store0 ++ [⟨← parseNames (← field f "gets"), ← parseNames (← field f "sets"),
                          ← parseNames (← field f "dels")⟩]
  let resTab ← (← asArr (← field payload "resolve")).mapM fun p => do
    match (← asArr p) with
    | [c, k] => return ((← asNat c), (match k with | .null => none | _ => k.getNat?.toOption))
    | _ => throw "bad resolve entry"
  let sigs ← (← asArr (← field payload "sigs")).mapM fun j => do return sigStr (← C04.parseSig j)
  let depth ← asNat (← field payload "depth")
  let P : Prog := { fns := fns, resolve := fun c => (resTab.lookup c).join }
  let S : Spec.SProg := { prog := P, sigs := sigs, own := fun k => (store0[k]?).getD IrSets.empty }
  let keys := List.range fns.length
  return Json.mkObj [
    ("derive", jList (keys.map fun k => accJson k (Spec.derive S depth k))),
    ("unroll", jList (keys.map fun k => accJson k (Spec.unrollRoot S k)))]

end Rattr.Driver.C03

import RattrDriver.AstJson
import RattrModel.Crash

namespace Rattr.Driver.C07
open Lean Rattr Rattr.Driver

/-- op `no_crash_shape`: function body → the Lean predicate `Crash.NoCrashShapeFn`. -/
def handle (payload : Json) : R Json := do
  let body ← (← asArr (← field payload "body")).mapM asNode
  return Json.mkObj [("ok", Json.bool (Crash.NoCrashShapeFn body))]

end Rattr.Driver.C07

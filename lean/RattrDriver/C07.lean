import RattrDriver.AstJson
import RattrModel.Crash

namespace Rattr.Driver.C07
open Lean Rattr Rattr.Driver Rattr.Crash Rattr.FnA

/-- which local condition of `Crash.okN` fails where (reporting aid: the labels name the conjuncts and
the crash row each stands for; not part of the verified model). -/
partial def why (k : Bool) : Node → List String
  | .name _ _ => []
  | .attr v a c => nameLike (.attr v a c) v
  | .sub v sl c => nameLike (.sub v sl c) v
  | .starred v c => nameLike (.starred v c) v
  | .call f args kwn kwv =>
    let node := Node.call f args kwn kwv
    (if nameOk true f && nameOk true node then [] else ["K5:call-name"]) ++
    (if !xattrSpelled (calleeName node) then []
     else if k then ["K22:getattr-family-call-in-key-lambda"]
     else if xattrOldOk (calleeName node) args then [] else ["K5:getattr-family-object"]) ++
    (if factoryOk args then [] else ["defaultdict-factory"]) ++
    (if args.all (oldOk true) && kwv.all (oldOk true) then [] else ["K5:argument-spelling"]) ++
    (if starsOk k node then [] else ["K22:stars"]) ++
    args.flatMap (why k) ++ kwv.flatMap (why k) ++ whyKeys kwn kwv
  | .lam _ body => why k body
  | .comp _ elts gens => gens.flatMap (why k) ++ elts.flatMap (why k)
  | .gen t iter ifs => (if unravelOk t then [] else ["K4:comprehension-target"]) ++ why k t ++ why k iter ++ ifs.flatMap (why k)
  | .walrus t v =>
    (if nameOk false t then [] else ["K4:walrus-target"]) ++ (if !k || isNameNode t then [] else ["K22:walrus-target"]) ++
    whyAssign k [t] v ++ why k t ++ why k v
  | .strConst _ => []
  | .const => []
  | .seq _ elts _ => elts.flatMap (why k)
  | .dict keys vals => keys.flatMap (why k) ++ vals.flatMap (why k)
  | .assign targets v => stmt k ++ whyAssign false targets v ++ targets.flatMap (why false) ++ why false v
  | .annAssign t ann [] => stmt k ++ (if unravelOk t then [] else ["K4:store-target"]) ++ why false t ++ why false ann
  | .annAssign t ann (v0 :: _) => stmt k ++ whyAssign false [t] v0 ++ why false t ++ why false ann ++ why false v0
  | .augAssign t v => stmt k ++ whyAssign false [t] v ++ why false t ++ why false v
  | .delete targets => stmt k ++ (if targets.all unravelFullOk then [] else ["K4:del-target"]) ++ targets.flatMap (why false)
  | .forLoop t iter body orelse =>
    stmt k ++ (if unravelOk t then [] else ["K4:for-target"]) ++ why false t ++ why false iter ++ whyB false body ++ whyB false orelse
  | .withStmt items body => stmt k ++ (if withItemsOk items then [] else ["K4:with-target"]) ++ items.flatMap (why false) ++ whyB false body
  | .withitem ce vars => stmt k ++ why false ce ++ vars.flatMap (why false)
  | .funcDef _ _ body => stmt k ++ whyB false body
  | .classDef _ => stmt k
  | .ret [] => stmt k
  | .ret (v0 :: _) => stmt k ++ (if okRet' v0 then [] else ["K4:returned-class-call"]) ++ why false v0
  | .forbidden _ => []
  | .other _ kids => whyB k kids
where
  nameLike (n v : Node) : List String :=
    (if nameOk true n then [] else ["K5:name"]) ++ (if starsOk k n then [] else ["K22:stars"]) ++
    (if v.isNameable then [] else why k v)
  stmt (k : Bool) : List String := if k then ["K22:statement-in-key-lambda"] else []
  whyB (k : Bool) : List Node → List String
    | [] => []
    | n :: r => why k n ++ (if stops n then [] else whyB k r)
  whyKeys : List (Option Str) → List Node → List String
    | some kw :: rn, v :: rv =>
      if kw = "key".toList then
        (match v with
         | .lam ps body =>
           (if ps.args.length == 1 then [] else ["K3:key-lambda-arity"]) ++
           (if cleanId ((ps.args.head?).getD []) then [] else ["K22:key-lambda-parameter"]) ++ why true body
         | _ => [])
      else whyKeys rn rv
    | none :: rn, _ :: rv => whyKeys rn rv
    | _, _ => []
  whyAssign (k : Bool) (targets : List Node) (value : Node) : List String :=
    (if firstTargetOk' k targets value then [] else ["K4:assign-first-target"]) ++
    (if classProbeOk value then [] else ["K5:assign-class-probe"]) ++
    (if targets.all unravelOk then [] else ["K4:store-target"]) ++
    (match value with
     | .call f a kn kv =>
       if !oneToOne targets value || oldLiteral value || nameOk false (.call f a kn kv) then [] else ["K4:assigned-class-call"]
     | _ => [])

def whyBody (body : List Node) : List String :=
  let rec go : List Node → List String
    | [] => []
    | n :: r => why false n ++ (if stops n then [] else go r)
  (go body).eraseDups

/-- op `no_crash_shape`: function body (+ optionally the root context's symbols) → the Lean predicates
`Crash.NoCrashShapeFn` (`ok`), the round-1 predicate `NoCrashShapeFnAnyCtx` (`ok_anyctx`), `SaneCtx root`
(`sane`), and the failing clauses of the former (`rows`). -/
def handle (payload : Json) : R Json := do
  let body ← (← asArr (← field payload "body")).mapM asNode
  let sane ← match payload.getObjVal? "root" with
    | .ok r => do
      let syms ← (← asArr r).mapM asSym
      pure (Crash.SaneCtx [syms.map (fun s => (s.name, s))])
    | .error _ => pure true
  return Json.mkObj [("ok", Json.bool (Crash.NoCrashShapeFn body)),
                     ("ok_anyctx", Json.bool (Crash.NoCrashShapeFnAnyCtx body)),
                     ("sane", Json.bool sane),
                     ("rows", jStrList (whyBody body))]

end Rattr.Driver.C07

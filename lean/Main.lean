/- Line-protocol driver: one JSON request per line on stdin, one JSON response per line on stdout. -/
import RattrDriver
open Lean Rattr.Driver

def dispatch (op : String) (payload : Json) : R Json :=
  match op with
  | "echo" => .ok payload
  | "swaps" => C04.handle payload
  | "unbind" => C04.handleUnbind payload
  | "results" => C03.handle payload
  | "c03_spec" => C03.handleSpec payload
  | "analyse_fn" => Visit.handle payload
  | "analyse_callable" => Callable.handle payload
  | "cli_merge" => C20.handle payload
  | "names" => C10.handle payload
  | "naming_sites" => C10.handleSites payload
  | "arg_spell" => C09.handle payload
  | "analyse_fns" => C09.handleFns payload
  | "locator" => C13.handle payload
  | "import_walk" => C13.handleWalk payload
  | "cache_gate" => C19.handleGate payload
  | "cache_history" => C19.handleHistory payload
  | "cache_deps_history" => C19.Deps.handleHistory payload
  | "cache_x_history" => C19.X.handleHistory payload
  | "cache_argkey" => C19.Deps.handleArgsKey payload
  | "ser" => C18.handleSer payload
  | "structure" => C18.handleStructure payload
  | "ir_document" => C18.handleIrDocument payload
  | "imports" => C12.handle payload
  | "diag_run" => C15.handle payload
  | "diag_render" => C15.handleRender payload
  | "diag_scoped" => C15.handleScoped payload
  | "diag_scopes" => C15.handleScopes payload
  | "diag_resolve" => C15.handleResolve payload
  | "diag_walk" => C15.handleWalk payload
  | "c16_tables" => C16.handleTables payload
  | "c16_main" => C16.handleMain payload
  | "c16_out" => C16.handleOut payload
  | "c16_cache" => C16.handleCache payload
  | "resolve_import" => C06.handle payload
  | "import_symbols" => C06.handleSymbols payload
  | "import_spec" => C06.handleSpec payload
  | "blacklist" => C06.handleBlacklist payload
  | "regex" => C06.handleRegex payload
  | "resolve_local" => C06.handleLocal payload
  | "star_expand" => C06.handleStarExpand payload
  | "annotation" => C11.handleAnnotation payload
  | "file_decision" => C11.handleDecision payload
  | "is_name" => C11.handleIsName payload
  | "declared_unbind" => C11.handleDeclaredUnbind payload
  | "re_match" => C11.handleReMatch payload
  | "no_crash_shape" => C07.handle payload
  | "no_crash_shape_file" => C07File.handle payload
  | "no_crash_shape_pipeline" => C07File.handlePipeline payload
  | "c07_run" => C07Stats.handle payload
  | "c07_out_encode" => C07Out.handle payload
  | "root_context" => File.handleRoot payload
  | "analyse_file" => File.handleFile payload
  | "pipeline" => Pipeline.handle payload
  | "cross_resolve" => C08.handle payload
  | "results_project" => C14.handle payload
  | "results_located" => C14.handleLocated payload
  | "pipeline2" => Pipeline2.handle payload
  | "project" => Project.handle payload
  | "star_root" => C01.handleRoot payload
  | "star_file" => C01.handleFile payload
  | "c05_reexport" => C05.handleReexport payload
  | "c05_first_dir" => C05.handleFirstDir payload
  | _ => .error s!"unknown op {op}"

partial def loop (h : IO.FS.Stream) (out : IO.FS.Stream) : IO Unit := do
  let line ← h.getLine
  if line.isEmpty then return ()
  let resp : Json :=
    match Json.parse line with
    | .error e => Json.mkObj [("error", Json.str s!"parse: {e}")]
    | .ok j =>
      let id := fieldD j "id" Json.null
      match j.getObjVal? "op" with
      | .ok (.str op) =>
        match dispatch op (fieldD j "payload" Json.null) with
        | .ok o => Json.mkObj [("id", id), ("out", o)]
        | .error e => Json.mkObj [("id", id), ("error", Json.str e)]
      | _ => Json.mkObj [("id", id), ("error", Json.str "no op")]
  out.putStrLn resp.compress
  loop h out

def main : IO Unit := do
  let stdin ← IO.getStdin
  let stdout ← IO.getStdout
  loop stdin stdout
  stdout.flush

/-
  RattrModel.Pipeline2 — ONE executable model of the MULTI-file pipeline
  (`python -m rattr -o results --follow-imports 1 target.py`, local modules followed):

      rattr/__main__.py::main
        parse_and_analyse_file                      rattr/analyser/file.py
          enter_file(target)
            compile_root_context(ast)                 → `RootCtx.compile`            (RootContext.lean)
            .expand_starred_imports()                 → `expandLoop`                 (this file)
            parse_and_analyse_imports(imports)        → `importLoop`                 (this file)
              per import, under enter_file(origin):
                compile_root_context(ast).expand_starred_imports() ; FileAnalyser(..).analyse()
            FileAnalyser(ast, ctx).analyse()          → `FileA.analyseWith`          (FileAnalyser.lean)
        generate_results_from_ir(target_ir, import_irs)
          find_call_target_and_ir                     → `resolveCall2` / `resolveDiags2`   (this file)
            resolve_function / resolve_class_init     → `resolveSym` (`__resolve_target_and_ir`,
                                                        `__is_defined_in`), `realClass2`
                                                        (`__resolve_real_class_target`): the CURRENT
                                                        code, after 2103117 / 8b74e12
            resolve_import                            → `resolveImp` (ladder, local-name derivation,
                                                        lookup in the module's context AFTER its file
                                                        walk, unguarded recursion through re-exports)
          make_target_ir_call_tree                    → `callTree2` (= `Results.bfs`, the resolver
                                                        specialised to the FILE of the node that is
                                                        being expanded, see below)
          destructively_simplify_…                    → `Results.foldTree`           (Results.lean, unchanged)
        show_results                                  → `Pipeline.mkDoc`

  Equality classes and the resolver. Python `==` on `Call` / `Func` / `Class` symbols IGNORES
  locations, while the resolution of a `Func` / `Class` target depends on the file the target
  symbol was created in (`symbol.location.defined_in`; that is always the file of the function
  whose `calls` set holds the Call, because `Func` / `Class` symbols only ever enter a context in
  the file that declares them — a name of another module is an `Import` symbol). After fix ab5bdf0
  `seen` is keyed on `(call.symbol, call.symbol.location.defined_in)`: the equality class (`cid`) of
  a call record is (file, Call symbol) — `cidBase fs h + cidOf (callsAt fs h) c`. The resolver takes
  the key of the CALLING node: `resolveAt : Key → cid → Option Key`. `bfs2` is `Results.bfs` with
  `Results.expand` run on `progAt P rs n.key`; `bfs2_eq_bfs` / `genLoop2_eq_genLoop_coh`
  (Lemmas/Pipeline2.lean): it is the single-resolver traversal whenever the resolver is coherent —
  in particular in the single-file case.

  ONE shared store over the concatenation of ALL FileIrs (target first, then `import_irs` in dict
  order): the sets of a followed module's functions are mutated too, and read by later roots.

  Per-case parameters (file-system facts, computed by the real locator functions; C12 / C13 model
  those):
    * `Project.mods`    : per dotted name `is_in_import_blacklist`, `Import(..).origin is not None`,
                          `module_exists` (as in the single-file stages);
    * `Project.quals`   : per qualified name of an Import symbol: `Import.module_name`, `spec.origin`,
                          whether the origin is Python source, the ladder verdicts of the module;
    * `SrcFile`         : a file by its origin: `derive_module_name_from_path(origin)`, is it an
                          `__init__.py`, its module body (relative imports carry their resolved
                          absolute name, as in `Top.importFrom`);
    * `Project.excluded`: names an `--exclude` pattern fullmatches.
  A fact the model needs and was not given is an explicit outcome `crash "Need…:<what>"` (the
  harness computes it and runs again; never a silent default).

  Fragment notes:
    * a starred import whose module has no origin / no Python source is outside
      (`crash "Outside:star-…"`; C07's corpus covers `from math import *`);
    * follow level 1: `follow_local_imports` is true, pip / stdlib modules are not followed;
    * FileIrs are told apart by their position in `(target_ir, *import_irs.values())` (each has its own
      entries in the store), the code tells FILES apart by path (`location.defined_in`): a followed
      module whose origin is spelled exactly like the target's path (an absolute target path met again
      through an import cycle) is a second FileIr of the SAME file — `sameFile` / `canonH`: one
      equality class per (path, Call symbol), `__is_defined_in` / `__resolve_real_class_target` by
      path (`originAt`). Two FileIrs of one path that differ (`pathsConsistent` false) are outside
      (`crash "Outside:one-path-analysed-differently"`);
    * ties of equal-named Call symbols inside one function come in hash order, as in `Pipeline`.
-/
import RattrModel.Pipeline
import RattrModel.Resolve

namespace Rattr
open Rattr.Strs Rattr.FnA Rattr.RootCtx

namespace Pipeline2
open Rattr.Pipeline (FileIr Found ResultsDoc DiagCtx)
open Rattr.FileA (Outcome FState FOut)

/-- what the locator says about the qualified name of an `Import` symbol -/
structure QFact where
  /-- `Import.module_name` = `find_module_name_and_spec(qualified_name)[0]` -/
  module : Option Str := none
  /-- `spec.origin` of that module (a spec exists iff a module name does) -/
  origin : Option Str := none
  /-- `origin.suffix == ".py" and origin.is_file()` -/
  pySource : Bool := true
  /-- `"BuiltinImporter" in str(spec.loader)` -/
  builtinLoader : Bool := false
  /-- `is_in_import_blacklist(module_name)` -/
  blacklisted : Bool := false
  inPip : Bool := false
  inStdlib : Bool := false
  deriving DecidableEq, Repr

/-- a source file, identified by its origin (the path `enter_file` is given) -/
structure SrcFile where
  origin : Str
  /-- `derive_module_name_from_path(origin)` -/
  derived : Option Str := none
  isInit : Bool := false
  body : List Top := []

structure Project where
  env : Env
  builtins : List Str
  mods : List (Str × ModFact) := []
  excluded : List Str := []
  quals : Dict Str QFact := []
  target : SrcFile
  /-- the files an import may lead to, by origin -/
  files : List SrcFile := []

def factsOf (P : Project) (f : SrcFile) : Facts := { mods := P.mods, isInit := f.isInit, excluded := P.excluded }

def mnOf (f : SrcFile) : Str := f.derived.getD []

def need (tag : String) (x : Str) : Str := tag.toList ++ ':' :: x

def findFile (P : Project) (o : Str) : Option SrcFile := P.files.find? fun f => f.origin == o

/-! ### `Context.expand_starred_imports` -/

/-- `isinstance(s, Import) and s.name == "*"` (a starred import is stored under `<qualified>.*`) -/
def isStar (s : Sym) : Bool := s.kind == .import_ && s.name.getLast? == some '*'

def starredOf (c : Context) : List Sym := (scopeSyms c).filter isStar

/-- `[s for s in context.symbol_table.symbols if isinstance(s, Import)]` -/
def importsOf (c : Context) : List Sym := (scopeSyms c).filter fun s => s.kind == .import_

/-- `symbol.name` as Python has it -/
def pyName (s : Sym) : Str := if isStar s then ['*'] else s.name

/-- `Import.origin` -/
def originOf (P : Project) (s : Sym) : Option Str := (Dict.get? P.quals s.qual).bind (·.origin)

/-- `get_starred_imports(seen_by_origin=seen)` -/
def unseenStars (P : Project) (seen : List Str) (c : Context) : List Sym :=
  (starredOf c).filter fun y => match originOf P y with
    | none => true
    | some o => !seen.contains o

/-- `self.add(Import(name=symbol.name, qualified_name=f"{starred.qualified_name}.{symbol.name}",
interface=symbol.interface or AnyCallInterface()))` — built directly, not by `make_import_symbol`. -/
def addStarSym (P : Project) (q : Str) (c : Context) (y : Sym) : Context :=
  let n := pyName y
  let qual := q ++ '.' :: n
  let sym : Sym := { kind := .import_, name := if n = ['*'] then qual ++ ".*".toList else n, callable := true,
                     iface := y.iface, qual := qual, modExists := (Dict.get? P.mods qual).getD {} |>.modExists }
  if n = ['*'] then setSym c sym else Context.add c sym

inductive StarNext where
  | done
  | crash (e : Str)
  | go (st : Sym) (o : Str) (f : SrcFile) (rest : List Sym)

/-- skip the queue entries whose origin was seen; stop at the first one to expand. -/
def starNext (P : Project) (seen : List Str) : List Sym → StarNext
  | [] => .done
  | st :: q =>
    match Dict.get? P.quals st.qual with
    | none => .crash (need "NeedQual" st.qual)
    | some qf =>
      match qf.origin with
      | none => .crash "Outside:star-origin-none".toList
      | some o =>
        if seen.contains o then starNext P seen q
        else if !qf.pySource then .crash "Outside:star-no-source".toList
        else match findFile P o with
          | none => .crash (need "NeedFile" o)
          | some f => .go st o f q

/-- the BFS of `expand_starred_imports`; one unit of fuel per module that is parsed (each has a
new origin, so `P.files.length + 1` suffices). -/
def expandLoop (P : Project) : Nat → List Sym → List Str → St → Res
  | 0, _, _, s => .crash s "OutOfFuel".toList
  | fuel + 1, queue, seen, s =>
    match starNext P seen queue with
    | .done => .ok s
    | .crash e => .crash s e
    | .go st o f rest =>
      match RootCtx.compile (factsOf P f) P.builtins f.body with
      | .fatal r d => .fatal (St.diagL s r.diags) d
      | .crash r e => .crash (St.diagL s r.diags) e
      | .ok r =>
        let seen' := o :: seen
        let s' := { St.diagL s r.diags with ctx := (scopeSyms r.ctx).foldl (addStarSym P st.qual) s.ctx }
        expandLoop P fuel (rest ++ unseenStars P seen' r.ctx) seen' s'

/-- `compile_root_context(ast).expand_starred_imports()` under `enter_file(f.origin)` -/
def rootOf (P : Project) (f : SrcFile) : Res :=
  RootCtx.compile (factsOf P f) P.builtins f.body >>>= fun r =>
    expandLoop P (P.files.length + 1) (unseenStars P [] r.ctx) [] r

/-! ### one analysed file, the import BFS -/

/-- a `FileIr`: the keys with their IRs and `FileIr.context` (the root context as the file walk
left it), plus where it came from. -/
structure AFile where
  /-- key in `import_irs` (empty for the target) -/
  key : Str
  origin : Str
  derived : Option Str
  ctx : Context
  ir : FileIr

/-- root context, star expansion, file walk of one file; the diagnostics of all three. -/
def analyseAt (P : Project) (f : SrcFile) : FOut :=
  match rootOf P f with
  | .fatal r d => .fatal { ctx := r.ctx, diags := r.diags } d
  | .crash r e => .crash { ctx := r.ctx, diags := r.diags } e
  | .ok r =>
    match FileA.analyseWith P.env (mnOf f) (factsOf P f) r.ctx f.body with
    | .ok s => .ok { s with diags := r.diags ++ s.diags }
    | .fatal s d => .fatal { s with diags := r.diags ++ s.diags } d
    | .crash s e => .crash { s with diags := r.diags ++ s.diags } e

inductive ImpNext where
  | done (ds : List Diag)
  | crash (e : Str)
  | go (name o : Str) (f : SrcFile) (rest : List Sym) (ds : List Diag)

/-- the `continue` rungs of `parse_and_analyse_imports`, up to the first import that is analysed. -/
def impNext (P : Project) (seen : List Str) : List Sym → List Diag → ImpNext
  | [], ds => .done ds
  | i :: q, ds =>
    match Dict.get? P.quals i.qual with
    | none => .crash (need "NeedQual" i.qual)
    | some qf =>
      match qf.module with
      | none => impNext P seen q (ds ++ [mkDiag .error "import-unresolved" i.qual])
      | some name =>
        match qf.origin with
        | none =>
          impNext P seen q (ds ++ [if qf.builtinLoader then mkDiag .error "import-builtin" name
                                   else mkDiag .error "import-unresolved" i.qual])
        | some o =>
          if seen.contains o then impNext P seen q ds
          else if qf.blacklisted then impNext P seen q ds
          else if qf.inPip then impNext P seen q ds
          else if qf.inStdlib then impNext P seen q ds
          else match findFile P o with
            | none => .crash (need "NeedFile" o)
            | some f => .go name o f q ds

/-- `import_irs[name] = import_ir` -/
def setIr : List AFile → AFile → List AFile
  | [], a => [a]
  | b :: r, a => if b.key = a.key then a :: r else b :: setIr r a

/-- `parse_and_analyse_imports`: one unit of fuel per analysed module (each has a new origin). -/
def importLoop (P : Project) : Nat → List Sym → List Str → List AFile → List Diag →
    Outcome (List AFile × List Diag)
  | 0, _, _, _, _ => .crash "OutOfFuel".toList
  | fuel + 1, queue, seen, irs, ds =>
    match impNext P seen queue [] with
    | .done ds' => .ok (irs, ds ++ ds')
    | .crash e => .crash e
    | .go name o f rest ds' =>
      match analyseAt P f with
      | .fatal s d => .fatal (ds ++ ds' ++ s.diags) d
      | .crash _ e => .crash e
      | .ok s =>
        importLoop P fuel (rest ++ importsOf s.ctx) (o :: seen)
          (setIr irs { key := name, origin := o, derived := f.derived, ctx := s.ctx, ir := s.ir })
          (ds ++ ds' ++ s.diags)

/-- `parse_and_analyse_file`: (target FileIr, import_irs in dict order, diagnostics so far). -/
def analyseAll (P : Project) : Outcome (AFile × List AFile × List Diag) :=
  match rootOf P P.target with
  | .fatal r d => .fatal r.diags d
  | .crash _ e => .crash e
  | .ok r =>
    match importLoop P (P.files.length + 1) (importsOf r.ctx) [] [] r.diags with
    | .fatal ds d => .fatal ds d
    | .crash e => .crash e
    | .ok (irs, ds) =>
      match FileA.analyseWith P.env (mnOf P.target) (factsOf P P.target) r.ctx P.target.body with
      | .fatal s d => .fatal (ds ++ s.diags) d
      | .crash _ e => .crash e
      | .ok s =>
        .ok ({ key := [], origin := P.target.origin, derived := P.target.derived, ctx := s.ctx, ir := s.ir },
             irs, ds ++ s.diags)

/-! ### the global key space: target first, then `import_irs` in order -/

/-- the concatenation of all FileIrs; `Key` = position -/
def gfir (fs : List AFile) : FileIr := fs.flatMap (·.ir)

/-- for every global key, the index (in `fs`) of the file it belongs to -/
def homesFrom : Nat → List AFile → List Nat
  | _, [] => []
  | i, f :: r => List.replicate f.ir.length i ++ homesFrom (i + 1) r

def homeOf (fs : List AFile) (k : Key) : Nat := ((homesFrom 0 fs)[k]?).getD 0

def offsetOf (fs : List AFile) (h : Nat) : Nat := ((fs.take h).map (·.ir.length)).sum

/-- `fs[h][symbol]` / `symbol in fs[h]` (symbol equality ignores the location) -/
def keyIn (fs : List AFile) (h : Nat) (s : Sym) : Option Key :=
  match fs[h]? with
  | some f => (Pipeline.keyOf f.ir s).map (· + offsetOf fs h)
  | none => none

/-- `import_irs.get(name)`: index in `fs` (≥ 1) of the import IR with that key -/
def irIdxFrom : Nat → List AFile → Str → Option Nat
  | _, [], _ => none
  | i, f :: r, name => if f.key = name then some i else irIdxFrom (i + 1) r name

def irIdx (fs : List AFile) (name : Str) : Option Nat := irIdxFrom 1 (fs.drop 1) name

def originAt (fs : List AFile) (h : Nat) : Option Str := (fs[h]?).map (·.origin)

/-- `__resolve_target_and_ir` after the class step: a `Func` / `Class` symbol created in file `h`.
`none` = `ImportError` (incl. `ModuleNotFoundError`, a subclass), caught by both callers. -/
def resolveSym (fs : List AFile) (h : Nat) (s : Sym) : Option Key :=
  -- `__is_defined_in(symbol, target_ir)`: an equal key of the target with the same `defined_in`
  let inTarget := if originAt fs h = originAt fs 0 then keyIn fs 0 s else none
  match inTarget with
  | some k => some k
  | none =>
    match (fs[h]?).bind (·.derived) with       -- `derive_module_name_from_path(symbol.location.defined_in)`
    | none => none
    | some m =>
      match irIdx fs m with
      | none => none
      | some i => keyIn fs i s

/-- the `Class` keys with that name of `(target_ir, *import_irs.values())`, in order, with their file -/
def classCandidatesFrom (name : Str) : Nat → List AFile → List (Nat × Sym)
  | _, [] => []
  | i, f :: r =>
    ((f.ir.filter fun p => p.1.kind == .cls && p.1.name == name).map fun p => (i, p.1)) ++
      classCandidatesFrom name (i + 1) r

/-- `__resolve_real_class_target(target)` for a target created in file `h`: the first candidate
defined in that same file, else the target itself (fix bb30ccd: no fallback to another file). -/
def realClass2 (fs : List AFile) (h : Nat) (t : Sym) : Nat × Sym :=
  match (classCandidatesFrom t.name 0 fs).find? fun c => originAt fs c.1 == originAt fs h with
  | some c => c
  | none => (h, t)

/-- `resolve_import(target)`: what it returns / raises and the diagnostics of the last step. Out of
fuel = the unguarded recursion did not end (CPython: `RecursionError`). -/
def resolveImp (P : Project) (fs : List AFile) : Nat → Sym → Found × List Diag
  | 0, _ => (.crash "RecursionError".toList, [])
  | fuel + 1, t =>
    match Dict.get? P.quals t.qual with
    | none => (.crash (need "NeedQual" t.qual), [])
    | some qf =>
      match qf.module with
      | none => (.crash "ImportError".toList, [])                    -- bare `raise ImportError`
      | some mn =>
        if qf.blacklisted then (.nothing, [])
        else if qf.inPip then (.nothing, [mkDiag .info "import-ignored-pip" (Pipeline.pairArg t.name mn)])
        else if qf.inStdlib then (.nothing, [mkDiag .info "import-ignored-stdlib" (Pipeline.pairArg t.name mn)])
        else
          match irIdx fs mn with
          | none => (.crash "ImportError".toList, [])                -- `ImportError("… not found")`
          | some i =>
            let ln := Resolve.localNameOf t.name mn
            let shown := Pipeline.pairArg ln (Pipeline.pairArg mn (if t.name = ln then [] else t.name))
            match (fs[i]?).bind fun f => Context.get? f.ctx ln with
            | some nt =>
              if nt.kind == .func || nt.kind == .cls then
                match keyIn fs i nt with
                | some k => (.target k, [])
                | none => (.nothing, [mkDiag .error "import-likely-ignored" shown])
              else if nt.kind == .import_ then resolveImp P fs fuel nt
              else (.nothing, [mkDiag .error "import-likely-undefined" shown])
            | none =>
              if Pipeline.isMember ln then (.nothing, [mkDiag .info "import-is-method" shown])
              else (.nothing, [mkDiag .error "import-likely-undefined" shown])

/-- enough for every acyclic chain of re-exports: one step per symbol of a followed context. -/
def impFuel (fs : List AFile) : Nat := ((fs.map fun f => (scopeSyms f.ctx).length).sum) + 1

/-- `find_call_target_and_ir(call, environment)` for a call held by a function of file `h`. -/
def resolveCall2 (P : Project) (fs : List AFile) (h : Nat) (c : CallSym) : Found :=
  match c.target with
  | none => .nothing
  | some t =>
    match t.kind with
    | .builtin => .nothing
    | .name => .nothing
    | .func =>
      if P.excluded.contains t.name then .nothing
      else match resolveSym fs h t with
        | some k => .target k
        | none => .nothing
    | .cls =>
      let (h', s) := realClass2 fs h t
      match resolveSym fs h' s with
      | some k => .target k
      | none => .nothing
    | .import_ => (resolveImp P fs (impFuel fs) t).1

/-- the diagnostics `find_call_target_and_ir` emits for that call made from `caller`. -/
def resolveDiags2 (P : Project) (fs : List AFile) (h : Nat) (caller : Str) (c : CallSym) : List Diag :=
  match c.target with
  | none => []
  | some t =>
    match t.kind with
    | .builtin => []
    | .name => []
    | .func =>
      if P.excluded.contains t.name then [mkDiag .error "call-excluded" (Pipeline.pairArg t.name caller)]
      else match resolveSym fs h t with
        | some _ => []
        | none =>
          if Pipeline.isMember c.name then [mkDiag .info "call-unresolved-member" (Pipeline.pairArg t.name caller)]
          else [mkDiag .error "call-unresolved-nested" (Pipeline.pairArg t.name caller)]
    | .cls =>
      let (h', s) := realClass2 fs h t
      match resolveSym fs h' s with
      | some _ => []
      | none => [mkDiag .error "init-unresolved" t.name]
    | .import_ => (resolveImp P fs (impFuel fs) t).2

/-! ### the program of result generation -/

/-! #### equality classes of call records: (file, Call symbol) -/

/-- the distinct Call symbols made in file `h`, in first-occurrence order -/
def callsAt (fs : List AFile) (h : Nat) : List CallSym :=
  match fs[h]? with
  | some f => Pipeline.allCalls f.ir
  | none => []

/-- all equality classes, file by file; `cid` = position -/
def allCalls2 (fs : List AFile) : List CallSym := fs.flatMap fun f => Pipeline.allCalls f.ir

def cidBase (fs : List AFile) (h : Nat) : Nat := ((fs.take h).map fun f => (Pipeline.allCalls f.ir).length).sum

/-- Two analysed files the code cannot tell apart: `symbol.location.defined_in` is the PATH the file
was analysed under (`Config().state.current_file`), so the target given by its ABSOLUTE path and the
same file met again by the import BFS (an import cycle through the target: `spec.origin` is that very
path, and `seen_module_origins` starts empty) are ONE file for `seen` and for `__is_defined_in`,
although they are two FileIrs (two entries of the store). Same path, same derived module name, same
Call symbols. -/
def sameFile (a b : AFile) : Bool :=
  decide (a.origin = b.origin ∧ a.derived = b.derived ∧ Pipeline.allCalls a.ir = Pipeline.allCalls b.ir)

/-- index (counted from `i`) of the first file of the list that cannot be told apart from `f` -/
def firstSame (f : AFile) : Nat → List AFile → Option Nat
  | _, [] => none
  | i, g :: r => if sameFile g f then some i else firstSame f (i + 1) r

/-- the first file (target first, then `import_irs` in order) that file `h` cannot be told apart from -/
def canonH (fs : List AFile) (h : Nat) : Nat :=
  match fs[h]? with
  | none => h
  | some f => (firstSame f 0 fs).getD h

/-- one path, one analysis: two FileIrs with the same origin are `sameFile` (analysis is a function
of the file and of the path it is entered under); a project where this fails is outside the fragment -/
def pathsConsistent (fs : List AFile) : Bool :=
  fs.all fun a => fs.all fun b => a.origin != b.origin || sameFile a b

/-- the call record of Call symbol `c` held by a function of file `h`: its equality class is
(path of the file, Call symbol) — numbered in the FIRST file with that path -/
def callRec2 (fs : List AFile) (h : Nat) (c : CallSym) : CallRec :=
  { cid := cidBase fs (canonH fs h) + Pipeline.cidOf (callsAt fs (canonH fs h)) c, name := c.name,
    args := ⟨c.args, c.kwargs⟩ }

def fnInfo2 (ord : List CallSym → List CallSym) (fs : List AFile) (h : Nat) (p : Sym × IR) : FnInfo :=
  { iface := p.1.iface.getD Pipeline.emptyIface, calls := (ord p.2.calls).map (callRec2 fs h) }

def fnsFrom (ord : List CallSym → List CallSym) (fs : List AFile) : Nat → List AFile → List FnInfo
  | _, [] => []
  | i, f :: r => f.ir.map (fnInfo2 ord fs i) ++ fnsFrom ord fs (i + 1) r

/-- the resolver, by the key of the calling node and the equality class of the call -/
def resolveAt (P : Project) (fs : List AFile) (all : List CallSym) (caller : Key) (cid : Nat) : Option Key :=
  match all[cid]? with
  | none => none
  | some c =>
    match resolveCall2 P fs (homeOf fs caller) c with
    | .target k => some k
    | _ => none

/-- functions of ALL files; the `resolve` field is not used by the multi-file traversal. -/
def toProg2 (ord : List CallSym → List CallSym) (fs : List AFile) : Prog :=
  { fns := fnsFrom ord fs 0 fs, resolve := fun _ => none }

/-- `P` with the resolver of the node with key `k` -/
def progAt (P : Prog) (rs : Key → Nat → Option Key) (k : Key) : Prog := { P with resolve := rs k }

/-- `Results.bfs`, each node expanded with the resolver of its own file. -/
def bfs2 (P : Prog) (rs : Key → Nat → Option Key) : Nat → Nat → Results.BfsState → Option Results.BfsState
  | 0, i, st => if i < st.nodes.length then none else some st
  | fuel + 1, i, st =>
    match st.nodes[i]? with
    | none => some st
    | some n =>
      bfs2 P rs fuel (i + 1)
        (Results.expand (progAt P rs n.key) i (Results.sortCalls (Results.fnAt P n.key).calls) st)

/-- `make_target_ir_call_tree(root)` -/
def callTree2 (P : Prog) (rs : Key → Nat → Option Key) (root : Key) : Option (List Results.Node) :=
  (bfs2 P rs (Results.totalCalls P + 1) 0
    { nodes := [{ key := root, edgeIn := none, parent := none }], seen := [] }).map (·.nodes)

/-- one root: build the tree, fold it (the fold is `Results.foldTree`, which never resolves). -/
def runRoot2 (P : Prog) (rs : Key → Nat → Option Key) (σ : Store) (root : Key) : Results.Out (IrSets × Store) :=
  match callTree2 P rs root with
  | none => .outOfFuel
  | some nodes =>
    match Results.foldTree P nodes (List.range nodes.length).reverse σ with
    | none => .never
    | some σ' => .ok (σ' root, σ')

/-- `Pipeline.bfsD` with the per-node resolver -/
def bfsD2 (P : Prog) (rs : Key → Nat → Option Key) (D : DiagCtx) : Nat → Nat → Results.BfsState → List Diag
  | 0, _, _ => []
  | fuel + 1, i, st =>
    match st.nodes[i]? with
    | none => []
    | some n =>
      let cs := Results.sortCalls (Results.fnAt P n.key).calls
      Pipeline.expandD (progAt P rs n.key) D n.key cs st.seen ++
        bfsD2 P rs D fuel (i + 1) (Results.expand (progAt P rs n.key) i cs st)

def treeDiags2 (P : Prog) (rs : Key → Nat → Option Key) (D : DiagCtx) (root : Key) : List Diag :=
  bfsD2 P rs D (Results.totalCalls P + 1) 0 { nodes := [{ key := root, edgeIn := none, parent := none }], seen := [] }

def diagCtx2 (Pj : Project) (fs : List AFile) (P : Prog) : DiagCtx :=
  let fir := gfir fs
  let all := allCalls2 fs
  let nameOf (k : Key) : Str := match fir[k]? with | some p => p.1.name | none => []
  { onResolve := fun caller c =>
      match all[c.cid]? with
      | some cs => resolveDiags2 Pj fs (homeOf fs caller) (nameOf caller) cs
      | none => [],
    -- only an `Import` target raises, and `resolveImp` does not depend on the calling file
    crashes := fun c =>
      match all[c.cid]? with
      | some cs => (match resolveCall2 Pj fs 0 cs with | .crash e => some e | _ => none)
      | none => none,
    onSwaps := fun g c =>
      ((Swaps.construct (Results.si P) (Results.fnAt P g).iface c.args).2).map (Pipeline.swapDiag (nameOf g)) }

/-- `Pipeline.genLoop` over the per-node resolver: the roots in order over ONE shared store. -/
def genLoop2 (P : Prog) (rs : Key → Nat → Option Key) (D : DiagCtx) :
    List Key → Store → Outcome (List (Key × IrSets) × Store × List Diag)
  | [], σ => .ok ([], σ, [])
  | root :: r, σ =>
    match callTree2 P rs root with
    | none => .crash "OutOfFuel".toList
    | some nodes =>
      match Pipeline.treeCrash P D nodes with
      | some e => .crash e
      | none =>
        match runRoot2 P rs σ root with
        | .outOfFuel => .crash "OutOfFuel".toList
        | .never => .crash "ValueError".toList
        | .ok (res, σ') =>
          match genLoop2 P rs D r σ' with
          | .ok (rs', σ'', ds) =>
            .ok ((root, res) :: rs', σ'', treeDiags2 P rs D root ++ Pipeline.foldDiags D nodes ++ ds)
          | .fatal ds d => .fatal ds d
          | .crash e => .crash e

/-- `generate_results_from_ir(target_ir, import_irs)`: the document of the target's functions, the
diagnostics, and the sets of EVERY FileIr as result generation leaves them. -/
def resultsStore2 (ord : List CallSym → List CallSym) (Pj : Project) (t : AFile) (irs : List AFile) :
    Outcome (ResultsDoc × List Diag × List IrSets) :=
  let fs := t :: irs
  let P := toProg2 ord fs
  let rs := resolveAt Pj fs (allCalls2 fs)
  match genLoop2 P rs (diagCtx2 Pj fs P) (List.range t.ir.length) (Pipeline.toStore (gfir fs)) with
  | .ok (res, σ, ds) => .ok (Pipeline.mkDoc (gfir fs) res, ds, (List.range (gfir fs).length).map σ)
  | .fatal ds d => .fatal ds d
  | .crash e => .crash e

def results2 (ord : List CallSym → List CallSym) (Pj : Project) (t : AFile) (irs : List AFile) :
    Outcome (ResultsDoc × List Diag) :=
  match resultsStore2 ord Pj t irs with
  | .ok (doc, ds, _) => .ok (doc, ds)
  | .fatal ds d => .fatal ds d
  | .crash e => .crash e

/-! ### the pipeline -/

def runWith2 (ord : List CallSym → List CallSym) (P : Project) : Outcome (ResultsDoc × List Diag) :=
  match analyseAll P with
  | .fatal ds d => .fatal ds d
  | .crash e => .crash e
  | .ok (t, irs, ds) =>
    if !pathsConsistent (t :: irs) then .crash "Outside:one-path-analysed-differently".toList
    else
    match results2 ord P t irs with
    | .ok (doc, ds') => .ok (doc, ds ++ ds')
    | .fatal ds' d => .fatal (ds ++ ds') d
    | .crash e => .crash e

/-- `python -m rattr -o results --follow-imports 1 <target>`: the printed document and every
diagnostic (target root context, imports in BFS order, target file walk, result generation). -/
def run2 (P : Project) : Outcome (ResultsDoc × List Diag) := runWith2 id P

end Pipeline2
end Rattr

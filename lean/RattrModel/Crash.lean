/-
  RattrModel.Crash — C07: (1) the hand-maintained classification of every `raise` / `assert`
  statement of the rattr package, (2) the decidable shape predicate `NoCrashShapeFn` on function
  bodies under which the function-analyser model never ends in `Res.crash`.

  (1) is tied to the source by `RattrProofs.Props.C07.tieA_raise_sites` (the generated scan
  `Generated.C07.raiseSites` must equal the sites listed here, in source order): a new `raise` in the
  source breaks that obligation until it is classified here.
-/
import RattrModel.FnAnalyser

namespace Rattr.Crash
open Rattr Rattr.FnA

/-! ## 1. Raise-site classification -/

/-- Crash classes (K-rows of DESIGN §7 + the rows found while building the check). A row is a class of
inputs on which the pinned code dies with a traceback. Rows without a `raise` statement of rattr's
own (the exception is born in a library or in the interpreter) have no entry in the site table and
are listed in `libraryRows`. -/
inductive Reach where
  | unreachableFromInput (why : String)
  | reachable (row : String)
  deriving DecidableEq, Repr

structure Site where
  site  : String × String × String      -- file, enclosing function, raised class
  reach : Reach
  deriving DecidableEq, Repr

private def u (f fn exc why : String) : Site := ⟨(f, fn, exc), .unreachableFromInput why⟩
private def r (f fn exc row : String) : Site := ⟨(f, fn, exc), .reachable row⟩

def classifiedRaiseSites : List Site := [
  u "rattr/analyser/annotations.py" "rattr_ignore" "ValueError" "run-time decorator body; the analyser never executes target code",
  r "rattr/analyser/cls.py" "ClassAnalyser.symbol" "ValueError" "K11",
  u "rattr/analyser/file.py" "FileAnalyser.visit_function_with_custom_analyser" "RuntimeError" "guarded by plugins.has_analyser on the same (fn, modulename)",
  u "rattr/analyser/file.py" "FileAnalyser.visit_LambdaAssign" "RuntimeError" "has_lambda_in_rhs implies node.value is not None",
  u "rattr/analyser/file.py" "FileAnalyser.visit_AnyAssign" "NotImplementedError" "one walrus adds at most one symbol to file_ir (nested walruses are visited one by one); not reproduced by any probe",
  u "rattr/analyser/function.py" "FunctionAnalyser.__init__" "TypeError" "every constructor call passes a FunctionDef / AsyncFunctionDef / Lambda",
  u "rattr/analyser/function.py" "FunctionAnalyser.visit_ClassAssign" "RuntimeError" "class_in_rhs on a one-to-one assignment implies the value is a Call",
  r "rattr/analyser/util.py" "get_basename_fullname_pair" "_error_class" "K5",
  r "rattr/analyser/util.py" "get_attrname" "TypeError" "K2",
  u "rattr/analyser/util.py" "unravel_names" "TypeError" "deprecated copy without callers outside its own recursion (the context uses rattr.ast.util.unravel_names)",
  u "rattr/analyser/util.py" "is_call_to" "TypeError" "every caller passes an ast.Call",
  u "rattr/analyser/util.py" "has_affect" "ValueError" "dead code (no callers)",
  r "rattr/analyser/util.py" "get_xattr_obj_name_pair" "TypeError" "K5",
  u "rattr/analyser/util.py" "get_decorator_name" "TypeError" "dead code (no callers)",
  u "rattr/analyser/util.py" "validate_rattr_results" "RattrResultsError" "caught by parse_rattr_results_from_annotation and turned into error.fatal",
  u "rattr/analyser/util.py" "validate_rattr_results" "RattrResultsError" "caught by parse_rattr_results_from_annotation and turned into error.fatal",
  u "rattr/analyser/util.py" "parse_rattr_results_from_annotation_args_impl" "exc" "re-raises the SystemExit of an error.fatal whose diagnostic was already printed (exit 1)",
  u "rattr/analyser/util.py" "get_function_body" "TypeError" "every caller passes a def or a lambda",
  u "rattr/analyser/util.py" "get_assignment_targets" "TypeError" "every caller passes one of the four assignment node kinds",
  u "rattr/analyser/util.py" "_attrs_from_list_of_strings" "SyntaxError" "dead code (only reachable from get_namedtuple_attrs_from_call, which has no callers)",
  u "rattr/analyser/util.py" "_attrs_from_space_delimited_string" "SyntaxError" "dead code (see _attrs_from_list_of_strings)",
  u "rattr/analyser/util.py" "_attrs_from_space_delimited_string" "SyntaxError" "dead code (see _attrs_from_list_of_strings)",
  u "rattr/analyser/util.py" "_namedtuple_attrs_from_second_argument" "SyntaxError" "dead code (see _attrs_from_list_of_strings)",
  u "rattr/analyser/util.py" "get_namedtuple_attrs_from_call" "TypeError" "dead code (no callers)",
  u "rattr/analyser/util.py" "module_name_from_file_path" "ValueError" "dead code (no callers)",
  u "rattr/analyser/util.py" "is_method_on_constant" "NotImplementedError" "only for a Python major version other than 3",
  u "rattr/ast/_util.py" "is_call_to_fn" "TypeError" "every caller passes an ast.Call",
  r "rattr/ast/_util.py" "names_of" "__specific_name_error(node)" "K4",
  u "rattr/ast/_util.py" "__ast_compound_name" "NotImplementedError" "all five AstNodeWithName kinds are handled above it",
  u "rattr/ast/util.py" "unravel_names" "TypeError" "targets of valid Python are Name / Attribute / Subscript / Starred / Tuple / List only",
  u "rattr/ast/util.py" "assignment_targets" "TypeError" "every caller passes one of the four assignment node kinds",
  u "rattr/ast/util.py" "namedtuple_init_signature_from_declaration.namedtuple_attrs_from_second_argument" "SyntaxError" "caught three lines below and re-raised as ValueError, which both callers catch",
  u "rattr/ast/util.py" "namedtuple_init_signature_from_declaration" "TypeError" "a one-to-one assignment with a namedtuple declaration on the right has a Call as value",
  u "rattr/ast/util.py" "namedtuple_init_signature_from_declaration" "ValueError" "caught by both callers (root context builder, visit_NamedTupleAssign) and reported by error.error",
  u "rattr/ast/util.py" "namedtuple_init_signature_from_declaration" "ValueError" "caught by both callers (root context builder, visit_NamedTupleAssign) and reported by error.error",
  u "rattr/ast/util.py" "unpack_ast_list_of_strings" "SyntaxError" "caught in namedtuple_init_signature_from_declaration",
  u "rattr/ast/util.py" "parse_space_delimited_ast_string" "SyntaxError" "caught in namedtuple_init_signature_from_declaration",
  u "rattr/ast/util.py" "parse_space_delimited_ast_string" "SyntaxError" "caught in namedtuple_init_signature_from_declaration",
  u "rattr/cli/_argparse.py" "ArgumentParser.exit" "argparse.ArgumentError" "only with exit_on_error=False (the TOML pass), where parse_arguments catches it",
  u "rattr/cli/_types.py" "TomlArgumentType.is_valid" "NotImplementedError" "all enum members are handled above it",
  u "rattr/cli/_util.py" "multi_paragraph_wrap._preserve" "SyntaxError" "only on rattr's own help texts (constants)",
  u "rattr/cli/parser.py" "_toml_error" "exc" "only with exit_on_error=False (tests); the CLI path prints a fatal: line and exits 1 (fix f47ae20)",
  u "rattr/cli/parser.py" "_validate_toml_config" "argparse.ArgumentError" "caught by _parse_project_config",
  r "rattr/codegen/util.py" "gen_import_from_stmt" "ValueError" "K1",
  u "rattr/codegen/util.py" "gen_import_from_stmt" "ValueError" "the only caller passes the literal '*' as target",
  u "rattr/config/_types.py" "Arguments.follow_imports" "NotImplementedError" "argparse restricts the level to 0..3",
  u "rattr/config/_types.py" "Arguments.show_warnings" "NotImplementedError" "argparse restricts the level to the four literals",
  u "rattr/config/_types.py" "Config.increment_badness" "ValueError" "every call site passes a non-negative literal",
  u "rattr/config/util.py" "get_current_file" "ValueError" "symbols and contexts are only created inside enter_file",
  u "rattr/models/context/_context.py" "Context.get_class_or_error" "KeyError" "caught by FileAnalyser.visit_NamedTupleAssign",
  u "rattr/models/context/_context.py" "Context.get_func_or_error" "KeyError" "caught by FileAnalyser.visit_AnyFunctionDef / visit_LambdaAssign",
  u "rattr/models/context/_context.py" "Context.__getitem__" "KeyError" "MutableMapping protocol: `in`, `get` and `pop(k, default)` catch it",
  u "rattr/models/context/_context.py" "Context.__setitem__" "ValueError" "only update_symbol assigns, with key = symbol.id of a Class",
  u "rattr/models/context/_context.py" "Context.__setitem__" "ValueError" "only update_symbol assigns, with key = symbol.id of a Class",
  u "rattr/models/context/_context.py" "Context.__delitem__" "KeyError" "MutableMapping.pop catches it; remove() checks membership first",
  u "rattr/models/context/_context.py" "Context.clear" "TypeError" "never called",
  u "rattr/models/context/_context.py" "Context.update" "TypeError" "never called",
  u "rattr/models/context/_root_context.py" "compile_root_context" "TypeError" "ast.parse always returns a Module",
  u "rattr/models/symbol/_symbol.py" "Symbol.__attrs_pre_init__" "NotImplementedError" "only concrete subclasses are instantiated",
  u "rattr/models/symbol/_symbol.py" "Symbol.__lt__" "TypeError" "symbols are only sorted among themselves",
  u "rattr/models/symbol/_symbol.py" "AnyCallInterface.from_fn_def" "NotImplementedError" "never called on AnyCallInterface",
  u "rattr/models/symbol/_symbol.py" "AnyCallInterface.from_arguments" "NotImplementedError" "never called on AnyCallInterface",
  u "rattr/models/util/_serialisation_helpers.py" "make_symbol_deserialiser.deserialise_symbol" "ValueError" "the only deserialise call (cache gate) catches every exception since fix 16f7ad6: a malformed cache is stale",
  u "rattr/models/util/_serialisation_helpers.py" "make_symbol_deserialiser.deserialise_symbol" "ValueError" "the only deserialise call (cache gate) catches every exception since fix 16f7ad6: a malformed cache is stale",
  u "rattr/models/util/_serialisation_helpers.py" "make_call_interface_deserialiser.deserialise_call_interface" "ValueError" "the only deserialise call (cache gate) catches every exception since fix 16f7ad6: a malformed cache is stale",
  u "rattr/models/util/_serialisation_helpers.py" "make_file_ir_deserialiser.deserialise_file_ir" "ValueError" "the only deserialise call (cache gate) catches every exception since fix 16f7ad6: a malformed cache is stale",
  u "rattr/module_locator/_locate.py" "iter_python_path_dirs" "RattrSysPathNotPopulated" "sys.path is never empty under `python -m rattr`",
  u "rattr/module_locator/util.py" "derive_module_name_from_path" "ValueError" "callers pass the current file or a symbol's defined_in, both set inside enter_file",
  r "rattr/plugins/analysers/builtins.py" "SortedAnalyser.on_call" "SyntaxError" "K3",
  u "rattr/results/_find_call_target.py" "find_call_target_and_ir" "TypeError" "the five Symbol subclasses are handled above it",
  u "rattr/results/_find_call_target.py" "resolve_function" "ImportError" "called only when the target is a Func",
  r "rattr/results/_find_call_target.py" "resolve_import" "ImportError" "K10",
  r "rattr/results/_find_call_target.py" "resolve_import" "ImportError" "K9",
  u "rattr/results/_find_call_target.py" "__resolve_target_and_ir" "ImportError" "caught by resolve_function / resolve_class_init",
  u "rattr/results/_find_call_target.py" "__resolve_target_and_ir" "ModuleNotFoundError" "subclass of ImportError: caught by resolve_function / resolve_class_init",
  u "rattr/results/_find_call_target.py" "__resolve_target_and_ir" "ImportError" "caught by resolve_function / resolve_class_init",
  u "rattr/results/_find_call_target.py" "__resolve_target_and_ir" "ImportError" "caught by resolve_function / resolve_class_init",
  r "rattr/results/_simplify_utils.py" "unbind_name" "ValueError" "K22",
  u "rattr/versioning/_util.py" "_parse_version_string" "ValueError" "only on rattr's own version-guard literals",
  u "rattr/versioning/_util.py" "_parse_version_string" "ValueError" "only on rattr's own version-guard literals",
  u "rattr/versioning/_util.py" "_parse_version_string" "ValueError" "only on rattr's own version-guard literals"
]

def classifiedAssertSites : List Site := [
  r "rattr/models/context/_root_context.py" "RootContextBuilder.visit_starred_relative_import" "module_name == confirmed_module_name" "K8",
  r "rattr/models/context/_root_context.py" "RootContextBuilder.visit_relative_import" "module_name == confirmed_module_name" "K8"
]

/-- Crash rows whose exception is not born in a `raise` statement of rattr (library / interpreter). -/
def libraryRows : List (String × String) := [
  ("K7", "AttributeError in is_list_of_call_specs: `.items()` on a list given as the kwargs of a rattr_results call spec"),
  ("K8-frozen", "FileNotFoundError in read.__enter__: spec.origin == 'frozen' for stdlib modules at follow level 3"),
  ("K12", "re.error from re.compile on a malformed -x / -F pattern"),
  ("K20", "UnicodeDecodeError / SyntaxError(U+FEFF) in read + ast.parse: source files are read as UTF-8 text ignoring coding cookie and BOM"),
  ("K21", "RecursionError in resolve_import on a re-export cycle a <-> b")
]

/-- K23 (reported by a reviewer, confirmed in round 3, FIXED upstream in c5833ef): the `raise ValueError  # … so never
here` of the two relative-import visitors was reachable: `derive_module_name_from_path(current_file)` answers `None`
whenever no right-suffix of the file's dotted path is an importable module — the target lies outside the module search
path (`rattr ../other/t.py`, `rattr /abs/elsewhere/t.py`), below a directory that is no identifier (`a.b/t.py`), or has
no `.py` suffix — and the file holds a relative import. Both sites are `error.fatal(…)` now; the two `raise` statements
are gone from the raise-site table (Tie A), the guard is pinned by `Generated.C07.fixGuards` and modelled in
`RattrModel/RelBase.lean`. -/
def k23Note : String := "visit_relative_import / visit_starred_relative_import: derive_module_name_from_path(current file) is None -> error.fatal since c5833ef"

/-- K22 (found while proving the names invariant of §3): `unbind_name` raises `ValueError("never")`
when a Name whose basename is `getattr` / `hasattr` / `setattr` / `delattr` (`names_of` keeps the
callee's basename for `getattr(q, 'x').m` but spells it `q.x.m`) is unbound through a parameter of
that name: `def f(getattr, q): return getattr(q, 'x').m` + `def g(b, c): return f(b, c)` (results
stage), `sorted(xs, key=lambda getattr: getattr(q, 'x').m)` (function analyser). -/
def k22Note : String := "unbind_name: Name('q.x.m', basename='getattr') does not start with its basename"

/-- Rows of the first pinned tree that upstream `fix:` commits removed (kept for the record; the corpus of
py/props/c07.py still runs their witnesses, so a regression is reported as a violation). -/
def fixedRows : List (String × String × String) := [
  ("K23", "c5833ef", "ValueError ('never here') in visit_relative_import / visit_starred_relative_import when the current file has no derivable module name"),
  ("K24", "353eacf", "RuntimeError('Symlink loop from …') out of isort.place_module via is_in_stdlib: an import whose first component is a directory symlink loop below the working directory"),
  ("K25", "bcdf6de", "IsADirectoryError / FileNotFoundError / FileExistsError out of write_cache_file: `-C PATH` with a PATH that cannot be written"),
  ("K19", "16f7ad6", "TypeError / cattrs ClassValidationError in deserialise on a cache file that is JSON but not a cache"),
  ("TOML", "f47ae20", "TypeError Config.__init__(): error.fatal was called before the Config singleton existed")
]

/-- What keeps K23 / K24 / K25 fixed, as the source says it now (`Generated.C07.fixGuards` must equal this list): the
two `if base is None:` bodies start with `error.fatal`, `is_in_stdlib` answers `False` when `place_module` raises an
`OSError` / `RuntimeError`, `write_cache_file` wraps `mkdir` + `write_text` in `except OSError -> error.fatal`, and
`main` writes the cache through that function only. -/
def pinnedGuards : List (String × String) :=
  [("_root_context.visit_starred_relative_import:if base is None", "error.fatal"),
   ("_root_context.visit_relative_import:if base is None", "error.fatal"),
   ("module_locator.util.is_in_stdlib:try section = place_module(name)", "except (OSError, RuntimeError) -> return False"),
   ("__main__.write_cache_file:try cache_file.parent.mkdir; cache_file.write_text", "except OSError -> error.fatal"),
   ("__main__.main:cache-write", "config.arguments.cache_file is not None -> write_cache_file")]

/-- The rows that have at least one reachable raise / assert site. -/
def reachableRows : List String :=
  ((classifiedRaiseSites ++ classifiedAssertSites).filterMap fun s =>
    match s.reach with | .reachable row => some row | _ => none).eraseDups

/-! ## 2. The shape predicate on function bodies

`NoCrashShapeFn body` is purely syntactic (it never looks at a context): it holds when none of the
crash shapes below occurs at a place the visitor reaches. It is CONSERVATIVE in two ways, both made
necessary by quantifying the theorem over every root context and plugin table:
  * a call is treated as if it could be dispatched to any custom analyser (an alias such as
    `from builtins import getattr as g` cannot be excluded syntactically), so the getattr-family
    condition `xattrOldOk` is demanded of every call;
  * `sorted(..., key=<lambda>)` is excluded altogether (`noKeyLambda`): besides K3 (≠ 1 positional
    parameter) that path ends in `unbind_name`'s `ValueError("never")`, which IS reachable (K22: the
    name `getattr(q, 'x').m` has basename `getattr` but full name `q.x.m`; a parameter called
    `getattr` makes `unbind_name` look for the prefix `getattr`). §3 accepts the lambdas for which
    the prefix invariant is proved.
The harness reports how often the predicate is false on a function that does not crash. -/

/-- K4 / K5 (new namer): `names_of(node, safe=safe)` does not raise. -/
def nameOk (safe : Bool) (n : Node) : Bool :=
  match namesOf safe n with
  | .crash _ => false
  | _ => true

/-- K5 (old namer): `get_basename_fullname_pair(node, safe=safe)` does not raise. -/
def oldOk (safe : Bool) (n : Node) : Bool :=
  match oldNames safe n with
  | .crash _ => false
  | _ => true

/-- K4: `unravel_names(target)` does not raise: every leaf of the target is a nameable chain down to
a plain name (no `(a+b).c`), and the containers are tuples / lists. -/
def unravelOk (n : Node) : Bool :=
  match unravelNames n with
  | .crash _ => false
  | _ => true

/-- K4 (`del`): `unravel_names(target, _get_name=fullname_of)` does not raise (same shapes as
`unravelOk`: the two differ only in which component of the name they keep). -/
def unravelFullOk (n : Node) : Bool :=
  match unravelFullNames n with
  | .crash _ => false
  | _ => true

/-- K5: `get_xattr_obj_name_pair(fn, call)` does not raise on these positional arguments. -/
def xattrOldOk (fn : Str) (args : List Node) : Bool :=
  match xattrPairOld fn args with
  | .crash _ => false
  | _ => true

/-- the spelling `custom_analyser_for_target` looks the callee up by (`[]` if it cannot be named). -/
def calleeName (n : Node) : Str :=
  match targetNameNoUnravel n with
  | .ok _ t => t
  | _ => []

/-- K3 (+ the unproved `ValueError("never")` path): no keyword `key=<lambda>`. -/
def noKeyLambda : List (Option Str) → List Node → Bool
  | some k :: rn, v :: rv => !(k = "key".toList && isLambda v) && noKeyLambda rn rv
  | none :: rn, _ :: rv => noKeyLambda rn rv
  | _, _ => true

/-- `defaultdict(<name or attribute>)`: the factory is named strictly. -/
def factoryOk : List Node → Bool
  | (.attr v a c) :: _ => nameOk false (.attr v a c)
  | _ => true

/-- first target named strictly when the assignment is one-to-one (lambda / namedtuple / class
instance on the right-hand side). -/
def firstTargetOk (targets : List Node) (value : Node) : Bool :=
  match targets with
  | [] => false
  | t :: _ => !oneToOne targets value || nameOk false t

/-- `class_in_rhs` names the value (or the elements of a tuple / list value) with the old namer. -/
def classProbeOk : Node → Bool
  | .call f a kn kv => oldOk true (.call f a kn kv)
  | .seq _ elts _ => elts.all (oldOk true)
  | _ => true

/-- everything `visit_AnyAssign` may do before / instead of the generic visit. -/
def assignOk (targets : List Node) (value : Node) : Bool :=
  firstTargetOk targets value && classProbeOk value && targets.all unravelOk &&
  (match value with
   | .call f a kn kv => !oneToOne targets value || nameOk false (.call f a kn kv)
   | _ => true)

def withItemsOk : List Node → Bool
  | [] => true
  | .withitem _ vars :: r => vars.all unravelOk && withItemsOk r
  | _ :: r => withItemsOk r

/-- the local (non-recursive) conditions at a call node. -/
def callLocalOk (f : Node) (args : List Node) (kwn : List (Option Str)) (kwv : List Node) : Bool :=
  let node := Node.call f args kwn kwv
  nameOk true f && nameOk true node && xattrOldOk (calleeName node) args && noKeyLambda kwn kwv &&
  factoryOk args && args.all (oldOk true) && kwv.all (oldOk true)

mutual
def okNode : Node → Bool
  | .name _ _ => true
  | .attr v a c => nameOk true (.attr v a c) && (v.isNameable || okNode v)
  | .sub v sl c => nameOk true (.sub v sl c) && (v.isNameable || okNode v)
  | .starred v c => nameOk true (.starred v c) && (v.isNameable || okNode v)
  | .call f args kwn kwv => callLocalOk f args kwn kwv && okList args && okList kwv
  | .lam _ body => okNode body
  | .comp _ elts gens => okList gens && okList elts
  | .gen t iter ifs => unravelOk t && okNode t && okNode iter && okList ifs
  | .walrus t v => nameOk false t && assignOk [t] v && okNode t && okNode v
  | .strConst _ => true
  | .const => true
  | .seq _ elts _ => okList elts
  | .dict keys vals => okList keys && okList vals
  | .assign targets v => assignOk targets v && okList targets && okNode v
  | .annAssign t ann [] => unravelOk t && okNode t && okNode ann
  | .annAssign t ann (v0 :: _) => assignOk [t] v0 && okNode t && okNode ann && okNode v0
  | .augAssign t v => assignOk [t] v && okNode t && okNode v
  | .delete targets => targets.all unravelFullOk && okList targets
  | .forLoop t iter body orelse => unravelOk t && okNode t && okNode iter && okList body && okList orelse
  | .withStmt items body => withItemsOk items && okList items && okList body
  | .withitem ce vars => okNode ce && okList vars
  | .funcDef _ _ body => okList body
  | .classDef _ => true
  | .ret [] => true
  | .ret (v0 :: _) => okRet v0 && okNode v0
  | .forbidden _ => true
  | .other _ kids => okList kids
def okList : List Node → Bool
  | [] => true
  | n :: r => okNode n && okList r
/-- `visit_ReturnValue`: a returned call may be named strictly (class instance). -/
def okRet : Node → Bool
  | .seq _ elts _ => okRetList elts
  | .dict keys vals => okRetList keys && okRetList vals
  | .call f args kwn kwv => nameOk false (.call f args kwn kwv)
  | _ => true
def okRetList : List Node → Bool
  | [] => true
  | e :: r => okRet e && okNode e && okRetList r
end

/-- The shape predicate of build round 1: sufficient under EVERY root context (also contexts no run of
rattr can produce, e.g. a builtin stored under another name): kept with its theorem
`C07_fn_no_crash_anyctx_partial`. -/
def NoCrashShapeFnAnyCtx (body : List Node) : Bool := okList body

/-! ## 3. The wider predicate (contexts as `compile_root_context` builds them)

`NoCrashShapeFn` drops four over-approximations of §2; what remains excluded is, per clause, one of the
crash rows K3 / K4 / K5 / K22 / `defaultdict((a+b).c)` (each with a `C07_cex_*` theorem):

  * **custom analysers of the getattr family** (`xattrOldOk`): demanded only of a call whose callee is
    SPELLED `getattr` / `hasattr` / `setattr` / `delattr`. In a context where a builtin is stored under
    its own name and no import has such a qualified name (`SaneCtx`, decidable; true of every context
    the root-context builder produces unless the module says `import getattr`), no other spelling is
    dispatched to those analysers.
  * **`key=<lambda>`** is accepted when the lambda has exactly one positional parameter, that
    parameter is an identifier other than the four names above (`cleanId`), and the body satisfies the
    predicate in "key mode" (`k = true`): expression nodes only, a walrus target is a plain name, no
    call spelled like the getattr family, at most one `*` on a name chain. Under these the names the
    body produces start with their basename, so `unbind_name` finds its prefix (K22 otherwise).
  * **strict naming of a returned / assigned call** (`visit_ReturnValue`, `visit_ClassAssign`) is
    demanded only when the callee can resolve at all: a callee spelled through an unnameable root
    (`(a + b).m()`, `'s'.join()`) has `get_call_target` answer `None`, so it is never a class.
  * a statement list is checked up to its first statement that always ends in `error.fatal`
    (`import` / `global` / `nonlocal` directly or inside a compound statement — `if`, `try`, `while`,
    `match`, `for`, `with`, a nested `def`): the statements after it are never visited. -/

/-- an entry of a symbol table as the builders create them: a builtin sits under its own name, and
no import is qualified as one of the getattr-family names. -/
def saneEntry (p : Str × Sym) : Bool :=
  (p.2.kind != .builtin || p.2.name == p.1) && (p.2.kind != .import_ || !xattrBuiltins.contains p.2.qual)

def SaneCtx (c : Context) : Bool := c.all fun sc => sc.all saneEntry

/-- the callee spelling `get_call_target` looks up is one of the getattr-family names. -/
def xattrSpelled (tn : Str) : Bool :=
  xattrBuiltins.contains (Strs.removeChar (Strs.withoutCallBrackets tn) '*')

/-- `get_call_target(full)` answers `None` at its first test: the name starts with `@`. -/
def literalCallee (full : Str) : Bool :=
  Strs.startsWith (Strs.removeChar (Strs.withoutCallBrackets full) '*') ['@']

def newLiteral (n : Node) : Bool :=
  match namesOf true n with
  | .ok _ f => literalCallee f
  | _ => false

def oldLiteral (n : Node) : Bool :=
  match oldNames true n with
  | .ok _ f => literalCallee f
  | _ => false

/-- an identifier that is not a getattr-family name (a lambda parameter `unbind_name` can handle). -/
def cleanId (s : Str) : Bool := isIdentifier s && !xattrBuiltins.contains s

/-- number of `*` a name chain puts in front of its basename. -/
def chainStars : Node → Nat
  | .attr v _ _ => chainStars v
  | .sub v _ _ => chainStars v
  | .starred v _ => chainStars v + 1
  | .call f _ _ _ => chainStars f
  | _ => 0

/-- key mode: at most one leading `*`. -/
def starsOk (k : Bool) (n : Node) : Bool := !k || decide (chainStars n ≤ 1)

def isNameNode : Node → Bool
  | .name .. => true
  | _ => false

/-- the right-hand side can make `visit_AnyAssign` name the first target strictly. -/
def strictRhs (value : Node) : Bool :=
  lambdaInRhs value || namedtupleInRhs value || (isCall value && !oldLiteral value)

def firstTargetOk' (k : Bool) (targets : List Node) (value : Node) : Bool :=
  match targets with
  | [] => false
  | t :: _ => (!oneToOne targets value || !strictRhs value || nameOk false t) && starsOk k t

def assignOk' (k : Bool) (targets : List Node) (value : Node) : Bool :=
  firstTargetOk' k targets value && classProbeOk value && targets.all unravelOk &&
  (match value with
   | .call f a kn kv => !oneToOne targets value || oldLiteral value || nameOk false (.call f a kn kv)
   | _ => true)

def callLocalOk' (k : Bool) (f : Node) (args : List Node) (kwn : List (Option Str)) (kwv : List Node) : Bool :=
  let node := Node.call f args kwn kwv
  nameOk true f && nameOk true node &&
  (!xattrSpelled (calleeName node) || (!k && xattrOldOk (calleeName node) args)) &&
  factoryOk args && args.all (oldOk true) && kwv.all (oldOk true) && starsOk k node

/-- `visit_ReturnValue` on a call: skipped for a direct getattr-family call, no class behind a
literal callee, else the call may be named strictly. -/
def retCallOk (n : Node) : Bool :=
  xattrBuiltins.any (fun x => isCallTo x n) || newLiteral n || nameOk false n

mutual
/-- the node always ends in `error.fatal` (or an exception): what follows it in a statement list is
never visited. -/
def stops : Node → Bool
  | .forbidden _ => true
  | .other _ kids => stopsL kids
  | .forLoop _ _ body orelse => stopsL body || stopsL orelse
  | .withStmt _ body => stopsL body
  | .funcDef _ _ body => stopsL body
  | _ => false
def stopsL : List Node → Bool
  | [] => false
  | n :: r => stops n || stopsL r
end

mutual
def okN (k : Bool) : Node → Bool
  | .name _ _ => true
  | .attr v a c => nameOk true (.attr v a c) && starsOk k (.attr v a c) && (v.isNameable || okN k v)
  | .sub v sl c => nameOk true (.sub v sl c) && starsOk k (.sub v sl c) && (v.isNameable || okN k v)
  | .starred v c => nameOk true (.starred v c) && starsOk k (.starred v c) && (v.isNameable || okN k v)
  | .call f args kwn kwv => callLocalOk' k f args kwn kwv && okL k args && okL k kwv && okKeys kwn kwv
  | .lam _ body => okN k body
  | .comp _ elts gens => okL k gens && okL k elts
  | .gen t iter ifs => unravelOk t && okN k t && okN k iter && okL k ifs
  | .walrus t v => nameOk false t && (!k || isNameNode t) && assignOk' k [t] v && okN k t && okN k v
  | .strConst _ => true
  | .const => true
  | .seq _ elts _ => okL k elts
  | .dict keys vals => okL k keys && okL k vals
  | .assign targets v => !k && assignOk' false targets v && okL false targets && okN false v
  | .annAssign t ann [] => !k && unravelOk t && okN false t && okN false ann
  | .annAssign t ann (v0 :: _) => !k && assignOk' false [t] v0 && okN false t && okN false ann && okN false v0
  | .augAssign t v => !k && assignOk' false [t] v && okN false t && okN false v
  | .delete targets => !k && targets.all unravelFullOk && okL false targets
  | .forLoop t iter body orelse =>
    !k && unravelOk t && okN false t && okN false iter && okB false body && okB false orelse
  | .withStmt items body => !k && withItemsOk items && okL false items && okB false body
  | .withitem ce vars => !k && okN false ce && okL false vars
  | .funcDef _ _ body => !k && okB false body
  | .classDef _ => !k
  | .ret [] => !k
  | .ret (v0 :: _) => !k && okRet' v0 && okN false v0
  | .forbidden _ => true
  | .other _ kids => okB k kids
/-- every node of the list (argument lists, elements, targets). -/
def okL (k : Bool) : List Node → Bool
  | [] => true
  | n :: r => okN k n && okL k r
/-- a list visited in order (a statement block, the children of a plain node): up to the first node
that always stops the analysis. -/
def okB (k : Bool) : List Node → Bool
  | [] => true
  | n :: r => okN k n && (stops n || okB k r)
/-- the `key=` keyword of a call that `sorted`'s analyser may handle: a lambda there has one clean
positional parameter and a body that is fine in key mode. -/
def okKeys : List (Option Str) → List Node → Bool
  | some kw :: rn, v :: rv =>
    (if kw = "key".toList then
      (match v with
       | .lam ps body => ps.args.length == 1 && cleanId ((ps.args.head?).getD []) && okN true body
       | _ => true)
     else okKeys rn rv)
  | none :: rn, _ :: rv => okKeys rn rv
  | _, _ => true
def okRet' : Node → Bool
  | .seq _ elts _ => okRetL' elts
  | .dict keys vals => okRetL' keys && okRetL' vals
  | .call f args kwn kwv => retCallOk (.call f args kwn kwv)
  | _ => true
def okRetL' : List Node → Bool
  | [] => true
  | e :: r => okRet' e && okN false e && okRetL' r
end

/-- **The shape predicate.** -/
def NoCrashShapeFn (body : List Node) : Bool := okB false body

end Rattr.Crash


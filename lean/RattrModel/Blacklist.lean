/-
  RattrModel.Blacklist — model of `rattr/module_locator/util.py::is_in_import_blacklist`, the one
  helper that decides for every consumer at once (`make_import_symbol`, the import BFS,
  `resolve_import`) whether a module is "configured to be followed" (property C06's precondition):

      if not name:            return True
      if is_in_stdlib(name):  return False
      origins = [__safe_origin(m) for m in derive_module_names_right(name)] + [name]
      return any(re_pattern.fullmatch(origin) for origin in origins
                 for re_pattern in config.re_blacklist_patterns if origin is not None)

  The patterns are Python regular expressions (the `-F` / `--exclude-import` option, toml `exclude-imports`, plugin
  patterns and the perennial `Config.MODULE_BLACKLIST_PATTERNS`).  The model covers the fragment of
  the `re` syntax the perennial patterns are written in: a sequence of atoms, an atom being a literal
  character / an escaped punctuation character / `.`, optionally followed by `?` or `*`.  Everything
  else (classes, groups, alternation, anchors, `+`, `{m,n}`, lazy quantifiers, `\d`…) is outside the
  fragment: `parse` answers `none`, nothing is totalised silently.

  `fullMatch` is `re.Pattern.fullmatch(...) is not None` (language membership of the WHOLE string:
  the code that exists uses `fullmatch`, not `match`/`search`); `prefixMatch` (= `re.match`) is
  defined only to state that the two differ (C06_blacklist_is_fullmatch_*).

  What `is_in_stdlib` and `__safe_origin` answer (isort's `place_module`, the module locator: C13) is
  data (`NameFacts`).
-/
import RattrModel.Basic

namespace Rattr.Blacklist

/-- what one atom accepts -/
inductive CharPat where
  /-- a literal character (written plainly, or as `\c` for a punctuation character) -/
  | lit (c : Char)
  /-- `.` (no `re.DOTALL`: anything but a newline) -/
  | any
  deriving DecidableEq, Repr

inductive Quant where
  | one
  /-- `?` -/
  | opt
  /-- `*` -/
  | star
  deriving DecidableEq, Repr

structure Atom where
  cp : CharPat
  q : Quant
  deriving DecidableEq, Repr

abbrev Pattern := List Atom

def CharPat.ok : CharPat → Char → Bool
  | .lit c, d => c == d
  | .any, d => d != '\n'

/-- `x*` followed by the continuation `k`: zero or more accepted characters, then `k`. -/
def starLoop (ok : Char → Bool) (k : Str → Bool) : Str → Bool
  | [] => k []
  | c :: s => k (c :: s) || (ok c && starLoop ok k s)

/-- `re.compile(p).fullmatch(s) is not None` -/
def fullMatch : Pattern → Str → Bool
  | [], s => s.isEmpty
  | a :: r, s =>
    match a.q with
    | .one =>
      match s with
      | [] => false
      | c :: s' => a.cp.ok c && fullMatch r s'
    | .opt =>
      fullMatch r s ||
        (match s with
         | [] => false
         | c :: s' => a.cp.ok c && fullMatch r s')
    | .star => starLoop a.cp.ok (fullMatch r) s

/-- `re.compile(p).match(s) is not None`: some prefix of `s` is matched entirely. -/
def prefixMatch (p : Pattern) (s : Str) : Bool :=
  (List.range (s.length + 1)).any fun k => fullMatch p (s.take k)

/-- the literal pattern for a string without metacharacters -/
def lits (s : Str) : Pattern := s.map fun c => ⟨.lit c, .one⟩

/-! ### the pattern syntax (fragment) -/

/-- characters that are not literal when written plainly -/
def metaChars : List Char := ['\\', '.', '?', '*', '+', '(', ')', '[', ']', '{', '}', '|', '^', '$']

/-- characters that may start a quantifier -/
def quantChars : List Char := ['?', '*', '+', '{']

/-- `\c` is the literal `c` for ASCII punctuation; `\d`, `\w`, `\b`, `\1`, … are not in the fragment -/
def escapable (c : Char) : Bool :=
  c.toNat < 128 && !(c.isAlphanum) && c != '\n' && c.toNat ≥ 32

def parseCharPat : Str → Option (CharPat × Str)
  | [] => none
  | '\\' :: c :: r => if escapable c then some (.lit c, r) else none
  | '.' :: r => some (.any, r)
  | c :: r => if metaChars.contains c || c == '\n' then none else some (.lit c, r)

def parseQuant : Str → Quant × Str
  | '?' :: r => (.opt, r)
  | '*' :: r => (.star, r)
  | r => (.one, r)

def parseAux : Nat → Str → Option Pattern
  | 0, _ => none
  | _ + 1, [] => some []
  | n + 1, s =>
    match parseCharPat s with
    | none => none
    | some (cp, r) =>
      let (q, r') := parseQuant r
      match r' with
      | c :: _ => if quantChars.contains c then none else (parseAux n r').map (⟨cp, q⟩ :: ·)
      | [] => some [⟨cp, q⟩]

/-- `re.compile(src)` for a source in the fragment; `none` = outside the fragment. -/
def parse (src : Str) : Option Pattern := parseAux (src.length + 1) src

/-! ### `is_in_import_blacklist` -/

/-- the two facts about a name that other components supply -/
structure NameFacts where
  /-- `is_in_stdlib(name)` -/
  inStdlib : Bool
  /-- `[__safe_origin(m) for m in derive_module_names_right(name)]` (`none`: no spec / no origin) -/
  origins : List (Option Str)
  deriving Repr

def matchesAny (ps : List Pattern) (subject : Str) : Bool := ps.any fun p => fullMatch p subject

def isInImportBlacklist (ps : List Pattern) (name : Str) (f : NameFacts) : Bool :=
  if name = [] then true
  else if f.inStdlib then false
  else (f.origins ++ [some name]).any fun o =>
    match o with
    | none => false
    | some s => matchesAny ps s

/-- The `return None` rung of `resolve_import` / the `continue` of the import BFS, as a set: the
existing modules the blacklist stops (what `Resolve.World.ignored` holds when every followed module
is local and `-f` is at its default). -/
def ignoredOf (ps : List Pattern) (facts : Str → NameFacts) (existing : List Str) : List Str :=
  existing.filter fun n => isInImportBlacklist ps n (facts n)

end Rattr.Blacklist

/-
  RattrModel.FnAnalyser — model of `rattr/analyser/function.py::FunctionAnalyser`
  (+ the custom analysers of rattr/plugins/analysers, `CallArguments.from_call`, and the helper
  predicates of rattr/analyser/util.py it uses).

  The visitor is a state-passing function `visit : Node → St → Res`; `error.fatal` is `Res.fatal`,
  every raised Python exception reachable from the input is `Res.crash <exception class>`.
-/
import RattrModel.Ast
import RattrModel.Context
import RattrModel.NodeNaming
import RattrModel.Results

namespace Rattr
open Rattr.Strs

structure CallSym where
  name   : Str
  args   : List Str
  kwargs : List (Str × Str)
  target : Option Sym
  deriving DecidableEq, Repr

structure St where
  ctx   : Context
  gets  : List NameS := []
  sets  : List NameS := []
  dels  : List NameS := []
  calls : List CallSym := []
  diags : List Diag := []
  deriving Repr

inductive Res where
  | ok (s : St)
  | fatal (s : St) (d : Diag)     -- `error.fatal`: the diagnostic is printed, then SystemExit(1)
  | crash (s : St) (exc : Str)    -- unhandled Python exception of class `exc`
  deriving Repr

namespace FnA

def bind (r : Res) (f : St → Res) : Res :=
  match r with
  | .ok s => f s
  | r => r

infixl:55 " >>>= " => bind

def addTo (l : List NameS) (n : NameS) : List NameS := if l.contains n then l else l ++ [n]
def addCall (l : List CallSym) (c : CallSym) : List CallSym := if l.contains c then l else l ++ [c]

def St.diag (s : St) (d : Diag) : St := { s with diags := s.diags ++ [d] }
def St.diagL (s : St) (ds : List Diag) : St := { s with diags := s.diags ++ ds }

/-- lift a naming result into the visitor. -/
def liftName (s : St) (r : NameRes) (k : Str → Str → Res) : Res :=
  match r with
  | .ok b f => k b f
  | .fatal d => .fatal (St.diag s d) d
  | .crash e => .crash s e

structure Env where
  ctxEnv : Context.Env
  /-- `custom analyser` qualified names the plugin table holds (generated). -/
  analysers : List Str
  deriving Repr

/-- `update_results(Name(full, base), ctx)` -/
def updateResults (s : St) (n : NameS) : ECtx → St
  | .store => { s with sets := addTo s.sets n }
  | .load => { s with gets := addTo s.gets n }
  | .del => { s with dels := addTo s.dels n }

/-- `get_and_verify_name(node, ctx)`: names_of(safe=True), warn when undeclared / not a store /
not a literal stand-in. -/
def getAndVerify (s : St) (n : Node) (c : ECtx) (k : St → Str → Str → Res) : Res :=
  liftName s (namesOf true n) fun base full =>
    let undeclared := !Context.contains s.ctx base
    let s := if undeclared && c != .store && !startsWith base ['@']
             then St.diag s (mkDiag .warning "undefined" base) else s
    k s base full

/-! ### `unravel_names` (rattr/ast/util.py; `_get_name = basename_of`, i.e. `names_of(safe=False)`) -/

inductive UR where
  | ok (names : List Str)
  | fatal (d : Diag)
  | crash (exc : Str)

mutual
def unravelNames : Node → UR
  | .seq kind elts _ =>
    if kind = "Tuple".toList || kind = "List".toList then unravelNamesL elts
    else .crash "TypeError".toList
  | n =>
    if n.isNameable then
      match namesOf false n with
      | .ok b _ => .ok [b]
      | .fatal d => .fatal d
      | .crash e => .crash e
    else .crash "TypeError".toList
def unravelNamesL : List Node → UR
  | [] => .ok []
  | n :: r =>
    match unravelNames n with
    | .ok a =>
      match unravelNamesL r with
      | .ok b => .ok (a ++ b)
      | x => x
    | x => x
end

/-- `context.add_identifiers_to_context(target)` -/
def addIdentifiers (s : St) (target : Node) : Res :=
  match unravelNames target with
  | .ok names =>
    .ok { s with ctx := names.foldl (fun c n => Context.add c (Context.nameSym n)) s.ctx }
  | .fatal d => .fatal (St.diag s d) d
  | .crash e => .crash s e

mutual
/-- `unravel_names(node, _get_name=fullname_of)`: the FULL names of the targets. -/
def unravelFullNames : Node → UR
  | .seq kind elts _ =>
    if kind = "Tuple".toList || kind = "List".toList then unravelFullNamesL elts
    else .crash "TypeError".toList
  | n =>
    if n.isNameable then
      match namesOf false n with
      | .ok _ f => .ok [f]
      | .fatal d => .fatal d
      | .crash e => .crash e
    else .crash "TypeError".toList
def unravelFullNamesL : List Node → UR
  | [] => .ok []
  | n :: r =>
    match unravelFullNames n with
    | .ok a =>
      match unravelFullNamesL r with
      | .ok b => .ok (a ++ b)
      | x => x
    | x => x
end

/-- `context.remove_identifiers_from_context(target)`: removal is by FULL name, so `del a.attr` /
`del a[i]` (full names `a.attr`, `a[]`) never unbind `a`. -/
def removeIdentifiers (s : St) (target : Node) : Res :=
  match unravelFullNames target with
  | .ok names => .ok { s with ctx := names.foldl (fun c n => Context.remove c n) s.ctx }
  | .fatal d => .fatal (St.diag s d) d
  | .crash e => .crash s e

def addIdentifiersL (s : St) : List Node → Res
  | [] => .ok s
  | t :: r => addIdentifiers s t >>>= fun s => addIdentifiersL s r

def removeIdentifiersL (s : St) : List Node → Res
  | [] => .ok s
  | t :: r => removeIdentifiers s t >>>= fun s => removeIdentifiersL s r

/-- `context.add_arguments_to_context(arguments)`: every parameter name is added with
`is_argument=True`, so it shadows any outer binding of that name. -/
def addArguments (s : St) (ps : Params) : St :=
  { s with ctx := ps.all.foldl (fun c n => Context.add c (Context.nameSym n) true) s.ctx }

/-! ### call records -/

def funcSym (name : Str) (i : Iface Str) : Sym :=
  { kind := .func, name := withoutCallBrackets name, callable := true, iface := some i }
def clsSym (name : Str) (i : Iface Str) : Sym :=
  { kind := .cls, name := withoutCallBrackets name, callable := true, iface := some i }

def isStarred : Node → Bool
  | .starred .. => true
  | _ => false

/-- `[arg_name(arg) for arg in call.args]`: old namer, safe; a Starred argument is an error. -/
def argNames (s : St) : List Node → (St → List Str → Res) → Res
  | [], k => k s []
  | a :: r, k =>
    let s := if isStarred a then St.diag s (mkDiag .error "starred-arg") else s
    match oldNames true a with
    | .ok _ full => argNames s r (fun s rest => k s (full :: rest))
    | .fatal d => .fatal (St.diag s d) d
    | .crash e => .crash s e

/-- `{kw.arg: kwarg_name(kw) for kw in call.keywords if kw.arg is not None}` -/
def kwargNames (s : St) : List (Option Str) → List Node → (St → List (Str × Str) → Res) → Res
  | some k :: rn, v :: rv, cont =>
    match oldNames true v with
    | .ok _ full => kwargNames s rn rv (fun s rest => cont s ((k, full) :: rest))
    | .fatal d => .fatal (St.diag s d) d
    | .crash e => .crash s e
  | none :: rn, _ :: rv, cont => kwargNames s rn rv cont
  | _, _, cont => cont s []

/-- `Call.from_call(name, call, target, self=…)` -/
def mkCall (s : St) (name : Str) (args : List Node) (kwn : List (Option Str)) (kwv : List Node)
    (target : Option Sym) (self : Option Str) (k : St → CallSym → Res) : Res :=
  argNames s args fun s as =>
    kwargNames s kwn kwv fun s kws =>
      k s { name := withoutCallBrackets name, args := self.toList ++ as, kwargs := kws, target := target }

/-- the method-receiver prefix rule: `a.b.c()` adds gets `a.b` (every proper dotted prefix of the
receiver with ≥ 2 parts). -/
def receiverPrefixes (fullname : Str) : List NameS :=
  let parts := (splitDot (withoutCallBrackets fullname)).dropLast
  match parts with
  | [] => []
  | p0 :: _ =>
    ((List.range parts.length).drop 1).map fun i => ⟨joinDot (parts.take (i + 1)), p0⟩

/-! ### assignment helpers (rattr/analyser/util.py) -/

def isTupleOrList : Node → Bool
  | .seq k _ _ => k = "Tuple".toList || k = "List".toList
  | _ => false

def seqElts : Node → List Node
  | .seq _ e _ => e
  | _ => []

def isLambda : Node → Bool
  | .lam .. => true
  | _ => false

def isWalrus : Node → Bool
  | .walrus .. => true
  | _ => false

/-- `assignment_is_one_to_one(node)` given targets and value. -/
def oneToOne (targets : List Node) (value : Node) : Bool :=
  !(targets.length > 1 || targets.any isTupleOrList) && !isTupleOrList value

def lambdaInRhs (value : Node) : Bool :=
  isLambda value || (isTupleOrList value && (seqElts value).any isLambda)

def targetIsNamedtuple : Node → Bool
  | .call f _ _ _ =>
    match oldNames true f with
    | .ok _ name => name = "namedtuple".toList || endsWith name ".namedtuple".toList
    | _ => false
  | _ => false

def namedtupleInRhs (value : Node) : Bool :=
  match value with
  | .call .. => targetIsNamedtuple value
  | _ => isTupleOrList value && (seqElts value).any targetIsNamedtuple

/-- `str.isidentifier()` restricted to ASCII (letters, digits, underscore; not starting with a
digit; non-empty). Non-ASCII identifiers are outside the modelled fragment. -/
def isIdentifier (s : Str) : Bool :=
  match s with
  | [] => false
  | c :: _ => !c.isDigit && s.all (fun ch => ch.isAlphanum || ch = '_')

def splitSpaceAux : List Char → Str → List Str
  | [], cur => [cur.reverse]
  | c :: r, cur => if c = ' ' then cur.reverse :: splitSpaceAux r [] else splitSpaceAux r (c :: cur)

/-- `namedtuple_init_signature_from_declaration`: `ok attrs` or the error message id. -/
def namedtupleSignature (args : List Node) : Except Str (List Str) :=
  match args with
  | [_, second] =>
    match second with
    | .seq k elts _ =>
      if k = "List".toList then
        let strs := elts.filterMap (fun e => match e with | .strConst s => some s | _ => none)
        if strs.length = elts.length then .ok ("self".toList :: strs)
        else .error "namedtuple-invalid-second".toList
      else .error "namedtuple-invalid-second".toList
    | .strConst s =>
      if s = [] then .ok ["self".toList]
      else
        let parts := splitSpaceAux s []
        if parts.all isIdentifier then .ok ("self".toList :: parts)
        else .error "namedtuple-invalid-second".toList
    | .const => .error "namedtuple-invalid-second".toList
    | _ => .error "namedtuple-invalid-second".toList
  | _ => .error "namedtuple-invalid-signature".toList

def isCallOnCall : Node → Bool
  | .call (.call ..) _ _ _ => true
  | _ => false

def symIsClass : Option Sym → Bool
  | some s => s.kind == .cls
  | none => false

inductive BoolRes where
  | ok (b : Bool)
  | fatal (d : Diag)
  | crash (exc : Str)

/-- `expr_is_class(expr)` of `class_in_rhs`: old-namer spelling, `get_call_target(warn=False)`. -/
def exprIsClass (env : Env) (c : Context) (e : Node) : BoolRes :=
  match oldNames true e with
  | .ok _ full => .ok (symIsClass (Context.getCallTarget env.ctxEnv c full (isCallOnCall e) false).1)
  | .fatal d => .fatal d
  | .crash x => .crash x

/-- `any(expr_is_class(e) for e in elts if ...)`: short-circuits at the first class. -/
def anyIsClass (env : Env) (c : Context) : List Node → BoolRes
  | [] => .ok false
  | e :: r =>
    match exprIsClass env c e with
    | .ok true => .ok true
    | .ok false => anyIsClass env c r
    | x => x

/-- `class_in_rhs(node, context)`; may crash/fatal through the old namer. -/
def classInRhs (env : Env) (c : Context) (value : Node) : BoolRes :=
  match value with
  | .call .. => exprIsClass env c value
  | .seq kind elts _ =>
    if kind = "Tuple".toList || kind = "List".toList then anyIsClass env c elts else .ok false
  | _ => .ok false

/-- which custom analyser (by qualified name) handles this call target, if any:
`plugins.get_analyser(target_symbol, modulename=…)`. -/
def analyserFor (env : Env) (modulename : Str) : Option Sym → Option Str
  | none => none
  | some t =>
    let q := match t.kind with
      | .builtin => t.name
      | .import_ => t.qual
      | _ => modulename ++ '.' :: t.name
    if env.analysers.contains q then some q else none

/-- `Name(name)` with the default basename. -/
def nameDefault (n : Str) : NameS := ⟨n, basenameFromName n⟩

/-- `iter_lhs_names`: every proper dotted prefix, longest first. -/
def lhsNames (full : Str) : List NameS :=
  let parts := splitDot full
  ((List.range parts.length).drop 1).map fun off => nameDefault (joinDot (parts.take (parts.length - off)))

/-- `get_dynamic_name(fn, call, "{first}.{second}")` via `get_xattr_obj_name_pair(warn=True)`. -/
def dynamicName (s : St) (fn : Str) (args : List Node) (k : St → NameS → Res) : Res :=
  match args with
  | _ :: attrArg :: _ =>
    let s := match attrArg with
      | .strConst _ => s
      | _ => St.diag s (mkDiag .error "xattr-not-literal" fn)
    match xattrPairOld fn args with
    | .ok first second =>
      let base0 := ((splitDot first).head?).getD []
      let base := replaceAll (replaceAll (removeChar base0 '*') (lit "[]") []) (lit "()") []
      k s ⟨first ++ '.' :: second, base⟩
    | .fatal d => .fatal (St.diag s d) d
    | .crash e => .crash s e
  | _ => let d := mkDiag .fatal "xattr-too-few-old" fn; .fatal (St.diag s d) d

def unionN (a b : List NameS) : List NameS := b.foldl addTo a
def unionC (a b : List CallSym) : List CallSym := b.foldl addCall a

/-- merge the IR part of `t` into `s` (context and diagnostics are taken from `t`: the analysers
share the context object and the global diagnostic stream). -/
def mergeIr (s t : St) : St :=
  { t with gets := unionN s.gets t.gets, sets := unionN s.sets t.sets, dels := unionN s.dels t.dels,
           calls := unionC s.calls t.calls }

def freshIr (s : St) : St := { s with gets := [], sets := [], dels := [], calls := [] }

/-- A sub-analyser (fresh `func_ir`) that ends in `error.fatal` / an exception never hands its IR
back: what remains observable is the OUTER analyser's IR (plus every diagnostic emitted so far). -/
def protect (outer : St) (r : Res) : Res :=
  let keep (t : St) : St := { t with gets := outer.gets, sets := outer.sets, dels := outer.dels, calls := outer.calls }
  match r with
  | .ok t => .ok t
  | .fatal t d => .fatal (keep t) d
  | .crash t e => .crash (keep t) e

/-- `unbind_ir_with_call_swaps(ir, {iterator: iterable})` on the visitor state; `none` = the
`ValueError("never")`. -/
def unbindSt (s : St) (iterator iterable : Str) : Option St :=
  let sw : Dict Str Str := [(iterator, iterable)]
  match Results.unbindList sw s.gets, Results.unbindList sw s.sets, Results.unbindList sw s.dels with
  | some g, some st, some d => some { s with gets := g, sets := st, dels := d }
  | _, _, _ => none

def defaultdictNamed (env : Env) (factory : Node) (s : St) : Res :=
  liftName s (namesOf false factory) fun _ name =>
    let (target, ds) := Context.getCallTarget env.ctxEnv s.ctx name false true
    let s := St.diagL s ds
    .ok { s with calls := addCall s.calls { name := withoutCallBrackets name, args := [], kwargs := [], target := target } }

/-- `visit_With`: register every item's optional_vars first. -/
def withRegister : List Node → St → Res
  | [], s => .ok s
  | .withitem _ vars :: r, s => addIdentifiersL s vars >>>= fun s => withRegister r s
  | _ :: r, s => withRegister r s

/-- outcome of the assignment diversions of `visit_AnyAssign`: either the statement was fully
handled, or the caller continues with `generic_visit`. -/
inductive AssignOut where
  | done (r : Res)
  | generic (s : St)

/-! ### the visitor -/

mutual

def visit (env : Env) (mn : Str) : Node → St → Res
  | .name id c, s =>
    getAndVerify s (.name id c) c fun s base full => .ok (updateResults s ⟨full, base⟩ c)
  | .attr v a c, s =>
    -- visit_compound_name
    getAndVerify s (.attr v a c) c fun s base full =>
      (if !v.isNameable then visit env mn v s else .ok s) >>>= fun s => .ok (updateResults s ⟨full, base⟩ c)
  | .sub v sl c, s =>
    -- visit_compound_name
    getAndVerify s (.sub v sl c) c fun s base full =>
      (if !v.isNameable then visit env mn v s else .ok s) >>>= fun s => .ok (updateResults s ⟨full, base⟩ c)
  | .starred v c, s =>
    -- visit_compound_name
    getAndVerify s (.starred v c) c fun s base full =>
      (if !v.isNameable then visit env mn v s else .ok s) >>>= fun s => .ok (updateResults s ⟨full, base⟩ c)
  | .call f args kwn kwv, s =>
    -- visit_Call
    let node := Node.call f args kwn kwv
    -- custom_analyser_for_target(node, context)
    liftName s (targetNameNoUnravel node) fun _ targetName =>
      let tsym := (Context.getCallTarget env.ctxEnv s.ctx targetName (isCallOnCall node) false).1
      match analyserFor env mn tsym with
      | some q =>
        -- visit_call_to_target_with_custom_analyser: the IR returned by `on_call` is merged
        if q = "getattr".toList || q = "hasattr".toList then
          dynamicName s targetName args fun s full =>
            .ok { s with gets := (full :: lhsNames full.full).foldl addTo s.gets }
        else if q = "setattr".toList then
          dynamicName s targetName args fun s full =>
            .ok { s with gets := (lhsNames full.full).foldl addTo s.gets, sets := addTo s.sets full }
        else if q = "delattr".toList then
          dynamicName s targetName args fun s full =>
            .ok { s with gets := (lhsNames full.full).foldl addTo s.gets, dels := addTo s.dels full }
        else if q = "sorted".toList then
          match args with
          | [] => .ok s
          | a0 :: _ =>
            -- a fresh FunctionAnalyser over the SAME context object
            protect s (visit env mn a0 (freshIr s) >>>= fun t =>
              visitSortedKey env mn (namesOf true a0) kwn kwv t) >>>= fun t => .ok (mergeIr s t)
        else if q = "collections.defaultdict".toList then
          match args with
          | [] => .ok s
          | factory :: _ =>
            match factory with
            | .lam ps body =>
              -- FunctionAnalyser(lambda, ctx).analyse()
              let t := addArguments { (freshIr s) with ctx := Context.push s.ctx } ps
              protect s (visit env mn body t) >>>= fun t => .ok (mergeIr s { t with ctx := Context.pop t.ctx })
            | .name id c => defaultdictNamed env (.name id c) s
            | .attr v a c => defaultdictNamed env (.attr v a c) s
            | e =>
              let t := { (freshIr s) with ctx := Context.push s.ctx }
              protect s (visit env mn e t) >>>= fun t => .ok (mergeIr s { t with ctx := Context.pop t.ctx })
        else .ok s
      | none =>
        getAndVerify s node .load fun s _ fullname =>
          let (target, ds) := Context.getCallTarget env.ctxEnv s.ctx fullname (isCallOnCall node) true
          let s := St.diagL s ds
          let (s, selfName) : St × Option Str :=
            match target with
            | some t =>
              if t.kind == .cls then (St.diag s (mkDiag .warning "class-not-stored" t.name), some ('@' :: t.name))
              else (s, none)
            | none => (s, none)
          let s := { s with gets := (receiverPrefixes fullname).foldl addTo s.gets }
          mkCall s fullname args kwn kwv target selfName fun s call =>
            let s := { s with calls := addCall s.calls call }
            visitList env mn args s >>>= fun s => visitList env mn kwv s
  | .lam ps body, s =>
    -- anonymous lambda: error, new scope with the parameters, visit the body
    let s := St.diag s (mkDiag .error "anon-lambda")
    let s := addArguments { s with ctx := Context.push s.ctx } ps
    visit env mn body s >>>= fun s => .ok { s with ctx := Context.pop s.ctx }
  | .comp _ elts gens, s =>
    let s := { s with ctx := Context.push s.ctx }
    visitList env mn gens s >>>= fun s =>
    visitList env mn elts s >>>= fun s => .ok { s with ctx := Context.pop s.ctx }
  | .gen target iter ifs, s =>
    addIdentifiers s target >>>= fun s =>
    visit env mn target s >>>= fun s =>
    visit env mn iter s >>>= fun s => visitList env mn ifs s
  | .walrus t v, s =>
    -- visit_NamedExpr: sets.add(Name(*names_of(target)))  [positional: name := base, basename := full]
    liftName s (namesOf false t) fun base full =>
      let s := { s with sets := addTo s.sets ⟨base, full⟩ }
      (if lambdaInRhs v then visit env mn v s else .ok s) >>>= fun s =>
      match assignDiv env mn [t] v s with
      | .done r => r
      | .generic s => visit env mn t s >>>= fun s => visit env mn v s
  | .strConst _, s => .ok s
  | .const, s => .ok s
  | .seq _ elts _, s => visitList env mn elts s
  | .dict keys vals, s => visitList env mn keys s >>>= fun s => visitList env mn vals s
  | .assign targets v, s =>
    match assignDiv env mn targets v s with
    | .done r => r
    | .generic s => visitList env mn targets s >>>= fun s => visit env mn v s
  | .annAssign t ann v, s =>
    match v with
    | [] =>
      -- `node.value is None`: every *_in_rhs helper is False; register, then generic_visit
      addIdentifiers s t >>>= fun s => visit env mn t s >>>= fun s => visit env mn ann s
    | v0 :: _ =>
      match assignDiv env mn [t] v0 s with
      | .done r => r
      | .generic s => visit env mn t s >>>= fun s => visit env mn ann s >>>= fun s => visit env mn v0 s
  | .augAssign t v, s =>
    match assignDiv env mn [t] v s with
    | .done r => r
    | .generic s => visit env mn t s >>>= fun s => visit env mn v s
  | .delete targets, s =>
    -- visit_Delete: generic_visit first, then unbind
    visitList env mn targets s >>>= fun s => removeIdentifiersL s targets
  | .forLoop t iter body orelse, s =>
    addIdentifiers s t >>>= fun s =>
    visit env mn t s >>>= fun s => visit env mn iter s >>>= fun s =>
    visitList env mn body s >>>= fun s => visitList env mn orelse s
  | .withStmt items body, s =>
    withRegister items s >>>= fun s =>
    visitList env mn items s >>>= fun s => visitList env mn body s
  | .withitem ce vars, s => visit env mn ce s >>>= fun s => visitList env mn vars s
  | .funcDef name ps body, s =>
    let s := St.diag s (mkDiag .error "nested-function")
    let s := { s with ctx := Context.add s.ctx (funcSym name ps.iface) }
    let s := addArguments { s with ctx := Context.push s.ctx } ps
    visitList env mn body s >>>= fun s => .ok { s with ctx := Context.pop s.ctx }
  | .classDef _, s => .ok (St.diag s (mkDiag .error "nested-class"))
  | .ret v, s =>
    match v with
    | [] => .ok s
    | v0 :: _ => visitReturnValue env mn v0 s fun s handled => if handled then .ok s else visit env mn v0 s
  | .forbidden kind, s =>
    let d := mkDiag .fatal "forbidden" kind
    .fatal (St.diag s d) d
  | .other _ kids, s => visitList env mn kids s

def visitList (env : Env) (mn : Str) : List Node → St → Res
  | [], s => .ok s
  | n :: r, s => visit env mn n s >>>= fun s => visitList env mn r s

/-- the `key=` keyword of `sorted` (keyword names are unique in valid Python). -/
def visitSortedKey (env : Env) (mn : Str) (iterableR : NameRes) :
    List (Option Str) → List Node → St → Res
  | some k :: rn, v :: rv, t =>
    if k = "key".toList then
      match v with
      | .lam ps body =>
        if ps.args.length != 1 then .crash t "SyntaxError".toList
        else
          let iterator := (ps.args.head?).getD []
          liftName t iterableR fun _ iterable =>
            let lamCtx := Context.add (Context.push t.ctx) (Context.nameSym iterator) true
            protect t (visit env mn body { (freshIr t) with ctx := lamCtx }) >>>= fun l =>
            match unbindSt l iterator iterable with
            | none => .crash l "ValueError".toList
            | some l => .ok (mergeIr t { l with ctx := t.ctx })   -- the lambda's child Context is discarded
      | kv => visit env mn kv t
    else visitSortedKey env mn iterableR rn rv t
  | none :: rn, _ :: rv, t => visitSortedKey env mn iterableR rn rv t
  | _, _, t => .ok t

/-- the three diversions of `visit_AnyAssign(node)` (lambda / namedtuple / class instance on the
right-hand side); `generic` = register the targets' identifiers, then the caller generic-visits. -/
def assignDiv (env : Env) (mn : Str) (targets : List Node) : Node → St → AssignOut
  | value, s =>
    if lambdaInRhs value then
      -- visit_LambdaAssign
      if !oneToOne targets value then
        let d := mkDiag .fatal "lambda-one-to-one"; .done (.fatal (St.diag s d) d)
      else
        let s := St.diag s (mkDiag .error "lambda-in-function")
        match targets, value with
        | t :: _, .lam ps _ =>
          .done (liftName s (namesOf false t) fun _ name =>
            .ok { s with ctx := Context.add s.ctx (funcSym name ps.iface) })
        | _, _ => let d := mkDiag .fatal "lambda-missing"; .done (.fatal (St.diag s d) d)
    else if namedtupleInRhs value then
      if !oneToOne targets value then
        let d := mkDiag .fatal "namedtuple-one-to-one"; .done (.fatal (St.diag s d) d)
      else
        match targets, value with
        | t :: _, .call _ args _ _ =>
          .done (liftName s (namesOf false t) fun _ name =>
            match namedtupleSignature args with
            | .error e => .ok (St.diag s ⟨.error, e, []⟩)
            | .ok attrs =>
              .ok { s with ctx := Context.add s.ctx (clsSym name ⟨[], attrs, none, [], none⟩) })
        | _, _ => .done (.crash s "TypeError".toList)
    else
      match classInRhs env s.ctx value with
      | .fatal d => .done (.fatal (St.diag s d) d)
      | .crash e => .done (.crash s e)
      | .ok false =>
        match addIdentifiersL s targets with
        | .ok s => .generic s
        | r => .done r
      | .ok true =>
        -- visit_ClassAssign
        if !oneToOne targets value then
          let d := mkDiag .fatal "class-one-to-one"; .done (.fatal (St.diag s d) d)
        else
          match targets, value with
          | t :: _, .call f args kwn kwv =>
            .done (liftName s (namesOf false t) fun lhsBase lhsName =>
              liftName s (namesOf false (.call f args kwn kwv)) fun _ className =>
                let (init, ds) := Context.getCallTarget env.ctxEnv s.ctx className false true
                let s := St.diagL s ds
                mkCall s className args kwn kwv init (some lhsName) fun s call =>
                  let s := { s with calls := addCall s.calls call, sets := addTo s.sets ⟨lhsName, lhsBase⟩ }
                  addIdentifiersL s targets >>>= fun s =>
                  visitList env mn args s >>>= fun s => visitList env mn kwv s)
          | _, _ => .done (.crash s "RuntimeError".toList)

/-- `visit_ReturnValue(node)`; continuation gets `handled`. -/
def visitReturnValue (env : Env) (mn : Str) : Node → St → (St → Bool → Res) → Res
  | .seq _ elts _, s, k => visitReturnElts env mn elts s >>>= fun s => k s true
  | .dict keys vals, s, k =>
    visitReturnElts env mn keys s >>>= fun s => visitReturnElts env mn vals s >>>= fun s => k s true
  | .call f args kwn kwv, s, k =>
    let node := Node.call f args kwn kwv
    if xattrBuiltins.any (fun x => isCallTo x node) then k s false
    else
      liftName s (namesOf true node) fun _ full =>
        let tgt := (Context.getCallTarget env.ctxEnv s.ctx full (isCallOnCall node) false).1
        if !symIsClass tgt then k s false
        else
          liftName s (namesOf false node) fun _ className =>
            let (init, ds) := Context.getCallTarget env.ctxEnv s.ctx className (isCallOnCall node) true
            let s := St.diagL s ds
            mkCall s className args kwn kwv init (some "@ReturnValue".toList) fun s call =>
              let s := { s with calls := addCall s.calls call }
              visitList env mn args s >>>= fun s => visitList env mn kwv s >>>= fun s => k s true
  | _, s, k => k s false

def visitReturnElts (env : Env) (mn : Str) : List Node → St → Res
  | [], s => .ok s
  | e :: r, s =>
    visitReturnValue env mn e s (fun s handled => if handled then .ok s else visit env mn e s) >>>= fun s =>
    visitReturnElts env mn r s

end -- mutual

/-- `FunctionAnalyser(fn, context).analyse()`: new scope, parameters, body. -/
def analyse (env : Env) (mn : Str) (root : Context) (ps : Params) (body : List Node) : Res :=
  let s : St := addArguments { ctx := Context.push root } ps
  visitList env mn body s >>>= fun s => .ok { s with ctx := Context.pop s.ctx }

end FnA
end Rattr

/-
  RattrModel.FnVisitSites — the places of `rattr/analyser/function.py` (and `rattr/ast/types.py`) that decide
  WHICH sub-expressions of a node the visitor reaches and in which order, as the model
  (`RattrModel/FnAnalyser.lean`) transcribes them. Tie A (py/tables/t_c17.py → Generated.C17) regenerates the
  same tables from the source on every run; `RattrProofs/Props/C17.lean` proves them equal.
-/
namespace Rattr.FnSites

/-- `rattr.ast.types.AstNodeWithName` (class names): `Node.isNameable`. A chain link whose value is NOT one of
these has that value visited by `visit_compound_name` — a walrus (`NamedExpr`) is not among them. -/
def nameableClasses : List String := ["Name", "Attribute", "Subscript", "Starred", "Call"]

/-- every `for` loop in a method of `FunctionAnalyser`: (method, target, iterable, body statements). These are the
hand-written traversals: `visitList env mn args s >>>= visitList env mn kwv` in `visit` (.call), `assignDiv`
(visit_ClassAssign) and `visitReturnValue` are the three `(*….args, *….keywords)` loops. -/
def visitLoops : List (String × String × String × List String) := [
  ("analyse", "stmt", "get_function_body(self.ast)", ["self.visit(stmt)"]),
  ("visit_Call", "attr", "list(accumulate(parts, lambda a, b: f'{a}.{b}'))[1:]",
    ["self.func_ir['gets'].add(Name(attr, parts[0], token=node))"]),
  ("visit_Call", "arg", "(*node.args, *node.keywords)", ["self.visit(arg)"]),
  ("visit_ClassAssign", "target", "targets", ["self.context.add_identifiers_to_context(target)"]),
  ("visit_ClassAssign", "arg", "(*node.value.args, *node.value.keywords)", ["self.visit(arg)"]),
  ("visit_AnyAssign", "target", "targets", ["self.context.add_identifiers_to_context(target)"]),
  ("visit_Delete", "target", "node.targets", ["self.context.remove_identifiers_from_context(target)"]),
  ("visit_With", "item", "node.items",
    ["if not item.optional_vars: ;     continue", "self.context.add_identifiers_to_context(item.optional_vars)"]),
  ("visit_AsyncWith", "item", "node.items",
    ["if not item.optional_vars: ;     continue", "self.context.add_identifiers_to_context(item.optional_vars)"]),
  ("visit_AnyFunctionDef", "stmt", "get_function_body(node)", ["self.visit(stmt)"]),
  ("_visit_any_comprehension_or_generator_expr", "comprehension", "node.generators", ["self.visit(comprehension)"]),
  ("_visit_any_comprehension_or_generator_expr", "name", "names", ["self.visit(name)"]),
  ("visit_comprehension", "expr", "(node.target, node.iter, *node.ifs)", ["self.visit(expr)"]),
  ("visit_ReturnValue", "elt", "node.elts",
    ["handled = self.visit_ReturnValue(elt)", "if not handled: ;     self.visit(elt)"]),
  ("visit_ReturnValue", "elt", "(*node.keys, *node.values)",
    ["handled = self.visit_ReturnValue(elt)", "if not handled and elt is not None: ;     self.visit(elt)"]),
  ("visit_ReturnValue", "arg", "(*node.args, *node.keywords)", ["self.visit(arg)"])]

/-- the statements (ast.unparse, docstring dropped) of the three methods that decide whether a load warns and
whether the value under a chain link / the walrus is visited: `getAndVerify`, `visit` (.attr / .sub / .starred),
`visit` (.walrus). -/
def nameSiteBodies : List (String × List String) := [
  ("get_and_verify_name", ["config = Config()", "base, full = names_of(node, safe=True)",
    "is_undeclared = base not in self.context", "is_assignment = isinstance(ctx, ast.Store)",
    "is_literal = base.startswith(config.LITERAL_VALUE_PREFIX)",
    "if is_undeclared and (not is_assignment) and (not is_literal): ;     error.warning(f'{base!r} potentially undefined', node)",
    "return (base, full)"]),
  ("visit_compound_name", ["basename, fullname = self.get_and_verify_name(node, node.ctx)",
    "if not isinstance(node.value, AstNodeWithName): ;     self.visit(node.value)",
    "self.update_results(Name(fullname, basename, token=node), node.ctx)"]),
  ("visit_NamedExpr", ["self.func_ir['sets'].add(Name(*names_of(node.target), token=node))",
    "if lambda_in_rhs(node): ;     self.visit(node.value)", "self.visit_AnyAssign(node)"])]

end Rattr.FnSites

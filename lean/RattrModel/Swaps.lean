/-
  RattrModel.Swaps — model of `rattr/results/_simplify_utils.py::construct_call_swaps`
  (stage S6, property C04).

  Parameter names and argument spellings are opaque identifiers of one type `α` (Python: `str`);
  the two stand-ins `@Tuple` / `@Dict` are ordinary values of that type, passed in `StandIns`,
  because in the code they are ordinary strings that an argument spelling may coincide with.
-/
import RattrModel.Basic

namespace Rattr

/-- `CallInterface` (rattr/models/symbol/_symbol.py). -/
structure Iface (α : Type) where
  posonly : List α
  args    : List α
  vararg  : Option α
  kwonly  : List α
  kwarg   : Option α
  deriving Repr, DecidableEq

/-- `CallInterface.all` -/
def Iface.all {α : Type} (i : Iface α) : List α :=
  i.posonly ++ i.args ++ i.vararg.toList ++ i.kwonly ++ i.kwarg.toList

/-- `CallArguments`: positional spellings in order, keyword spellings as an insertion-ordered
dict (keys unique by construction in Python). -/
structure CallArgs (α : Type) where
  args   : List α
  kwargs : List (α × α)
  deriving Repr, DecidableEq

structure StandIns (α : Type) where
  tuple : α
  dict  : α

/-- The four diagnostics `construct_call_swaps` can emit (all `error.error`, default badness). -/
inductive SwapDiag (α : Type) where
  | posonlyShort                      -- "expected n posonlyargs but only received m"
  | tooManyPositional                 -- "received too many positional arguments"
  | unexpectedKeywords (ks : List α)  -- "received unexpected keyword arguments: [...]"
  | byPositionAndName (ks : List α)   -- "received the arguments [...] by position and name"
  deriving Repr, DecidableEq

namespace Swaps
variable {α : Type} [DecidableEq α]

/-- First loop. `none` = the early `return {}` (not enough positionals for the positional-only
parameters). Otherwise the swaps so far and the remaining call args. -/
def bindPosonly : List α → List α → Dict α α → Option (Dict α α × List α)
  | [], cargs, sw => some (sw, cargs)
  | _ :: _, [], _ => none
  | p :: ps, a :: as, sw => bindPosonly ps as (Dict.set sw p a)

/-- Second loop: pair remaining `args` parameters with remaining positionals. Returns swaps,
unconsumed interface args, unconsumed call args. -/
def bindArgs : List α → List α → Dict α α → Dict α α × List α × List α
  | [], cargs, sw => (sw, [], cargs)
  | ps, [], sw => (sw, ps, [])
  | p :: ps, a :: as, sw => bindArgs ps as (Dict.set sw p a)

/-- State threaded through the keyword loop. -/
structure KwState (α : Type) where
  swaps      : Dict α α
  args       : List α      -- interface.args not yet consumed
  kwonly     : List α      -- interface.kwonlyargs not yet consumed
  unexpected : List α
  byPosName  : List α

def kwStep (si : StandIns α) (kwarg : Option α) (all : List α)
    (s : KwState α) (kv : α × α) : KwState α :=
  let target := kv.1
  let repl := kv.2
  let s := if Dict.contains s.swaps target then { s with byPosName := s.byPosName ++ [target] } else s
  if target ∈ s.args then
    { s with args := removeFirst s.args target, swaps := Dict.set s.swaps target repl }
  else if target ∈ s.kwonly then
    { s with kwonly := removeFirst s.kwonly target, swaps := Dict.set s.swaps target repl }
  else match kwarg with
    | some k => { s with swaps := Dict.set s.swaps k si.dict }
    | none =>
      if target ∉ all then { s with unexpected := s.unexpected ++ [target] } else s

/-- `construct_call_swaps(func, call)`: returns the swaps dict and the diagnostics in emission
order. -/
def construct (si : StandIns α) (f : Iface α) (c : CallArgs α) : Dict α α × List (SwapDiag α) :=
  match bindPosonly f.posonly c.args [] with
  | none => ([], [SwapDiag.posonlyShort])
  | some (sw, cargs) =>
    let (sw, iargs, cargs) := bindArgs f.args cargs sw
    let (sw, cargs) := match f.vararg with
      | some v => (Dict.set sw v si.tuple, [])
      | none => (sw, cargs)
    let d1 := if cargs ≠ [] then [SwapDiag.tooManyPositional] else []
    let st := c.kwargs.foldl (kwStep si f.kwarg f.all)
      { swaps := sw, args := iargs, kwonly := f.kwonly, unexpected := [], byPosName := [] }
    let d2 := if st.unexpected ≠ [] then [SwapDiag.unexpectedKeywords st.unexpected] else []
    let d3 := if st.byPosName ≠ [] then [SwapDiag.byPositionAndName st.byPosName] else []
    (st.swaps, d1 ++ d2 ++ d3)

end Swaps
end Rattr

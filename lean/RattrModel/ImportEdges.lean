/-
  RattrModel.ImportEdges — WHERE the edges of the import graph come from (stage S2/S3, property C12).

  `Imports.bfs` walks a graph whose edges (`Imp.target`) were, until now, parameters computed per
  case by rattr's real locator. This module models how rattr computes them from the import
  STATEMENT and the FILE the statement is written in:

    * `rattr/models/context/_root_context.py::visit_named_import` / `visit_relative_import`:
      `Import.qualified_name` = `module` (`import a.b`), `f"{module}.{name}"` (`from a.b import f`),
      `f"{derive_absolute_module_name(base, node.module, node.level)}.{name}"` (`from ..x import f`),
      with `base = derive_module_name_from_path(current_file)`;
    * `rattr/module_locator/util.py::derive_absolute_module_name` (`Locator.deriveAbs`: the
      `__init__.py` adjustment `level -= 1`, then `base.split(".")[:-level]`);
    * `rattr/models/symbol/_symbols.py::Import.module_name` = `find_module_name_and_spec(qualified)[0]`:
      the first of `qualified`, `qualified` minus its last component, … that exists
      (`iter_module_names_right`); nothing for a name starting with ".".

  What stays a parameter: which dotted names exist (`ex` — `find_module_spec_fast(...) is not None`;
  the harness supplies the module names of the generated project BY CONSTRUCTION), the name of the
  importing file (`Src.base`, C13 proves the round trip path → name) and, per statement,
  `is_in_import_blacklist(declared module)`.

  Spec side (independent of the algorithm): `importlib.util.resolve_name` on the importing file's
  package (`Spec.pyResolveName ∘ Spec.packageOf`) and "longest prefix that exists, found left to
  right" (`Spec.longestPrefix`).
-/
import RattrModel.Locator
import RattrModel.Imports
import RattrModel.Spec.ResolveName
import RattrModel.Strs

namespace Rattr.Edges
open Rattr Rattr.Locator Rattr.Imports

/-- One alias of an import statement, as far as the `Import` symbol it creates is concerned. -/
structure Stmt where
  /-- number of leading dots; 0 = absolute -/
  level  : Nat
  /-- the dotted module part (`None` for `from .. import x`) -/
  module : Option Dotted
  /-- the imported name; `none` for `import a.b` -/
  name   : Option Str
  /-- parameter: `is_in_import_blacklist(<module named in the statement>)` -/
  declBl : Bool
  deriving Repr, DecidableEq

/-- The file a statement is written in, as the import visitors see it. -/
structure Src where
  /-- `derive_module_name_from_path(Config().state.current_file)` -/
  base   : Dotted
  /-- `Config().state.current_file.name == "__init__.py"` -/
  isInit : Bool
  deriving Repr, DecidableEq

/-- The module part of `Import.qualified_name`: as written (absolute) or
`derive_absolute_module_name(base, node.module, node.level)`. -/
def moduleOf (f : Src) (s : Stmt) : Dotted :=
  if s.level = 0 then s.module.getD [] else deriveAbs f.isInit f.base s.module s.level

/-- `Import.qualified_name` -/
def qualified (f : Src) (s : Stmt) : Dotted :=
  match s.name with
  | none => moduleOf f s
  | some n => moduleOf f s ++ [n]

/-- `Import.module_name` = `find_module_name_and_spec(qualified)[0]`; `ex n` = `find_module_spec_fast(n)`
finds something. -/
def moduleName (ex : Dotted → Bool) (q : Dotted) : Option Dotted :=
  if startsWithDot q then none else (iterModuleNamesRight q).find? ex

/-- The `Imp` the BFS enqueues for the statement. -/
def impOf (ex : Dotted → Bool) (f : Src) (s : Stmt) : Imp Dotted :=
  { target := moduleName ex (qualified f s), declBlacklisted := s.declBl }

/-! ### Spec: what Python does with the same statement -/

/-- The module the statement names, by CPython's rule (`importlib.util.resolve_name` on the package of
the importing file for a relative statement), plus the imported name. -/
def pyQualified (f : Src) (s : Stmt) : Except Spec.ResolveErr Dotted :=
  let m : Except Spec.ResolveErr Dotted :=
    if s.level = 0 then .ok (s.module.getD [])
    else Spec.pyResolveName (Spec.packageOf f.base f.isInit) s.level s.module
  match m with
  | .error e => .error e
  | .ok m => .ok (match s.name with | none => m | some n => m ++ [n])

/-- The module reached: the longest existing prefix of the qualified name; nothing when Python
refuses the statement. -/
def pyTarget (ex : Dotted → Bool) (f : Src) (s : Stmt) : Option Dotted :=
  match pyQualified f s with
  | .ok q => Spec.longestPrefix ex q
  | .error _ => none

def pyImpOf (ex : Dotted → Bool) (f : Src) (s : Stmt) : Imp Dotted :=
  { target := pyTarget ex f s, declBlacklisted := s.declBl }

/-- The statements the theorems speak about (decidable, evaluated by the driver on every generated
statement): Python resolves it to a non-empty name whose first component is non-empty — or Python
refuses it and it is a `from <dots>… import name` written in a file that has a name. -/
def wf (f : Src) (s : Stmt) : Bool :=
  match pyQualified f s with
  | .ok q => decide (q ≠ []) && !startsWithDot q
  | .error _ => decide (1 ≤ s.level) && s.name.isSome && decide (f.base ≠ [])

/-! ### The graph of a project -/

/-- One module of a project: its file identity, the per-module parameters of `Imports.Module`, and
its import statements (one entry per alias, in symbol-table order). -/
structure PFile (ω : Type) where
  src         : Src
  origin      : Option ω
  readable    : Bool
  blacklisted : Bool
  inPip       : Bool
  inStdlib    : Bool
  excluded    : Bool
  stmts       : List Stmt
  deriving Repr, DecidableEq

variable {ω : Type}

/-- The module as rattr sees it: edges by `deriveAbs` + right-to-left prefix search. -/
def toModule (ex : Dotted → Bool) (p : PFile ω) : Module Dotted ω :=
  { name := p.src.base, origin := p.origin, readable := p.readable, blacklisted := p.blacklisted,
    inPip := p.inPip, inStdlib := p.inStdlib, excluded := p.excluded,
    imports := p.stmts.map (impOf ex p.src) }

/-- The module as Python sees it: edges by `resolve_name` + longest existing prefix. -/
def toPyModule (ex : Dotted → Bool) (p : PFile ω) : Module Dotted ω :=
  { name := p.src.base, origin := p.origin, readable := p.readable, blacklisted := p.blacklisted,
    inPip := p.inPip, inStdlib := p.inStdlib, excluded := p.excluded,
    imports := p.stmts.map (pyImpOf ex p.src) }

def graphOf (ex : Dotted → Bool) (P : List (PFile ω)) : Graph Dotted ω := P.map (toModule ex)
def pyGraphOf (ex : Dotted → Bool) (P : List (PFile ω)) : Graph Dotted ω := P.map (toPyModule ex)

/-- every statement of every file of the project is in the fragment -/
def WellFormed (P : List (PFile ω)) : Prop := ∀ p ∈ P, ∀ s ∈ p.stmts, wf p.src s = true

instance (P : List (PFile ω)) : Decidable (WellFormed P) := by unfold WellFormed; infer_instance

/-- `derive_absolute_module_name` on Python strings (Tie A evaluates the real function on a grid and
compares with this). -/
def deriveAbsStr (isInit : Bool) (base : String) (target : Option String) (level : Nat) : String :=
  String.ofList (Strs.joinDot (deriveAbs isInit (Strs.splitDot base.toList) (target.map (fun t => Strs.splitDot t.toList)) level))

/-- The `__init__.py` rule in one line: a package's `__init__.py` resolves a relative import exactly
as a module lying directly inside that package does (`x` = any module name). -/
def asModuleInside (f : Src) (x : Str) : Src := { base := f.base ++ [x], isInit := false }

end Rattr.Edges

/-
  RattrModel.SimplResolve — diagnostics of two loops that follow imports (C15, round 4).

  (1) rattr/results/_find_call_target.py, `resolve_import(target, environment)`: the simplifier
      resolves a call whose target is an `Import` symbol. In order:

        module_name is None                          -> raise ImportError          (uncaught: a crash)
        is_in_import_blacklist(module_name)          -> return None               (silent)
        not follow_local_imports                     -> info  "ignoring call … local module"
        not follow_pip_imports and is_in_pip         -> info  "ignoring call … pip installed module"
        not follow_stdlib_imports and is_in_stdlib   -> info  "ignoring call … stdlib module"
        module not in environment.import_irs         -> raise ImportError          (uncaught: a crash)
        new_target = module_ir.context.get(local_name)
        Func / Class: module_ir.get(new_target) is None -> error "… it is likely ignored"
                      otherwise                         -> IrTarget
        Import                                       -> return resolve_import(new_target, …)   -- re-export
        None and "." in local_name                   -> info  "… it is a method"
        anything else                                -> error "… it is likely undefined"

      Nothing in it (nor anywhere in rattr/results) enters a file: `state.current_file` stays what
      it is while `generate_results_from_ir` runs — `None`, so every one of these diagnostics is
      booked to the simplification bucket however many modules the name was re-exported through.
      (Tie A: `Generated.C15.enterFileSites`, `currentFileWriters`, `siteCalls`.)

  (2) rattr/analyser/file.py, `parse_and_analyse_imports`, one element of the queue: which
      diagnostic it reports with which weight, or whether the module is skipped / analysed. The
      exclusion tests (`-F` blacklist, `-f` level) come AFTER every report: no option changes the
      weight of a report.
-/
import RattrModel.Diag
import RattrModel.DiagScope

namespace Rattr.SimplResolve
open Rattr Rattr.Diag Rattr.DiagScope

/-! ### (1) `resolve_import` -/

/-- The tests `resolve_import` makes on the module of an `Import` before it looks the name up. -/
structure Checks where
  /-- `target.module_name is not None` -/
  moduleKnown : Bool
  /-- `is_in_import_blacklist(target.module_name)` -/
  blacklisted : Bool
  /-- `arguments.follow_local_imports` -/
  followLocal : Bool
  /-- `not arguments.follow_pip_imports and is_in_pip(module)` -/
  skipPip : Bool
  /-- `not arguments.follow_stdlib_imports and is_in_stdlib(module)` -/
  skipStdlib : Bool
  /-- the module has an IR in `environment.import_irs` -/
  hasIr : Bool
  deriving DecidableEq, Repr

/-- What the context of the last module looked at holds for the name. -/
inductive Final
  /-- a `Func` / `Class`; `hasIr = false`: `module_ir.get(symbol)` is None (`@rattr_ignore`, an
      excluded name, a class without an initialiser) -/
  | callable (hasIr : Bool)
  /-- nothing; `dotted`: `is_call_to_method_or_member(local_name)` -/
  | absent (dotted : Bool)
  /-- any other symbol (a plain name, a builtin) -/
  | other
  deriving DecidableEq, Repr

/-- The modules a called name is looked up in, nearest first: `via c next` — the context of this
module holds an `Import` for the name (a re-export), followed into `next`. -/
inductive Chain
  | stop (c : Checks) (f : Final)
  | via (c : Checks) (next : Chain)
  deriving Repr

inductive Outcome
  | resolved        -- an `IrTarget`
  | unresolved      -- `None`
  | importError     -- an ImportError leaves `resolve_import` (nothing catches it: a traceback)
  deriving DecidableEq, Repr

/-- A diagnostic as `resolve_import` raises it: level and weight (the defaults of the level
functions: no call in `resolve_import` passes `badness`). -/
abbrev Report := Level × Nat

/-- The tests before the lookup: `some` = the call ends here. -/
def gate (c : Checks) : Option (List Report × Outcome) :=
  if !c.moduleKnown then some ([], .importError)
  else if c.blacklisted then some ([], .unresolved)
  else if !c.followLocal then some ([(.info, 0)], .unresolved)
  else if c.skipPip then some ([(.info, 0)], .unresolved)
  else if c.skipStdlib then some ([(.info, 0)], .unresolved)
  else if !c.hasIr then some ([], .importError)
  else none

def final : Final → List Report × Outcome
  | .callable true => ([], .resolved)
  | .callable false => ([(.error, 5)], .unresolved)
  | .absent true => ([(.info, 0)], .unresolved)
  | .absent false => ([(.error, 5)], .unresolved)
  | .other => ([(.error, 5)], .unresolved)

/-- `resolve_import`: the diagnostics it raises, in order, and how it ends. -/
def resolve : Chain → List Report × Outcome
  | .stop c f => match gate c with
    | some r => r
    | none => final f
  | .via c next => match gate c with
    | some r => r
    | none => resolve next

/-- Number of modules the name is re-exported through. -/
def Chain.depth : Chain → Nat
  | .stop _ _ => 0
  | .via _ n => n.depth + 1

/-- The trace of `resolve_import` in the vocabulary of `DiagScope`: diagnostics only — no
`enter_file` block, no `with` / `try` scope of rattr/results around a raise. `src = none`: the
diagnostic arises in result simplification. -/
def reportSteps (rs : List Report) : List Step :=
  rs.map fun r => Step.diag r.1 r.2 none false []

def steps (ch : Chain) : List Step := reportSteps (resolve ch).1

/-- The variant that enters the re-exporting module around the recursion (NOT the pinned code; kept
to show what the property forbids): `fid` = the file id of each re-exporting module. -/
def stepsEntering : Chain → List FileId → List Step
  | .stop c f, _ => reportSteps (match gate c with
    | some r => r
    | none => final f).1
  | .via c next, fids => match gate c with
    | some r => reportSteps r.1
    | none => match fids with
      | [] => stepsEntering next []
      | f :: rest => Step.enterFile (some f) :: stepsEntering next rest ++ [Step.leaveFile]

/-- No step enters, leaves or abandons a file. -/
def onlyDiags : List Step → Bool
  | [] => true
  | .diag _ _ _ _ _ :: r => onlyDiags r
  | _ :: _ => false

/-- `current_file` and the stack of saved files after a trace (nothing ever exiting). -/
def endState (cur : Option FileId) (stack : List (Option FileId)) : List Step → Option FileId × List (Option FileId)
  | [] => (cur, stack)
  | .enterFile f :: r => endState f (cur :: stack) r
  | .leaveFile :: r =>
    match stack with
    | old :: st => endState old st r
    | [] => endState cur [] r
  | .abandonFile :: r =>
    match stack with
    | old :: st => if restoresOnException then endState old st r else endState cur st r
    | [] => endState cur [] r
  | .diag _ _ _ _ _ :: r => endState cur stack r

/-! ### (2) one element of the import walk -/

/-- What `parse_and_analyse_imports` finds out about one queued `Import`. -/
structure ImportFacts where
  /-- `import_.module_name is not None` (false: the module can not be located — only possible
      when `-F` excludes it, else `make_import_symbol` has ended the run) -/
  nameKnown : Bool
  /-- `import_.module_spec is not None` -/
  specKnown : Bool
  /-- `spec.origin is not None` -/
  hasOrigin : Bool
  /-- `"BuiltinImporter" in str(spec.loader)` -/
  builtinLoader : Bool
  /-- `spec.origin in seen_module_origins` -/
  seen : Bool
  /-- `is_in_import_blacklist(name)` -/
  blacklisted : Bool
  /-- `not follow_pip_imports and is_in_pip(name)` -/
  skipPip : Bool
  /-- `not follow_stdlib_imports and is_in_stdlib(name)` -/
  skipStdlib : Bool
  deriving DecidableEq, Repr

inductive WalkStep
  /-- `error.error(…)` then `continue`; `family`: 0 "unable to resolve import", 1 "unable to
      resolve module spec", 2 "unable to resolve builtin module" -/
  | report (level : Level) (badness : Nat) (family : Nat)
  /-- `continue` without a word -/
  | skip
  /-- the module is read, entered, analysed and its imports are queued -/
  | analyse
  deriving DecidableEq, Repr

def walkOne (f : ImportFacts) : WalkStep :=
  if !f.nameKnown then .report .error 5 0
  else if !f.specKnown then .report .error 5 1
  else if !f.hasOrigin then
    (if f.builtinLoader then .report .error 0 2 else .report .error 5 0)
  else if f.seen then .skip
  else if f.blacklisted then .skip
  else if f.skipPip then .skip
  else if f.skipStdlib then .skip
  else .analyse

/-- The level functions called by the walk's own loop, in source order, with the explicit
`badness` argument ("" = none): what Tie A compares with `Generated.C15.siteCalls`. -/
def walkCallSites : List (String × String) :=
  [("error", ""), ("error", ""), ("error", "0"), ("error", "")]

/-- The same for `resolve_import`. -/
def resolveCallSites : List (String × String) :=
  [("info", ""), ("info", ""), ("info", ""), ("error", ""), ("info", ""), ("error", "")]

/-- `with enter_file(..)` blocks of the pinned code: (file, function, argument). All of them belong
to the analysis stage; none is in rattr/results. -/
def enterFileSites : List (String × String × String) :=
  [ ("rattr/analyser/file.py", "parse_and_analyse_file", "config.arguments.target"),
    ("rattr/analyser/file.py", "parse_and_analyse_imports", "spec.origin"),
    ("rattr/models/context/_context.py", "Context.expand_starred_imports", "starred.location.defined_in"),
    ("rattr/models/context/_context.py", "Context.expand_starred_imports", "starred.location.defined_in"),
    ("rattr/models/context/_context.py", "Context.expand_starred_imports", "Path(starred.module_spec.origin)") ]

/-- Stores to `….current_file` in the pinned code: the two of `enter_file` itself. -/
def currentFileWriters : List (String × String) :=
  [("rattr/config/state.py", "enter_file"), ("rattr/config/state.py", "enter_file")]

end Rattr.SimplResolve

/-
  RattrModel.ImportWalk — WHICH file a relative import is resolved against (stage S2/S3, property C13).

  `RootContextBuilder.visit_relative_import` / `visit_starred_relative_import` and
  `derive_absolute_module_name` do not receive the importing file: they read the global
  `Config().state.current_file`.  Three places set it (`rattr/config/state.py::enter_file`):

    * `rattr/analyser/file.py::parse_and_analyse_file`     — the target,
    * `rattr/analyser/file.py::parse_and_analyse_imports`  — every followed import (BFS work-list),
    * `rattr/models/context/_context.py::Context.expand_starred_imports` — every star-imported file
      (BFS over nested `import *`), the only other place that compiles another file's root context.

  This module models exactly that walk, with the global as an explicit state component (`St.cur`),
  on top of `Locator.*`:  `compileRoot` (the import visitors of `RootContextBuilder` +
  `make_import_symbol` + `Context.add`) READS `St.cur`; its caller passes the statements of the file
  whose text it has just parsed.  That the two always agree is a theorem (Props/C13:
  `walk_cur_is_file`), not a definition.

  Fragment: files whose module-level statements are `import a.b [as x]`, `from <dots><a.b> import …`
  and `def f(): …` (every other statement leaves `current_file` and the import symbols alone).
  Symbols are `Func` and `Import` only — the dunder names and builtins every root context starts from
  are left out: they are `in` every context, so star-expansion never copies them.
  Per-case assumptions (the harness generates inside them; the differential check would show a
  breach): no module name is blacklisted except the empty string (`is_in_import_blacklist("")`),
  nothing is classified pip/stdlib, every located origin lies below search root 0 and is one of
  `Proj.files`, every file parses, `--follow-imports` is the default (local modules); symbolic links
  below the root (`Proj.phys`; they matter to `runBefore_58a9012` only) point outside every search root
  and no two of them lead to one file (the star-expansion's `seen` set, keyed by resolved origin, is
  then keyed by the spelled path).

  Every `raise` / `error.fatal` reachable in the fragment is an explicit outcome (`Stop`).
-/
import RattrModel.Locator

namespace Rattr.Walk
open Rattr Rattr.Locator

def star : Str := ['*']

/-- The places of the code this model mirrors (Tie A, `Generated.C13.enterFileSites`): every function
containing a `with enter_file(...)` — `run`, `followLoop`, `expandLoop` below. -/
def enterSites : List String :=
  ["rattr/analyser/file.py::parse_and_analyse_file",
   "rattr/analyser/file.py::parse_and_analyse_imports",
   "rattr/models/context/_context.py::Context.expand_starred_imports"]

/-- Every call that compiles a root context, and whether it sits lexically inside the `with
enter_file(...)` of its function (Tie A, `Generated.C13.compileSites`). The target's is reached
through `__parse_and_analyse_file_impl`, itself called inside `parse_and_analyse_file`'s block. -/
def compileCalls : List (String × Bool) :=
  [("rattr/analyser/file.py::__parse_and_analyse_file_impl::compile_root_context", false),
   ("rattr/analyser/file.py::parse_and_analyse_file::__parse_and_analyse_file_impl", true),
   ("rattr/analyser/file.py::parse_and_analyse_imports::compile_root_context", true),
   ("rattr/models/context/_context.py::Context.expand_starred_imports::compile_root_context", true)]

/-- a module-level statement of the fragment; `line` = `node.lineno` -/
inductive Stmt where
  | def_ (line : Nat) (name : Str)
  | imp (line : Nat) (module : Dotted) (asname : Option Str)
  | from_ (line : Nat) (level : Nat) (module : Option Dotted) (names : List (Str × Option Str))
  deriving Repr, DecidableEq

/-- a `.py` file below search root 0: `dir/stem.py` -/
structure File where
  dir   : Path
  stem  : Str
  stmts : List Stmt
  deriving Repr, DecidableEq

def File.path (f : File) : Path := f.dir ++ [f.stem ++ dotPy]

/-- a value of `Config().state.current_file`: the project file `dir/stem.py`, spelt relative to the
working directory (the target as given on the command line) or absolute (`spec.origin`) -/
structure Cur where
  abs  : Bool
  dir  : Path
  stem : Str
  /-- an absolute path that does NOT lie below search root 0 (a star-imported file reached through a
  symbolic link, after `Import.origin`'s `.resolve()`): `dir` is then the whole directory part -/
  out  : Bool := false
  deriving Repr, DecidableEq

def Cur.path (c : Cur) : Path := c.dir ++ [c.stem ++ dotPy]
/-- `current_file.name == "__init__.py"` -/
def Cur.isInit (c : Cur) : Bool := c.stem == sInit

structure Proj where
  env       : Env
  /-- `str(<search root 0>.resolve()).replace("/", ".").split(".")` -/
  rootComps : List Str
  files     : List File
  /-- symbolic links below search root 0: the files (path as spelled below the root) whose fully
  resolved path `Path(origin).resolve()` differs from their origin `root.resolve() / <as spelled>`,
  with that resolved path. Empty for a project without links below the root. -/
  phys      : Dict Path Cur := []

/-- `str(current_file).replace("/", ".").split(".")` (dot-free directory names) -/
def curComps (P : Proj) (c : Cur) : List Str :=
  if c.out then [[]] ++ c.dir ++ [c.stem, sPy]
  else (if c.abs then P.rootComps else []) ++ c.dir ++ [c.stem, sPy]

/-- the file as spelled below the search root: the target as given on the command line (`abs :=
false`), `spec.origin` of a followed import (`abs := true`: `find_module_in_path` resolves the search
directory only, Locator.`originAbs … .searchDir`) -/
def curOf (abs : Bool) (f : File) : Cur := { abs := abs, dir := f.dir, stem := f.stem }

/-- what `Context.expand_starred_imports` enters for a star-imported file: a parameter of the walk
(`runWith`).  The current code (58a9012) enters `Path(starred.module_spec.origin)`, the origin as
located — `curOf true`, like a followed import; before, `starred.origin` = `Import.origin` =
`Path(module_spec.origin).resolve()`, the fully resolved path (`starCurResolved`). -/
abbrev StarCur := File → Cur

/-- before 58a9012: the fully resolved path, which is the origin itself unless a link lies below the
search root (`Proj.phys`) -/
def starCurResolved (P : Proj) : StarCur := fun g => (Dict.get? P.phys g.path).getD (curOf true g)

/-- the star-expansion enters the file as spelled below the search root -/
def Spelled (sc : StarCur) : Prop := ∀ g, (sc g).path = g.path ∧ (sc g).stem = g.stem

theorem spelled_curOf : Spelled (curOf true) := fun _ => ⟨rfl, rfl⟩

def fileAt (P : Proj) (p : Path) : Option File := P.files.find? (fun f => f.path == p)

/-- a `Func` or `Import` symbol; names are kept split at "." (`Import.name` may be `a.b`) -/
structure Sym where
  isImport : Bool
  name : Dotted
  qual : Dotted := []
  line : Nat
  /-- `location.file`: the current file when the symbol was created -/
  file : Cur
  deriving Repr, DecidableEq

/-- `Symbol.id`: a starred import is stored under `<qualified_name>.*` -/
def Sym.id (s : Sym) : Dotted := if s.isImport && s.name == [star] then s.qual ++ [star] else s.name

abbrev Tab := Dict Dotted Sym

/-- `Context.add(symbol)` on a root context: `symbol.name not in self` then `self[name] = symbol`
(stored under the id). `"*"` is never a key. -/
def Tab.add (t : Tab) (s : Sym) : Tab :=
  if s.name != [star] && Dict.contains t s.name then t else Dict.set t s.id s

def Tab.syms (t : Tab) : List Sym := t.map Prod.snd
def Tab.imports (t : Tab) : List Sym := t.syms.filter (·.isImport)

inductive Lvl where
  | warning | error | fatal
  deriving Repr, DecidableEq

structure DiagRec where
  lvl  : Lvl
  tmpl : String
  line : Option Nat
  deriving Repr, DecidableEq

/-- one call of `derive_absolute_module_name` made by the walk -/
structure Rec where
  /-- the file whose statement is being registered -/
  file   : Path
  stem   : Str
  /-- `Config().state.current_file` at that moment -/
  cur    : Cur
  call   : RelCall
  result : Dotted
  deriving Repr, DecidableEq

/-- one completed call of `compile_root_context`: `file` is the file whose parsed text was passed -/
structure Event where
  file : File
  cur  : Cur
  syms : List Sym
  deriving Repr, DecidableEq

structure St where
  /-- `Config().state.current_file` -/
  cur    : Option Cur := none
  /-- the `functools.cache` of `derive_absolute_module_name` -/
  memo   : Memo := []
  trace  : List Rec := []
  events : List Event := []
  diags  : List DiagRec := []
  deriving Repr

inductive Stop where
  | fatal
  | crash (exc : String)
  | outside (why : String)
  | fuel
  deriving Repr, DecidableEq

inductive Out (α : Type) where
  | ok (a : α) (s : St)
  | stop (w : Stop) (s : St)

def Out.st {α : Type} : Out α → St
  | .ok _ s => s
  | .stop _ s => s

def Out.bind {α β : Type} (o : Out α) (k : α → St → Out β) : Out β :=
  match o with
  | .ok a s => k a s
  | .stop w s => .stop w s

def St.diag (s : St) (l : Lvl) (t : String) (line : Option Nat) : St :=
  { s with diags := s.diags ++ [{ lvl := l, tmpl := t, line := line }] }

/-! ### `make_import_symbol` and the import visitors -/

/-- `Import(...).origin is not None` -/
def hasOrigin (P : Proj) (qual : Dotted) : Bool :=
  match findModuleNameAndSpec P.env qual with
  | some (_, sp) => sp.origin.isSome
  | none => false

/-- `make_import_symbol(name, qualified_name, module_name, token)` then `context.add`.
`is_in_import_blacklist(module_name)` is true for the empty string only (fragment). -/
def addImport (P : Proj) (c : Cur) (line : Nat) (name qual moduleName : Dotted) (t : Tab) (s : St) : Out Tab :=
  if moduleName != [[]] && !hasOrigin P qual then
    .stop .fatal (s.diag .fatal "unable-to-find-module" (some line))
  else
    .ok (t.add { isImport := true, name := name, qual := qual, line := line, file := c }) s

/-- the generator of `visit_named_import` / `visit_relative_import`, one alias at a time -/
def addFromNames (P : Proj) (c : Cur) (line : Nat) (m : Dotted) :
    List (Str × Option Str) → Tab → St → Out Tab
  | [], t, s => .ok t s
  | (n, a) :: r, t, s =>
    (addImport P c line [a.getD n] (m ++ [n]) m t s).bind fun t s => addFromNames P c line m r t s

def isStarred (names : List (Str × Option Str)) : Bool := names == [(star, none)]

/-- `module.isidentifier()` for `node.module or node.names[0].name`: one (identifier) component -/
def shownIsIdentifier (module : Option Dotted) : Bool :=
  match module with
  | some [c] => c != []
  | _ => false

/-- `derive_absolute_module_name(base, node.module, node.level)` as the walk calls it: through the
cache, reading the current file's name; the call is logged. -/
def resolveRel (f : File) (c : Cur) (base : Dotted) (module : Option Dotted) (level : Nat)
    (s : St) : Dotted × St :=
  let r := deriveAbsM s.memo c.isInit base module level
  (r.1, { s with memo := r.2,
                 trace := s.trace ++ [{ file := f.path, stem := f.stem, cur := c,
                                        call := { isInit := c.isInit, base := base, target := module, level := level },
                                        result := r.1 }] })

/-- the symbols a from-import adds once its module name `a` is known -/
def addResolved (P : Proj) (c : Cur) (line : Nat) (st : Bool) (a : Dotted)
    (names : List (Str × Option Str)) (t : Tab) (s : St) : Out Tab :=
  if st then addImport P c line [star] a a t s else addFromNames P c line a names t s

/-- `if spec is None: error.error("unable to resolve relative [starred] import")` -/
def relDiag (st : Bool) (line : Nat) (found : Bool) (s : St) : St :=
  if found then s else s.diag .error (if st then "unresolved-rel-star" else "unresolved-rel") (some line)

/-- `assert module_name == confirmed_module_name` fails -/
def confirmedBad (found : Option (Dotted × ModSpec)) (a : Dotted) : Bool :=
  match found with
  | some (n, _) => n != a
  | none => false

/-- `visit_relative_import` / `visit_starred_relative_import` -/
def visitRel (P : Proj) (f : File) (c : Cur) (line level : Nat) (module : Option Dotted)
    (names : List (Str × Option Str)) (st : Bool) (t : Tab) (s : St) : Out Tab :=
  match deriveModuleNameFromPath P.env (curComps P c) with
  -- since /repo c5833ef: `error.fatal("unable to resolve relative imports in …")` (was a bare `raise ValueError`)
  | none => .stop .fatal (s.diag .fatal "rel-no-base" (some line))
  | some base =>
    let r := resolveRel f c base module level s
    let found := findModuleNameAndSpec P.env r.1
    let s' := relDiag st line found.isSome r.2
    if confirmedBad found r.1 then .stop (.crash "AssertionError") s' else addResolved P c line st r.1 names t s'

/-- `error_starred_import_outside_init`: the warning -/
def starWarn (st : Bool) (c : Cur) (line : Nat) (s : St) : St :=
  if st && !c.isInit then s.diag .warning "star-outside-init" (some line) else s

/-- `RootContextBuilder.visit_ImportFrom` (all four branches). `c` is the CURRENT FILE (read from the
state by the caller `register`), `f` the file the statement was parsed from. -/
def visitFrom (P : Proj) (f : File) (c : Cur) (line level : Nat) (module : Option Dotted)
    (names : List (Str × Option Str)) (t : Tab) (s : St) : Out Tab :=
  let st := isStarred names
  -- `error_starred_import_outside_init` words its warning with `gen_import_from_stmt`
  if st && !c.isInit && !shownIsIdentifier module then .stop (.crash "ValueError:not-an-identifier") s
  else if level != 0 then visitRel P f c line level module names st t (starWarn st c line s)
  else
    match module with
    | none => .stop .fatal ((starWarn st c line s).diag .fatal "no-module" (some line))
    | some m => addResolved P c line st m names t (starWarn st c line s)

/-- `RootContextBuilder.register(stmt)`: reads `Config().state.current_file` -/
def register (P : Proj) (f : File) (stmt : Stmt) (t : Tab) (s : St) : Out Tab :=
  match s.cur with
  | none => .stop (.crash "ValueError:no-current-file") s
  | some c =>
    match stmt with
    | .def_ line name => .ok (t.add { isImport := false, name := [name], line := line, file := c }) s
    | .imp line m a => addImport P c line (match a with | some x => [x] | none => m) m m t s
    | .from_ line level m names => visitFrom P f c line level m names t s

def registerAll (P : Proj) (f : File) : List Stmt → Tab → St → Out Tab
  | [], t, s => .ok t s
  | st :: r, t, s => (register P f st t s).bind fun t s => registerAll P f r t s

/-- `compile_root_context(ast.parse(<text of f>))`; the completed call is logged with the current
file it ran under. -/
def compileRoot (P : Proj) (f : File) (s : St) : Out Tab :=
  (registerAll P f f.stmts [] s).bind fun t s =>
    match s.cur with
    | none => .stop (.crash "ValueError:no-current-file") s
    | some c => .ok t { s with events := s.events ++ [{ file := f, cur := c, syms := t.syms }] }

/-! ### `enter_file` -/

/-- `with enter_file(c): body` — set, run, restore (an exception leaves the state as it is: the
context manager has no `finally`). -/
def enter {α : Type} (c : Cur) (body : St → Out α) (s : St) : Out α :=
  let old := s.cur
  match body { s with cur := some c } with
  | .ok a s' => .ok a { s' with cur := old }
  | .stop w s' => .stop w s'

/-! ### `Context.expand_starred_imports` -/

/-- `Import.origin` of a symbol, as a file of the project -/
inductive Org where
  | none                 -- `origin is None`
  | file (f : File)
  | outside              -- an origin the fragment does not cover
  deriving Repr, DecidableEq

def originOf (P : Proj) (qual : Dotted) : Org :=
  match findModuleNameAndSpec P.env qual with
  | none => .none
  | some (_, sp) =>
    match sp.origin with
    | none => .none
    | some (.file 0 p) => (match fileAt P p with | some f => .file f | none => .outside)
    | some _ => .outside

/-- `get_starred_imports(seen_by_origin=seen)` -/
def starredImports (P : Proj) (t : Tab) (seen : List Path) : List Sym :=
  t.imports.filter fun s => s.name == [star] &&
    (match originOf P s.qual with
     | .file f => !seen.contains f.path
     | _ => true)

/-- the `Import` a star-expansion adds for one symbol of the starred file's root context -/
def copyOf (starred sym : Sym) : Sym :=
  { isImport := true, name := sym.name, qual := starred.qual ++ sym.name, line := starred.line, file := starred.file }

def addCopies (starred : Sym) : List Sym → Tab → Tab
  | [], t => t
  | x :: r, t => addCopies starred r (t.add (copyOf starred x))

/-- `Import.code()` of a starred import whose origin is `None` raises unless its module is one
identifier -/
def codeIsIdentifier (qual : Dotted) : Bool :=
  match qual with
  | [c] => c != []
  | _ => false

/-- the `for starred in queue` loop (the queue grows while it is iterated) -/
def expandLoop (P : Proj) (sc : StarCur) : Nat → List Sym → List Path → Tab → St → Out Tab
  | 0, [], _, t, s => .ok t s
  | 0, _ :: _, _, _, s => .stop .fuel s
  | _ + 1, [], _, t, s => .ok t s
  | fuel + 1, sd :: q, seen, t, s =>
    match originOf P sd.qual with
    | .none =>
      if codeIsIdentifier sd.qual then
        expandLoop P sc fuel q seen t (s.diag .error "unresolved-while-expanding" (some sd.line))
      else .stop (.crash "ValueError:not-an-identifier") s
    | .outside => .stop (.outside "starred origin") s
    | .file g =>
      if seen.contains g.path then expandLoop P sc fuel q seen t s
      else
        (enter (sc g) (compileRoot P g) s).bind fun t' s =>
          let seen := g.path :: seen
          expandLoop P sc fuel (q ++ starredImports P t' seen) seen (addCopies sd t'.syms t) s

def expand (P : Proj) (sc : StarCur) (fuel : Nat) (t : Tab) (s : St) : Out Tab :=
  expandLoop P sc fuel (starredImports P t []) [] t s

/-! ### `parse_and_analyse_imports` -/

abbrev Irs := Dict Dotted Tab

/-- the BFS over the `Import` symbols (default follow level: local modules; nothing in the fragment
is blacklisted / pip / stdlib) -/
def followLoop (P : Proj) (sc : StarCur) (xfuel : Nat) : Nat → List Sym → List Path → Irs → St → Out Irs
  | 0, [], _, irs, s => .ok irs s
  | 0, _ :: _, _, _, s => .stop .fuel s
  | _ + 1, [], _, irs, s => .ok irs s
  | fuel + 1, i :: q, seen, irs, s =>
    match findModuleNameAndSpec P.env i.qual with
    | none => followLoop P sc xfuel fuel q seen irs (s.diag .error "unresolved-import" none)
    | some (name, sp) =>
      match sp.origin with
      | none => followLoop P sc xfuel fuel q seen irs (s.diag .error "unresolved-import" none)
      | some (.file 0 p) =>
        if seen.contains p then followLoop P sc xfuel fuel q seen irs s
        else
          match fileAt P p with
          | none => .stop (.outside "followed origin") s
          | some g =>
            (enter (curOf true g) (fun s => (compileRoot P g s).bind fun t s => expand P sc xfuel t s) s).bind
              fun t s => followLoop P sc xfuel fuel (q ++ t.imports) (p :: seen) (Dict.set irs name t) s
      | some _ => .stop (.outside "followed origin") s

/-- `parse_and_analyse_file()` for the target `tgt` (as spelt on the command line: relative), with
the star-expansion entering `sc g` for a star-imported file `g` -/
def runWith (P : Proj) (sc : StarCur) (fuel : Nat) (tgt : File) : Out (Tab × Irs) :=
  enter (curOf false tgt)
    (fun s => (compileRoot P tgt s).bind fun t s => (expand P sc fuel t s).bind fun t s =>
      (followLoop P sc fuel fuel t.imports [] [] s).bind fun irs s => .ok (t, irs) s)
    {}

/-- the current code: the star-expansion enters the origin as located (Tie A `tieA_resolve_site`) -/
def run (P : Proj) (fuel : Nat) (tgt : File) : Out (Tab × Irs) := runWith P (curOf true) fuel tgt

/-- the code before 58a9012: the star-expansion enters the fully resolved path -/
def runBefore_58a9012 (P : Proj) (fuel : Nat) (tgt : File) : Out (Tab × Irs) :=
  runWith P (starCurResolved P) fuel tgt

end Rattr.Walk

/-
  RattrModel.Resolve — model of how a call that crosses a module boundary is resolved (stage S2/S6,
  property C06):

    (a) `rattr/models/context/_root_context.py`: `visit_Import`, `visit_ImportFrom` and its four
        handlers, `make_import_symbol` — which `Import(name, qualified_name)` each import form
        creates; `Context.expand_starred_imports` (the symbols a starred import adds);
    (b) `Import.module_name` = first component of `find_module_name_and_spec(qualified_name)`:
        the longest dotted prefix that is an existing module (the set of existing modules is a
        parameter; how names map to files is C13's `Locator`);
    (c) `rattr/results/_find_call_target.py::resolve_import`: the ladder, the local-name derivation
        FROM THE LOCAL NAME (`target.name.replace(module_name + ".", "").removesuffix("()")`), the
        lookup in the imported module's root context, the recursion through re-exporting `Import`
        symbols — which has NO cycle guard: the recursion takes a `fuel` and running out of it is
        the model of CPython's `RecursionError`;
    (d) what `Context.get_call_target` answers at the call site for a spelled callee (`f`, `g`,
        `m.f`, `n.f`, `p.m.f`): `Context.getCallTarget` applied to the root symbols;
    (e) the positional arguments of the call record built at the call site (`visit_Call` /
        `visit_ClassAssign`: the constructed instance is prepended only when the target is a
        `Class` symbol — an imported class is an `Import` symbol).

  The follow-level rungs of `resolve_import` are C12's (`Imports.importAllowed`); here the verdict of
  the rungs is data (`World.ignored`), as is "the module is a key of `import_irs`".  The blacklist rung
  itself is modelled in `RattrModel.Blacklist` (`ignoredOf` computes `World.ignored` from the pattern
  sources; the driver does so when a request carries them).
-/
import RattrModel.Context
import RattrModel.Locator

namespace Rattr.Resolve
open Rattr.Strs

/-! ### (a) import statements and the symbols they create -/

/-- One alias of an import statement. Module names are dotted strings as written. -/
inductive ImportStmt where
  /-- `import a.b` / `import a.b as c` -/
  | plain (module : Str) (asname : Option Str)
  /-- `from a.b import f` / `from a.b import f as g` -/
  | from_ (module : Str) (name : Str) (asname : Option Str)
  /-- `from a.b import *` -/
  | star (module : Str)
  /-- `from ..x import f [as g]` (`module = none` for `from .. import f`) -/
  | rel (level : Nat) (module : Option Str) (name : Str) (asname : Option Str)
  /-- `from ..x import *` -/
  | relStar (level : Nat) (module : Option Str)
  deriving DecidableEq, Repr

/-- An `Import` symbol: `name` (the key in the symbol table) and `qualified_name`. -/
structure ISym where
  name : Str
  qual : Str
  deriving DecidableEq, Repr

/-- The file an import statement is in, as `visit_relative_import` sees it:
`derive_module_name_from_path(current_file)` and `current_file.name == "__init__.py"`. -/
structure FileId where
  base : Str
  isInit : Bool
  deriving DecidableEq, Repr

/-- `derive_absolute_module_name(base, module, level)` on strings (the cache-free body, C13 covers
the memo): reuses `Locator.deriveAbs` on the split view. -/
def absName (f : FileId) (level : Nat) (module : Option Str) : Str :=
  joinDot (Locator.deriveAbs f.isInit (splitDot f.base) (module.map splitDot) level)

/-- The symbol `RootContextBuilder` adds for one alias (`make_import_symbol(name=…,
qualified_name=…)`). -/
def importSymbol (f : FileId) : ImportStmt → ISym
  | .plain m a => { name := a.getD m, qual := m }
  | .from_ m n a => { name := a.getD n, qual := m ++ '.' :: n }
  | .star m => { name := ['*'], qual := m }
  | .rel lvl m n a => { name := a.getD n, qual := absName f lvl m ++ '.' :: n }
  | .relStar lvl m => { name := ['*'], qual := absName f lvl m }

/-- `Import.id`: the key under which the symbol is stored. -/
def ISym.id (s : ISym) : Str := if s.name = ['*'] then s.qual ++ ['.', '*'] else s.name

/-! ### (b) `Import.module_name` -/

/-- `find_module_name_and_spec(qualified)[0]`: the first of `qualified`, `qualified` minus its last
component, … that is an existing module; `none` for names starting with "." -/
def moduleNameOf (existing : List Str) (qual : Str) : Option Str :=
  if startsWith qual ['.'] then none
  else (Context.namesRight qual).find? (fun n => existing.contains n)

/-! ### (c) `resolve_import` -/

/-- A symbol of an imported module's root context, as `resolve_import` distinguishes them. -/
inductive MSym where
  /-- `Func` (incl. static methods registered as `Cls.meth`); `hasIr` = it is a key of the module's
  `FileIr` (false when `@rattr_ignore`d / excluded) -/
  | func (name : Str) (hasIr : Bool)
  | cls (name : Str) (hasIr : Bool)
  /-- a re-exporting `Import` symbol -/
  | imp (name : Str) (qual : Str)
  /-- `Name` / `Builtin` -/
  | other (name : Str)
  deriving DecidableEq, Repr

def MSym.key : MSym → Str
  | .func n _ | .cls n _ | .other n => n
  | .imp n q => ISym.id ⟨n, q⟩

/-- root context of a module: symbols in declaration order; `Context.get` = first match on the key
(keys are unique in a real symbol table). -/
abbrev MCtx := List MSym

def lookupSym : MCtx → Str → Option MSym
  | [], _ => none
  | s :: r, x => if s.key = x then some s else lookupSym r x

structure World where
  /-- the module names `module_exists` accepts (C13) -/
  existing : List Str
  /-- modules for which one of the four `return None` rungs fires (blacklist, follow level: C12) -/
  ignored : List Str
  /-- `environment.import_irs`: module name ↦ the context of its `FileIr` -/
  irs : Dict Str MCtx

inductive NoneWhy where
  | ignored          -- a ladder rung returned None
  | likelyIgnored    -- Func/Class found but it has no IR
  | isMethod         -- "it is a method" (not found, dotted local name)
  | likelyUndefined  -- "it is likely undefined"
  deriving DecidableEq, Repr

inductive ImpErr where
  | noModule         -- `target.module_name is None` → bare `ImportError`
  | notFound         -- `import_irs.get(module_name) is None` → `ImportError("… not found")`
  deriving DecidableEq, Repr

inductive Outcome where
  | found (module : Str) (sym : MSym)
  | none_ (why : NoneWhy)
  | importError (e : ImpErr)
  /-- out of fuel: the unguarded recursion did not end (CPython: `RecursionError`) -/
  | recursionError
  deriving DecidableEq, Repr

/-- `s.removesuffix("()")` (once). -/
def removeSuffixCall (s : Str) : Str :=
  if endsWith s (lit "()") then s.take (s.length - 2) else s

/-- `target.name.replace(f"{module_name}.", "").removesuffix("()")` -/
def localNameOf (name moduleName : Str) : Str :=
  removeSuffixCall (replaceAll name (moduleName ++ ['.']) [])

/-- `resolve_import(target)`; one unit of fuel per (recursive) call. -/
def resolveImport (w : World) : Nat → ISym → Outcome
  | 0, _ => .recursionError
  | fuel + 1, t =>
    match moduleNameOf w.existing t.qual with
    | none => .importError .noModule
    | some mn =>
      if w.ignored.contains mn then .none_ .ignored
      else
        match Dict.get? w.irs mn with
        | none => .importError .notFound
        | some ctx =>
          let ln := localNameOf t.name mn
          match lookupSym ctx ln with
          | some (.func n ir) => if ir then .found mn (.func n ir) else .none_ .likelyIgnored
          | some (.cls n ir) => if ir then .found mn (.cls n ir) else .none_ .likelyIgnored
          | some (.imp n q) => resolveImport w fuel ⟨n, q⟩
          | some (.other _) => .none_ .likelyUndefined
          | none => if ln.contains '.' then .none_ .isMethod else .none_ .likelyUndefined

/-! ### starred imports: `Context.expand_starred_imports` (one level) -/

/-- The symbols `from q import *` adds to a context that already declares `present`: one
`Import(name, f"{q}.{name}")` per declared symbol of the starred module, unless the name is already
visible (`Context.add` never rebinds). `names` come in the (set-iteration) order given. -/
def expandStar (ctx : MCtx) (q : Str) : List Str → MCtx
  | [] => ctx
  | n :: r =>
    if (lookupSym ctx n).isSome then expandStar ctx q r
    else expandStar (ctx ++ [.imp n (q ++ '.' :: n)]) q r

/-! ### (d) the call site -/

/-- The root-context entry of an `Import` symbol (`interface = AnyCallInterface()` → callable). -/
def importEntry (existing : List Str) (s : ISym) : Sym :=
  { kind := .import_, name := s.name, callable := true, iface := none, qual := s.qual,
    modExists := existing.contains s.qual }

def envNone : Context.Env := { prims := [], literals := [] }

/-- `Context.get_call_target(callee, call)` in a root context holding `root` (declaration order;
first declaration of a name wins, as `Context.add`). -/
def callTargetFor (root : Context) (callee : Str) : Option Sym × List Diag :=
  Context.getCallTarget envNone root callee false true

def rootOf (existing : List Str) (syms : List ISym) : Context :=
  [syms.foldl (fun sc s => if Dict.contains sc s.id then sc else sc ++ [(s.id, importEntry existing s)]) []]

/-- `find_call_target_and_ir` for a call whose target is whatever `get_call_target` found. -/
inductive CallOutcome where
  /-- the call site has no target / a non-import target (`Name`, `Builtin`, local `Func`/`Class`) -/
  | noImportTarget (kind : Option SymKind)
  | viaImport (o : Outcome)
  deriving DecidableEq, Repr

def resolveCall (w : World) (fuel : Nat) (root : Context) (callee : Str) : CallOutcome :=
  match (callTargetFor root callee).1 with
  | none => .noImportTarget none
  | some t =>
    if t.kind = .import_ then .viaImport (resolveImport w fuel ⟨t.name, t.qual⟩)
    else .noImportTarget (some t.kind)

/-! ### (e) the call record's positional arguments -/

/-- `visit_ClassAssign` (`x = C(a)`, target is a `Class`): `[x, a…]`; `visit_Call` on a `Class`
target: `["@C", a…]`; every other target kind (incl. `Import`): the arguments as written. -/
def callRecordArgs (target : Option Sym) (assignedTo : Option Str) (args : List Str) : List Str :=
  match target with
  | some t =>
    if t.kind = .cls then
      match assignedTo with
      | some x => x :: args
      | none => ('@' :: t.name) :: args
    else args
  | none => args

end Rattr.Resolve

/-
  RattrModel.Imports — model of stage S3, import following (property C12):
    * `rattr/analyser/file.py::__parse_and_analyse_file_impl` (the level-0 gate) and
      `parse_and_analyse_imports` (the BFS work-list with its filter ladder),
    * `rattr/models/context/_root_context.py::make_import_symbol` (the `fatal` raised while the root
      context of a file is compiled),
    * `rattr/results/_find_call_target.py::resolve_import` (the second ladder, `Resolve.importAllowed`).

  What is a *parameter* (computed per case by the real functions, never modelled from first
  principles): the module a qualified name resolves to (`find_module_name_and_spec`), its
  `spec.origin`, the verdicts of `is_in_import_blacklist`, `is_in_pip` (site-packages regex) and
  `is_in_stdlib` (isort), and whether the origin can be read and parsed.

  Module names are values of an opaque type `ν`, origins (file paths) of an opaque type `ω`.
-/
import RattrModel.Basic

namespace Rattr.Imports

/-- `FollowImports` (an `IntFlag`): the three bits. -/
structure Flags where
  loc : Bool
  pip : Bool
  stdlib : Bool
  deriving Repr, DecidableEq

/-- Truthiness of the `IntFlag` (`if config.arguments.follow_imports:`): any bit set. -/
def Flags.any (f : Flags) : Bool := f.loc || f.pip || f.stdlib

/-- Pointwise order on flag sets. -/
def Flags.le (a b : Flags) : Prop :=
  (a.loc = true → b.loc = true) ∧ (a.pip = true → b.pip = true) ∧ (a.stdlib = true → b.stdlib = true)

/-- One `Import` symbol of a file's root context. -/
structure Imp (ν : Type) where
  /-- `Import.module_name` = first component of `find_module_name_and_spec(qualified_name)`;
  `none` when no right-prefix of the qualified name is a locatable module. -/
  target : Option ν
  /-- `is_in_import_blacklist(<module named in the import statement>)`, consulted by
  `make_import_symbol` ("don't require that blacklisted modules be locatable"). -/
  declBlacklisted : Bool
  deriving Repr, DecidableEq

/-- Display class of a module (derived, see `Module.cls`). -/
inductive Class where
  | local | pip | stdlib | builtin | missing
  deriving Repr, DecidableEq

/-- Everything the import loop can observe about one module *name*. -/
structure Module (ν ω : Type) where
  name : ν
  /-- `spec.origin` -/
  origin : Option ω
  /-- the origin can be opened, decoded and parsed (`read(spec.origin)` + `ast.parse`); false for
  `'built-in'`, `'frozen'`, extension modules. -/
  readable : Bool
  /-- verdict of the real `is_in_import_blacklist(name)` — what the ladder consults -/
  blacklisted : Bool
  /-- verdict of the real `is_in_pip(name)` -/
  inPip : Bool
  /-- verdict of the real `is_in_stdlib(name)` -/
  inStdlib : Bool
  /-- SPEC-side datum, never consulted by the model of the code: the name fully matches an
  `--exclude-import` pattern or one of rattr's own patterns (`re.fullmatch`, computed by the harness
  independently of `is_in_import_blacklist`). -/
  excluded : Bool
  /-- the `Import` symbols of the module's root context, in symbol-table (declaration) order -/
  imports : List (Imp ν)
  deriving Repr, DecidableEq

def Module.cls {ν ω : Type} (m : Module ν ω) : Class :=
  match m.origin with
  | none => .missing
  | some _ =>
    if m.inPip then .pip
    else if m.inStdlib then (if m.readable then .stdlib else .builtin)
    else .local

abbrev Graph (ν ω : Type) := List (Module ν ω)

variable {ν ω : Type} [DecidableEq ν] [DecidableEq ω]

/-- The module a name denotes (names are unique keys of the locator's memo: first hit wins). -/
def lookup (g : Graph ν ω) (n : ν) : Option (Module ν ω) :=
  g.find? (fun m => decide (m.name = n))

/-- `Import.origin is not None` for an import symbol. -/
def hasOrigin (g : Graph ν ω) (i : Imp ν) : Bool :=
  match i.target with
  | none => false
  | some n =>
    match lookup g n with
    | none => false
    | some m => m.origin.isSome

/-- `compile_root_context` of a file with these import symbols does not hit
`error.fatal("unable to find module …")` in `make_import_symbol`. -/
def compileOk (g : Graph ν ω) (imps : List (Imp ν)) : Bool :=
  imps.all (fun i => i.declBlacklisted || hasOrigin g i)

/-- Why a popped import was not analysed (the `continue` rungs, in source order). -/
inductive Reason where
  | unresolved   -- `name is None`
  | noSpec       -- `spec is None`
  | noOrigin     -- `spec.origin is None`
  | seen         -- `spec.origin in seen_module_origins`
  | blacklist    -- `is_in_import_blacklist(name)`
  | pip          -- `not follow_pip_imports and is_in_pip(name)`
  | stdlib       -- `not follow_stdlib_imports and is_in_stdlib(name)`
  deriving Repr, DecidableEq

/-- Loop state. -/
structure St (ν ω : Type) where
  /-- names for which `FileAnalyser(...).analyse()` ran and `import_irs[name]` was assigned, in order -/
  analysed : List ν
  /-- `seen_module_origins` (a set; kept in insertion order) -/
  seen : List ω
  skipped : List (Option ν × Reason)
  /-- `import_stats.number_of_imports` -/
  pops : Nat
  deriving Repr, DecidableEq

def St.empty : St ν ω := { analysed := [], seen := [], skipped := [], pops := 0 }

/-- What happens to one popped import. -/
inductive Step (ν ω : Type) where
  | skip (r : Reason)
  | crashRead                    -- `read(spec.origin)` / `ast.parse` raises
  | fatalCompile                 -- `compile_root_context` of the import hits `error.fatal`
  | analyse (n : ν) (o : ω) (m : Module ν ω)

/-- The filter ladder of `parse_and_analyse_imports`, in source order. -/
def classify (g : Graph ν ω) (fl : Flags) (seen : List ω) (i : Imp ν) : Step ν ω :=
  match i.target with
  | none => .skip .unresolved
  | some n =>
    match lookup g n with
    | none => .skip .noSpec
    | some m =>
      match m.origin with
      | none => .skip .noOrigin
      | some o =>
        if o ∈ seen then .skip .seen
        else if m.blacklisted then .skip .blacklist
        else if !fl.pip && m.inPip then .skip .pip
        else if !fl.stdlib && m.inStdlib then .skip .stdlib
        else if !m.readable then .crashRead
        else if !compileOk g m.imports then .fatalCompile
        else .analyse n o m

/-- Outcome of the whole stage. -/
inductive Out (ν ω : Type) where
  | done (s : St ν ω)
  | fatal (s : St ν ω)
  | crash (s : St ν ω)
  | outOfFuel (s : St ν ω)
  deriving Repr, DecidableEq

def Out.state : Out ν ω → St ν ω
  | .done s | .fatal s | .crash s | .outOfFuel s => s

def Out.isDone : Out ν ω → Bool
  | .done _ => true
  | _ => false

/-- `while queue: import_ = queue.popleft() …` — one unit of fuel per pop. -/
def loop (g : Graph ν ω) (fl : Flags) : Nat → St ν ω → List (Imp ν) → Out ν ω
  | _, st, [] => .done st
  | 0, st, _ :: _ => .outOfFuel st
  | k + 1, st, i :: q =>
    match classify g fl st.seen i with
    | .skip r =>
      loop g fl k { st with pops := st.pops + 1, skipped := st.skipped ++ [(i.target, r)] } q
    | .crashRead => .crash { st with pops := st.pops + 1 }
    | .fatalCompile => .fatal { st with pops := st.pops + 1 }
    | .analyse n o m =>
      loop g fl k { st with pops := st.pops + 1, analysed := st.analysed ++ [n], seen := st.seen ++ [o] }
        (q ++ m.imports)

/-- `__parse_and_analyse_file_impl` up to `import_irs`: root context of the target (may be fatal),
then the level-0 gate, then the BFS seeded with the target's import symbols. -/
def bfs (g : Graph ν ω) (fl : Flags) (fuel : Nat) (target : List (Imp ν)) : Out ν ω :=
  if !compileOk g target then .fatal St.empty
  else if fl.any then loop g fl fuel St.empty target
  else .done St.empty

/-- Keys of the `import_irs` dict after the assignments `import_irs[name] = …` in order
(re-assignment keeps the first position). -/
def irsKeys (analysed : List ν) : List ν :=
  analysed.foldl (fun d n => if n ∈ d then d else d ++ [n]) []

/-- A fuel value that always suffices (proved in `C12_terminates`): one pop per import symbol of
the target and of every module of the graph, plus one. -/
def fuelBound (g : Graph ν ω) (target : List (Imp ν)) : Nat :=
  target.length + (g.map (fun m => m.imports.length)).sum + 1

/-! ### `is_in_stdlib` (rattr/module_locator/util.py): a verdict of isort's `place_module`

`return place_module(name) in (sections.STDLIB, sections.FUTURE)` — isort places `__future__` in its
own FUTURE section; it is a stdlib module all the same (fix 0d0bd4b; before it the comparison was
with STDLIB only and `from __future__ import annotations` had `__future__.py` analysed at levels 1
and 2). `is_in_pip` does not consult isort (Tie A). -/

/-- `isort.sections`: what `place_module` can return (Tie A: `Generated.C12.isortSections`). -/
inductive Section where
  | future | stdlib | thirdparty | firstparty | localfolder
  | other        -- a section this model does not know (a newer isort): never stdlib here, Tie A breaks
  deriving Repr, DecidableEq

def Section.ofString (s : String) : Section :=
  if s = "FUTURE" then .future else if s = "STDLIB" then .stdlib else if s = "THIRDPARTY" then .thirdparty
  else if s = "FIRSTPARTY" then .firstparty else if s = "LOCALFOLDER" then .localfolder else .other

/-- `is_in_stdlib(name)` as a function of `place_module(name)`. -/
def isInStdlib : Section → Bool
  | .stdlib => true
  | .future => true
  | _ => false

/-! ### Where an origin comes from: `find_module_in_path` (rattr/module_locator/_locate.py)

`install_location = python_path.resolve()`, then `install_location /= part` for every part of the
dotted name, then `/ "__init__.py"` or `.with_suffix(".py")`; the result is NOT resolved again. So
the *search directory* is canonical whatever its spelling (through a symlink, `./x`, `x/../x`),
while everything below it stays as spelled by the module name. Paths are lists of segments; `σ` is
the type of spellings of search directories, `resolve : σ → List Str` is `Path.resolve()`. -/

/-- The origin path `find_module_in_path` builds for the file `rel` below the search dir `d`. -/
def originIn {σ : Type} (resolve : σ → List Str) (d : σ) (rel : List Str) : List Str :=
  resolve d ++ rel

/-- The real file each analysis read, per analysed name (`real` = `os.path.realpath` on origins). -/
def realFiles {ρ : Type} (g : Graph ν ω) (real : ω → ρ) (analysed : List ν) : List (Option ρ) :=
  analysed.map fun n => ((lookup g n).bind (·.origin)).map real

end Rattr.Imports

namespace Rattr.Resolve
open Rattr.Imports

variable {ν ω : Type} [DecidableEq ν] [DecidableEq ω]

/-- Outcomes of the ladder at the head of `resolve_import`. -/
inductive Allowed (ν : Type) where
  | crashNoModule      -- `target.module_name is None` → bare `ImportError`
  | ignoredBlacklist   -- `return None`
  | ignoredNoLocal     -- `not follow_local_imports`
  | ignoredPip
  | ignoredStdlib
  | crashNotFound      -- `import_irs.get(name) is None` → `ImportError("… not found")`
  | found (n : ν)      -- the module's IR is consulted
  deriving Repr, DecidableEq

/-- The ladder `resolve_import` re-applies before it touches `import_irs` (`irs` = its keys). -/
def importAllowed (g : Graph ν ω) (fl : Flags) (irs : List ν) (i : Imp ν) : Allowed ν :=
  match i.target with
  | none => .crashNoModule
  | some n =>
    match lookup g n with
    | none => if n ∈ irs then .found n else .crashNotFound
    | some m =>
      if m.blacklisted then .ignoredBlacklist
      else if !fl.loc then .ignoredNoLocal
      else if !fl.pip && m.inPip then .ignoredPip
      else if !fl.stdlib && m.inStdlib then .ignoredStdlib
      else if n ∈ irs then .found n
      else .crashNotFound

end Rattr.Resolve

/-
  RattrModel.FollowConfig — how the follow level gets from the user to the import loop (C12):

    * `rattr/cli/parser.py parse_arguments` — the whole two-pass configuration stage is
      `Cli.parseArguments` (RattrModel/Cli.lean, the model of C20): `-f N` / `--follow-imports N` on the
      command line, `follow-imports = N` in `[tool.rattr]` of the project's pyproject.toml or of the
      file given with `-c`, the default 1;
    * `rattr/config/_types.py Arguments.follow_imports` / `follow_local_imports` /
      `follow_pip_imports` / `follow_stdlib_imports` — `flagsOfVal`: the three bits of the value stored
      at dest `_follow_imports_level`; any other value `raise NotImplementedError`;
    * `rattr/analyser/file.py` — `Imports.bfs` with those bits.

  `stage` composes the three: what is analysed for a given (TOML files, argv, module graph).
-/
import RattrModel.Cli
import RattrModel.Imports
import RattrModel.Spec.Allowed

namespace Rattr.FollowConfig
open Rattr Rattr.Cli Rattr.Imports

def levelDest : Str := str "_follow_imports_level"
def exclDest : Str := str "_excluded_imports"
def followKey : Str := str "follow-imports"

/-- `Arguments.follow_imports` + the three `follow_*_imports` properties. `none` = the final
`raise NotImplementedError`. -/
def flagsOfVal : Val → Option Flags
  | .int 0 => some { loc := false, pip := false, stdlib := false }
  | .int 1 => some { loc := true, pip := false, stdlib := false }
  | .int 2 => some { loc := true, pip := true, stdlib := false }
  | .int 3 => some { loc := true, pip := true, stdlib := true }
  | _ => none

/-- The option(s) of a parser that write `_follow_imports_level`. -/
def followOpts (p : Parser) : List Opt := p.filter fun o => o.dest == levelDest

/-- The follow option as the regenerated tables have it (Tie A: `tieA_follow_option` shows both
parsers have exactly this one). -/
def followOpt : Opt :=
  match followOpts tomlParser with
  | o :: _ => o
  | [] => { flags := [], dest := levelDest, action := .unsupported, vtype := .unsupported, default := .none,
            choices := none, required := false, mutex := none }

/-- `_excluded_imports` as `Arguments.excluded_imports` reads it (`None` = no pattern). -/
def patternsOfNs (ns : Namespace) : List Text :=
  match Dict.get? ns exclDest with
  | some (.texts l) => l
  | _ => []

/-- The TOML table `parse_arguments` ends up using for (world, argv) — `none` when the stage fails
before it has one (command-line error, TOML decode / type error). -/
def selectedToml (w : World) (argv : List Text) : Option Toml :=
  match parse cliParser (argv.map lex) [] with
  | .error _ => none
  | .ok ns0 =>
    match selectFile (getOverride w ns0) (findPyproject w) with
    | none => some []
    | some .decodeError => none
    | some (.table c) =>
      match validateToml tomlTypeMap c with
      | .error _ => none
      | .ok c' => some c'

/-- Outcome of configuration + import following. -/
inductive Stage (ν ω : Type) where
  | configError (o : Outcome)          -- usage error / `fatal: error parsing project toml`
  | badLevel                           -- `NotImplementedError` in `Arguments.follow_imports`
  | ran (fl : Flags) (out : Out ν ω)

variable {ν ω : Type} [DecidableEq ν] [DecidableEq ω]

/-- `python -m rattr <argv>` in a world of TOML files, on a module graph: the configuration stage,
the level's bits, the import loop. -/
def stage (w : World) (argv : List Text) (g : Graph ν ω) (target : List (Imp ν)) : Stage ν ω :=
  match parseArguments w none argv true with
  | .ok ns =>
    match (Dict.get? ns levelDest).bind flagsOfVal with
    | some fl => .ran fl (bfs g fl (fuelBound g target) target)
    | none => .badLevel
  | o => .configError o

end Rattr.FollowConfig

/-
  RattrModel.Cli — model of rattr's configuration stage S0 (`rattr/cli/parser.py parse_arguments`).

  What is modelled (as the code is, not as it should be):
    * the option tables of both parsers: they ARE the tables regenerated from the source
      (`Generated.C20.cliActions / tomlActions`, converted by `ofRaw`), so the model follows the code
      when an option is added, renamed, re-typed or re-grouped;
    * `_validate_toml_config`  (`validateToml`): prune unknown keys, then type-check in dict order by
      `TOML_ARGUMENT_TYPE_MAP`; since fix 0abb989 `int` is `isinstance(v, int) and not
      isinstance(v, bool)` (tied to the live `is_valid` by `Generated.C20.isValidProbes`);
    * `_translate_toml_conf_to_sys_args` (`translate`): booleans → bare flag or nothing (checked
      first), str/int → flag + value, lists → repeated flag/value pairs;
    * `argparse.ArgumentParser.parse_args(args, namespace)` (`parse`) for the actions rattr uses
      (`store` with type/choices, `store_true`, `append` copying the list already in the namespace,
      `version`), positionals, the `required` check, `unrecognized arguments`, mutually exclusive
      groups (per parse), and argparse's rule that defaults are applied only to dests ABSENT from
      the namespace;
    * `_get_toml_override` (`-c` file only if it is a file), `find_pyproject_toml`/`find_project_root`
      (`findPyproject`), `parse_project_toml` (`selectFile`), the two-pass composition and
      `_toml_error` (since fix f47ae20: with `exit_on_error=True` it prints
      `fatal: error parsing project toml: <exc>` and `sys.exit(1)`; otherwise re-raises) in
      `parseArguments`.

  NOTE: argparse's tokeniser is modelled in `RattrModel/Argv.lean` (`parseArgumentsX`, the function
  the driver runs); it coincides with `parseArguments` below on the canonical fragment
  (`C20_argv_refines_parse_arguments`).  What follows describes THIS file's `lex`/`run`/`parse`.

  Fragment (what is trusted rather than modelled HERE): argparse's tokeniser on non-canonical tokens —
  abbreviations (`--thresh`), `=`-joined values, clumped short flags (`-HT`), `--`, dash-words with
  spaces; and the codec between a token's text and an integer (`str(int)` / `int(str)`): a text is
  either the canonical decimal of an integer (`Text.num`) or a word that `int()` rejects
  (`Text.word`).  Dash-words that are *exact* flags (the `exclude = ["-x"]` case) ARE inside the
  fragment: `lex` classifies them as option tokens exactly as `_parse_optional` does.
-/
import RattrModel.Basic
import RattrModel.Generated.C20

namespace Rattr.Cli
open Rattr

/-! ### Values -/

/-- The text of one argv token / TOML string, up to the trusted codec `str(int)` / `int(str)`. -/
inductive Text where
  | num (i : Int)
  | word (s : Str)
  deriving DecidableEq, Repr

/-- Values held by the argparse namespace (and option defaults / choices). -/
inductive Val where
  | none
  | suppress                    -- argparse.SUPPRESS (never stored)
  | bool (b : Bool)
  | int (i : Int)
  | text (t : Text)             -- str, Path, Enum member (by value)
  | texts (l : List Text)       -- list[str]
  | other (k : Str)
  deriving DecidableEq, Repr

inductive Action where
  | store | storeTrue | append | version | unsupported
  deriving DecidableEq, Repr

/-- The `type=` callable of an action. -/
inductive VType where
  | str | int | path | enum (dom : List Str) | noType | unsupported
  deriving DecidableEq, Repr

structure Opt where
  flags : List Str            -- `[]` for a positional
  dest : Str
  action : Action
  vtype : VType
  default : Val
  choices : Option (List Val)
  required : Bool
  mutex : Option Nat          -- index of its mutually exclusive group
  deriving DecidableEq, Repr

abbrev Parser := List Opt
abbrev Namespace := Dict Str Val

/-! ### The tables (Tie A: converted from the regenerated tables) -/

open Generated.C20 in
def valOfRaw : RawVal → Val
  | .none => .none
  | .suppress => .suppress
  | .bool b => .bool b
  | .int i => .int i
  | .str s => .text (.word (str s))
  | .other s => .other (str s)

def actionOfRaw (action nargs : String) : Action :=
  if action = "store" ∧ nargs = "none" then .store
  else if action = "store_true" ∧ nargs = "0" then .storeTrue
  else if action = "append" ∧ nargs = "none" then .append
  else if action = "version" ∧ nargs = "0" then .version
  else .unsupported

def vtypeOfRaw (typ : String) (dom : List String) : VType :=
  if typ = "str" then .str
  else if typ = "int" then .int
  else if typ = "Path" then .path
  else if typ = "enum" then .enum (dom.map str)
  else if typ = "none" then .noType
  else .unsupported

def ofRaw (r : Generated.C20.RawOpt) : Opt :=
  { flags := r.flags.map str, dest := str r.dest, action := actionOfRaw r.action r.nargs,
    vtype := vtypeOfRaw r.typ r.typeDomain, default := valOfRaw r.default,
    choices := r.choices.map (·.map valOfRaw), required := r.required, mutex := r.mutex }

/-- `make_cli_parser()` -/
def cliParser : Parser := Generated.C20.cliActions.map ofRaw
/-- `make_toml_parser()` -/
def tomlParser : Parser := Generated.C20.tomlActions.map ofRaw

/-! ### argparse -/

inductive Tok where
  | flag (s : Str)
  | val (t : Text)
  deriving DecidableEq, Repr

/-- `_parse_optional` on the canonical fragment: a word of length ≥ 2 starting with `-` is an
option token ('O'), everything else — including negative numbers, as neither parser has an option
that looks like one (`Generated.C20.negativeNumberLikeFlags = []`) — is an argument ('A'). -/
def lex : Text → Tok
  | .word ('-' :: c :: cs) => .flag ('-' :: c :: cs)
  | t => .val t

inductive ArgErr where
  | expectedOneArgument (dest : Str)
  | invalidValue (dest : Str)
  | invalidChoice (dest : Str)
  | notAllowedWith (dest : Str)
  | required
  | unrecognized
  | versionExit
  | unsupported
  | ignoredExplicitArgument (dest : Str)   -- `--strict=1`, `-Hz`: "ignored explicit argument" (RattrModel/Argv.lean)
  | ambiguousOption                        -- `--c`: "ambiguous option: … could match …" (RattrModel/Argv.lean)
  deriving DecidableEq, Repr

/-- `_get_value`: apply the `type=` callable. -/
def convert : VType → Text → Option Val
  | .str, t => some (.text t)
  | .noType, t => some (.text t)
  | .path, t => some (.text t)
  | .int, .num i => some (.int i)
  | .int, .word _ => none
  | .enum dom, .word s => if s ∈ dom then some (.text (.word s)) else none
  | .enum _, .num _ => none
  | .unsupported, _ => none

structure St where
  ns : Namespace
  seen : List Str      -- dests of the actions taken so far (`seen_actions`)
  seenND : List Str    -- … taken with a value that `is not` the default (`seen_non_default_actions`)
  extras : Bool        -- something went to `extras`
  deriving DecidableEq, Repr

/-- `_get_values` for one occurrence: `[]` for a zero-argument action, else convert + check. -/
def getValues (o : Opt) (arg : Option Text) : Except ArgErr Val :=
  match arg with
  | none => .ok (.texts [])
  | some t =>
    match convert o.vtype t with
    | none => .error (.invalidValue o.dest)
    | some v =>
      match o.choices with
      | none => .ok v
      | some cs => if v ∈ cs then .ok v else .error (.invalidChoice o.dest)

def conflictSeen (p : Parser) (o : Opt) (seenND : List Str) : Bool :=
  p.any fun o' => o'.mutex.isSome && o'.mutex == o.mutex && o'.dest != o.dest && seenND.contains o'.dest

/-- The `__call__` of the three value-carrying actions. -/
def applyAction (o : Opt) (v : Val) (ns : Namespace) : Except ArgErr Namespace :=
  match o.action with
  | .store => .ok (Dict.set ns o.dest v)
  | .storeTrue => .ok (Dict.set ns o.dest (.bool true))
  | .append =>
    match v with
    | .text t =>
      match Dict.get? ns o.dest with
      | some (.texts l) => .ok (Dict.set ns o.dest (.texts (l ++ [t])))   -- `_copy_items(items)`
      | some .none => .ok (Dict.set ns o.dest (.texts [t]))
      | none => .ok (Dict.set ns o.dest (.texts [t]))                      -- getattr(…, None)
      | some _ => .error .unsupported
    | _ => .error .unsupported
  | .version => .error .versionExit
  | .unsupported => .error .unsupported

/-- `take_action`. `argument_values is not action.default` is modelled by `≠` (for the grouped
options of the table the values are small ints / `[]` vs `False`, where `is` and `==` agree). -/
def takeAction (p : Parser) (o : Opt) (arg : Option Text) (st : St) : Except ArgErr St :=
  match getValues o arg with
  | .error e => .error e
  | .ok v =>
    let nd := v != o.default
    if nd && conflictSeen p o st.seenND then .error (.notAllowedWith o.dest)
    else
      match applyAction o v st.ns with
      | .error e => .error e
      | .ok ns => .ok { ns := ns, seen := o.dest :: st.seen,
                        seenND := if nd then o.dest :: st.seenND else st.seenND, extras := st.extras }

def findFlag (p : Parser) (f : Str) : Option Opt := p.find? fun o => o.flags.contains f
def nextPositional (p : Parser) (seen : List Str) : Option Opt :=
  p.find? fun o => o.flags.isEmpty && !seen.contains o.dest

/-- `_parse_known_args`' main loop, left to right. -/
def run (p : Parser) : List Tok → St → Except ArgErr St
  | [], st => .ok st
  | .val t :: rest, st =>
    match nextPositional p st.seen with
    | none => run p rest { st with extras := true }
    | some o =>
      match takeAction p o (some t) st with
      | .error e => .error e
      | .ok st' => run p rest st'
  | .flag f :: rest, st =>
    match findFlag p f with
    | none => run p rest { st with extras := true }
    | some o =>
      match o.action with
      | .storeTrue =>
        match takeAction p o none st with
        | .error e => .error e
        | .ok st' => run p rest st'
      | .version => .error .versionExit
      | .unsupported => .error .unsupported
      | _ =>
        match rest with
        | .val t :: rest' =>
          match takeAction p o (some t) st with
          | .error e => .error e
          | .ok st' => run p rest' st'
        | _ => .error (.expectedOneArgument o.dest)

/-- "add any action defaults that aren't present". -/
def applyDefaults : Parser → Namespace → Namespace
  | [], ns => ns
  | o :: p, ns =>
    if Dict.contains ns o.dest || o.default == .suppress then applyDefaults p ns
    else applyDefaults p (Dict.set ns o.dest o.default)

def finish (p : Parser) (st : St) : Except ArgErr Namespace :=
  if p.any (fun o => o.required && !st.seen.contains o.dest) then .error .required
  else if st.extras then .error .unrecognized
  else .ok st.ns

/-- `parser.parse_args(args=toks, namespace=ns)`. -/
def parse (p : Parser) (toks : List Tok) (ns : Namespace) : Except ArgErr Namespace :=
  match run p toks { ns := applyDefaults p ns, seen := [], seenND := [], extras := false } with
  | .error e => .error e
  | .ok st => finish p st

/-! ### TOML -/

inductive Scalar where
  | bool (b : Bool) | int (i : Int) | str (t : Text) | other     -- other: float, date/time, nested
  deriving DecidableEq, Repr

inductive TVal where
  | sc (s : Scalar) | list (l : List Scalar) | table
  deriving DecidableEq, Repr

/-- `[tool.rattr]` as a dict (insertion = file order; keys distinct). -/
abbrev Toml := Dict Str TVal

inductive TomlType where
  | flag | int | string | listOfStrings | unknown
  deriving DecidableEq, Repr

def tomlTypeOfRaw (s : String) : TomlType :=
  if s = "flag" then .flag else if s = "int" then .int else if s = "string" then .string
  else if s = "list_of_strings" then .listOfStrings else .unknown

/-- `TOML_ARGUMENT_TYPE_MAP` -/
def tomlTypeMap : Dict Str TomlType := Generated.C20.tomlTypeMap.map fun (k, t) => (str k, tomlTypeOfRaw t)
/-- `TOML_ARGUMENT_NAME_TO_SYS_ARGUMENT_NAME_MAP` -/
def tomlNameMap : Dict Str Str := Generated.C20.tomlNameMap.map fun (k, v) => (str k, str v)

def Scalar.isStr : Scalar → Bool
  | .str _ => true
  | _ => false

/-- `TomlArgumentType.is_valid`; `int` is `isinstance(value, int) and not isinstance(value, bool)`. -/
def TomlType.isValid : TomlType → TVal → Bool
  | .flag, .sc (.bool _) => true
  | .int, .sc (.int _) => true
  | .string, .sc (.str _) => true
  | .listOfStrings, .list l => l.all Scalar.isStr
  | _, _ => false

/-- The probe values of `Generated.C20.isValidProbes`, by name. -/
def probeVal (name : String) : Option TVal :=
  if name = "True" then some (.sc (.bool true))
  else if name = "False" then some (.sc (.bool false))
  else if name = "0" then some (.sc (.int 0))
  else if name = "3" then some (.sc (.int 3))
  else if name = "-5" then some (.sc (.int (-5)))
  else if name = "'s'" then some (.sc (.str (.word (Rattr.str "s"))))
  else if name = "''" then some (.sc (.str (.word [])))
  else if name = "1.5" then some (.sc .other)
  else if name = "[]" then some (.list [])
  else if name = "['a']" then some (.list [.str (.word (Rattr.str "a"))])
  else if name = "['a', 1]" then some (.list [.str (.word (Rattr.str "a")), .int 1])
  else if name = "[True]" then some (.list [.bool true])
  else if name = "{}" then some .table
  else none

inductive TomlFail where
  | decode                       -- TOMLDecodeError
  | type (key : Str)             -- "… expects type …"
  | notImplemented
  | arg (e : ArgErr)             -- the TOML parser's ArgumentError
  deriving DecidableEq, Repr

def prune (tm : Dict Str TomlType) (conf : Toml) : Toml :=
  conf.filter fun kv => Dict.contains tm kv.1

def checkTypes (tm : Dict Str TomlType) : Toml → Except TomlFail Unit
  | [] => .ok ()
  | (k, v) :: rest =>
    match Dict.get? tm k with
    | none => .error .notImplemented          -- unreachable after `prune` (KeyError)
    | some .unknown => .error .notImplemented
    | some ty => if ty.isValid v then checkTypes tm rest else .error (.type k)

/-- `_validate_toml_config` -/
def validateToml (tm : Dict Str TomlType) (conf : Toml) : Except TomlFail Toml :=
  match checkTypes tm (prune tm conf) with
  | .error e => .error e
  | .ok () => .ok (prune tm conf)

def argName (nm : Dict Str Str) (k : Str) : Str :=
  if k.length > 1 then
    '-' :: '-' :: (match Dict.get? nm k with | some n => n | none => k)
  else '-' :: k

/-- `f"{v}"` of a list element. -/
def Scalar.render : Scalar → Text
  | .bool true => .word (Rattr.str "True")
  | .bool false => .word (Rattr.str "False")
  | .int i => .num i
  | .str t => t
  | .other => .word (Rattr.str "<unrendered>")    -- never reached after `validateToml` (see C20.validate_kept_valid)

def translate1 (name : Str) : TVal → List Text
  | .sc (.bool true) => [.word name]
  | .sc (.bool false) => []
  | .sc (.int i) => [.word name, .num i]
  | .sc (.str t) => [.word name, t]
  | .sc .other => [.word name, .word (Rattr.str "<unrendered>")]
  | .list l => l.flatMap fun s => [.word name, s.render]
  | .table => []

/-- `_translate_toml_conf_to_sys_args` -/
def translate (nm : Dict Str Str) : Toml → List Text
  | [] => []
  | (k, v) :: rest => translate1 (argName nm k) v ++ translate nm rest

/-! ### Which TOML file -/

/-- What `tomllib.loads(file.read_text()).get("tool", {}).get("rattr", {})` gives for a file
(fragment: `tool` and `tool.rattr`, when present, are tables). -/
inductive TomlFile where
  | decodeError
  | table (c : Toml)
  deriving DecidableEq, Repr

structure Dir where
  vcs : Bool                        -- has .git / .hg / .svn
  pyproject : Option TomlFile       -- `pyproject.toml` is a file
  deriving DecidableEq, Repr

def Dir.isRoot (d : Dir) : Bool := d.vcs || d.pyproject.isSome

structure World where
  overrideFile : Option TomlFile    -- the file at the path given to `-c`; `none` = not a file
  cwd : Dir
  parents : List Dir                -- nearest first
  deriving DecidableEq, Repr

/-- `find_pyproject_toml()` -/
def findPyproject (w : World) : Option TomlFile :=
  if w.cwd.isRoot then w.cwd.pyproject
  else
    match w.parents.find? Dir.isRoot with
    | some d => d.pyproject
    | none => w.cwd.pyproject

/-- `_get_toml_override` given the namespace of the first CLI parse. -/
def getOverride (w : World) (ns : Namespace) : Option TomlFile :=
  match Dict.get? ns (str "pyproject_toml_override") with
  | some (.text _) => w.overrideFile
  | _ => none

/-- `parse_project_toml(pyproject, override)`: the override if there is one, else the project's. -/
def selectFile (override pyproject : Option TomlFile) : Option TomlFile :=
  match override with
  | some f => some f
  | none => pyproject

inductive Outcome where
  | ok (ns : Namespace)
  | cliError (e : ArgErr)                 -- ArgumentError raised / usage + exit 2
  | tomlError (e : TomlFail)              -- exit_on_error=False: the exception is re-raised
  | tomlFatal (e : TomlFail)              -- exit_on_error=True: "fatal: error parsing project toml: …", exit 1
  deriving DecidableEq, Repr

def tomlErr (exitOnError : Bool) (e : TomlFail) : Outcome :=
  if exitOnError then .tomlFatal e else .tomlError e

/-- `parse_arguments(sys_args=argv, project_toml_conf=inputConf, exit_on_error=…)`. -/
def parseArguments (w : World) (inputConf : Option Toml) (argv : List Text) (exitOnError : Bool) : Outcome :=
  let toks := argv.map lex
  -- _get_toml_override: a complete CLI parse into a fresh namespace
  match parse cliParser toks [] with
  | .error e => .cliError e
  | .ok ns0 =>
    -- _parse_project_config
    let raw : Except TomlFail Toml :=
      match inputConf with
      | some (kv :: c) => .ok (kv :: c)            -- `if not input_config` is false
      | _ =>
        match selectFile (getOverride w ns0) (findPyproject w) with
        | none => .ok []
        | some .decodeError => .error .decode
        | some (.table c) => .ok c
    match raw with
    | .error e => tomlErr exitOnError e
    | .ok conf =>
      match validateToml tomlTypeMap conf with
      | .error e => tomlErr exitOnError e
      | .ok conf =>
        match parse tomlParser ((translate tomlNameMap conf).map lex) [] with
        | .error e => tomlErr exitOnError (.arg e)
        | .ok ns1 =>
          match parse cliParser toks ns1 with
          | .error e => .cliError e
          | .ok ns => .ok ns

end Rattr.Cli

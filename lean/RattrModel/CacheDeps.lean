/-
  RattrModel.CacheDeps — the parts of the cache (C19) that `RattrModel.Cache` takes as parameters,
  modelled from the code:

    * `make_arguments_hash` (rattr/models/results/util.py): WHAT is hashed — the tuple
      `HashableArguments(LITERAL_VALUE_PREFIX, follow level, sorted(excluded_imports),
      sorted(excluded_names))` where `Arguments.excluded_imports` / `excluded_names` are `set(...)`s of
      the patterns as given (rattr/config/_types.py). `hash_string(str(·))` is treated as injective
      (as md5 is everywhere in this property), so the key IS the tuple: `argsKey`.
    * `is_in_import_blacklist`, `is_in_pip`, `derive_module_names_right`
      (rattr/module_locator/util.py), with `re.fullmatch` (`Static.reMatch`), isort's stdlib verdict
      (`Static.isStdlib`) and the module locator (`Static.mods`, C13's subject) as parameters.
    * `make_cacheable_import_info`: the filter chain of the set comprehension over the `Import`
      symbols of the target's context and of every analysed module's context (`recordsSym`,
      `recordedOf`), on top of the import follower of C12 (`Imports.bfs`).
    * `main` over histories whose edits may hit ANY file (`OpG`, `stepG`): the target, local modules,
      site-packages modules, stdlib(-named) modules; `Cache.step` is the instance with two local
      modules (`Op.toG`).

  With these the `recorded` / `readSet` parameters of `Cache.Analysis` are COMPUTED (`depsAnalysis`),
  and the `covers` half of the frame hypothesis plus the `recorded` half of its `frame` field become
  theorems (RattrProofs/Props/C19: `deps_covers`, `deps_recorded_frame`); what stays assumed is only
  that the results depend on nothing but the files the import follower reads (`FreshFrame`).
-/
import RattrModel.Cache
import RattrModel.Imports
import RattrModel.Spec.Allowed
import RattrModel.Strs

namespace Rattr.CacheDeps
open Rattr Rattr.Cache Rattr.Imports

/-! ## 1. The hashed options -/

/-- `<` on Python `str`: lexicographic on code points. -/
def strLt : Str → Str → Bool
  | [], [] => false
  | [], _ :: _ => true
  | _ :: _, [] => false
  | a :: as, b :: bs =>
    if a.toNat < b.toNat then true else if b.toNat < a.toNat then false else strLt as bs

/-- Insert into a strictly sorted list (no duplicates). -/
def insertU (s : Str) : List Str → List Str
  | [] => [s]
  | t :: r => if s = t then t :: r else if strLt s t then s :: t :: r else t :: insertU s r

/-- `sorted(set(l))`. -/
def canon (l : List Str) : List Str := l.foldr insertU []

/-- The options that enter the hash, as given on the command line / in pyproject.toml
(`action="append"`: order and repetitions preserved). -/
structure RawOpts where
  follow : Nat
  exclImports : List Str
  exclNames : List Str
  deriving DecidableEq, Repr

/-- `HashableArguments`. -/
structure ArgsKey where
  litPrefix : Str
  follow : Nat
  exclImports : List Str
  exclNames : List Str
  deriving DecidableEq, Repr

/-- `make_arguments_hash()` up to the (injective) `hash_string(str(·))`. -/
def argsKey (litPrefix : Str) (o : RawOpts) : ArgsKey :=
  { litPrefix := litPrefix, follow := o.follow,
    exclImports := canon o.exclImports, exclNames := canon o.exclNames }

/-- The field names of `HashableArguments` this structure stands for (Tie A). -/
def argsKeyFields : List String :=
  ["literal_value_prefix", "follow_imports_level", "excluded_imports", "excluded_names"]

/-- The expressions the tuple is built from (Tie A: ast of `make_arguments_hash`). -/
def argsKeySources : List String :=
  ["config.LITERAL_VALUE_PREFIX", "config.arguments.follow_imports.value",
   "sorted(config.arguments.excluded_imports)", "sorted(config.arguments.excluded_names)"]

/-- Bodies of `Arguments.excluded_imports` / `excluded_names` and of `Config.blacklist_patterns`
(Tie A): the patterns are a SET of the strings as given. -/
def optionSetSources : List String :=
  ["excluded_imports:if self._excluded_imports is None:return set()|return set(self._excluded_imports)",
   "excluded_names:if self._excluded_names is None:return set()|return set(self._excluded_names)",
   "blacklist_patterns:return self.arguments.excluded_imports | self.MODULE_BLACKLIST_PATTERNS | self.PLUGINS_BLACKLIST_PATTERNS"]

/-! ## 2. Module classification (`rattr/module_locator/util.py`) -/

/-- What the module locator says about one module name (C13's subject: a parameter here). -/
structure ModInfo (ω : Type) where
  name : Str
  /-- `spec.origin` -/
  origin : Option ω
  /-- `read(origin)` + `ast.parse` succeed -/
  readable : Bool
  deriving Repr, DecidableEq

/-- Everything that does not change along a history. -/
structure Static (ω H : Type) where
  mods : List (ModInfo ω)
  /-- `str(origin)` with `\` replaced by `/` (`__safe_origin`) -/
  originStr : ω → Str
  /-- `re.compile(pattern).fullmatch(text) is not None` — trusted classifier -/
  reMatch : Str → Str → Bool
  /-- `place_module(name) == STDLIB` (isort) — trusted classifier -/
  isStdlib : Str → Bool
  /-- `MODULE_BLACKLIST_PATTERNS | PLUGINS_BLACKLIST_PATTERNS` -/
  permanent : List Str
  /-- `PYTHON_BUILTINS_LOCATION` -/
  builtins : ω
  /-- the `Import` symbols of the root context of the file `origin` with content `c`, in symbol-table
  order: (module named in the import statement, `Import.module_name`) — the parser is a parameter -/
  importsOf : ω → H → List (Str × Option Str)
  /-- pops the work-list loop may make (the driver passes one more than the number of import symbols
  of every variant of every file: never exhausted) -/
  fuel : Nat

variable {ω H X R : Type} [DecidableEq ω] [DecidableEq H]

def Static.find (S : Static ω H) (n : Str) : Option (ModInfo ω) :=
  S.mods.find? (fun mi => decide (mi.name = n))

/-- `find_module_spec_fast(name).origin` -/
def Static.locate (S : Static ω H) (n : Str) : Option ω := (S.find n).bind (·.origin)

/-- All non-empty prefixes of a list, longest first. -/
def prefixesDesc {α : Type} (l : List α) : List (List α) :=
  (List.range l.length).map (fun k => l.take (l.length - k))

/-- `derive_module_names_right(name)`: `a.b.c`, `a.b`, `a`. -/
def namesRight (n : Str) : List Str := (prefixesDesc (Strs.splitDot n)).map Strs.joinDot

/-- Shape of `iter_module_names_right` / `derive_module_names_right` (Tie A). -/
def namesRightShape : List String :=
  ["yield '.'.join(module_parts)",
   "for end_offset in range(1, len(module_parts)):|    yield '.'.join(module_parts[:-end_offset])",
   "return list(iter_module_names_right(modulename.split('.')))"]

/-- Shape of `__safe_origin` (Tie A). -/
def safeOriginShape : List String :=
  ["spec = find_module_spec_fast(module)", "if spec is None or spec.origin is None:return None",
   "return spec.origin.replace('\\\\', '/')"]

/-- `[__safe_origin(m) for m in derive_module_names_right(name)]` without the `None`s. -/
def safeOrigins (S : Static ω H) (n : Str) : List Str :=
  (namesRight n).filterMap (fun m => (S.locate m).map S.originStr)

/-- `re.compile(r".+/site-packages.*").fullmatch(s)`: at least one character, then the literal. -/
def isPipPath : Str → Bool
  | [] => false
  | _ :: r => Strs.containsSub r (Strs.lit "/site-packages")

/-- The patterns of `RE_PIP_INSTALL_LOCATIONS` (Tie A). -/
def pipPatterns : List String := [".+/site-packages.*"]

/-- `is_in_pip(name)` -/
def inPip (S : Static ω H) (n : Str) : Bool := (safeOrigins S n).any isPipPath

/-- `is_in_import_blacklist(name)` with the user's patterns `pats`. -/
def blacklisted (S : Static ω H) (pats : List Str) (n : Str) : Bool :=
  n.isEmpty ||
    (!S.isStdlib n &&
      (safeOrigins S n ++ [n]).any (fun c => (pats ++ S.permanent).any (fun p => S.reMatch p c)))

/-- Statement-level shape of `is_in_import_blacklist` (Tie A). -/
def blacklistShape : List String :=
  ["config = Config()", "if not name:return True", "if is_in_stdlib(name):return False",
   "origins = [__safe_origin(module) for module in derive_module_names_right(name)]",
   "origins.append(name)",
   "return any((re_pattern.fullmatch(origin) for origin in origins for re_pattern in config.re_blacklist_patterns if origin is not None))"]

/-- Statement-level shape of `is_in_pip` (Tie A). -/
def inPipShape : List String :=
  ["return any((re_pip_location.fullmatch(origin) for module in derive_module_names_right(name) for re_pip_location in RE_PIP_INSTALL_LOCATIONS if (origin := __safe_origin(module)) is not None))"]

/-! ## 3. The module graph of a world and `make_cacheable_import_info` -/

abbrev W (ω H X : Type) := World ω H ArgsKey X

/-- The `Import` symbols of the file at `o` in world `w`. -/
def symsOf (S : Static ω H) (D : Dir ω H) (w : W ω H X) (o : ω) : List (Imp Str) :=
  (S.importsOf o (hashFile D w o)).map fun st =>
    { target := st.2, declBlacklisted := blacklisted S w.opts.exclImports st.1 }

def mkMod (S : Static ω H) (D : Dir ω H) (w : W ω H X) (mi : ModInfo ω) : Module Str ω :=
  { name := mi.name, origin := mi.origin, readable := mi.readable,
    blacklisted := blacklisted S w.opts.exclImports mi.name,
    inPip := inPip S mi.name, inStdlib := S.isStdlib mi.name, excluded := false,
    imports := match mi.origin with
      | some o => symsOf S D w o
      | none => [] }

/-- The graph `Imports.bfs` runs on: one node per locatable name, classification verdicts computed,
import symbols read from the CURRENT content of each file. -/
def graphOf (S : Static ω H) (D : Dir ω H) (w : W ω H X) : Graph Str ω :=
  S.mods.map (mkMod S D w)

/-- `__parse_and_analyse_file_impl`: root context of the target, then the import follower. -/
def run (S : Static ω H) (D : Dir ω H) (w : W ω H X) : Imports.Out Str ω :=
  bfs (graphOf S D w) (Spec.levelFlags w.opts.follow) S.fuel (symsOf S D w w.target)

/-- The `if` chain of the set comprehension in `make_cacheable_import_info`, for one symbol:
`module_name is not None`, `not is_in_import_blacklist(module_name)`, `module_spec is not None`,
`origin is not None`, `origin != PYTHON_BUILTINS_LOCATION`; the element is the origin. -/
def recordsSym (g : Graph Str ω) (builtins : ω) (i : Imp Str) : Option ω :=
  match i.target with
  | none => none
  | some n =>
    match Imports.lookup g n with
    | none => none
    | some m =>
      if m.blacklisted then none
      else match m.origin with
        | none => none
        | some o => if o = builtins then none else some o

/-- The comprehension, clause by clause (Tie A: ast of `make_cacheable_import_info`). -/
def importInfoShape : List String :=
  ["contexts=(target_ir.context, *(import_.context for import_ in import_irs.values()))",
   "elt=CacheableImportInfo.from_file(symbol.module_spec.origin)",
   "for context in contexts", "for symbol in context.symbol_table.symbols",
   "if isinstance(symbol, Import)", "if symbol.module_name is not None",
   "if not is_in_import_blacklist(symbol.module_name)", "if symbol.module_spec is not None",
   "if symbol.module_spec.origin is not None",
   "if symbol.module_spec.origin != PYTHON_BUILTINS_LOCATION",
   "sorted:key=lambda info: info.filepath"]

/-- `(target_ir.context, *(import_.context for import_ in import_irs.values()))`, as symbol lists. -/
def ctxs (g : Graph Str ω) (targetSyms : List (Imp Str)) (analysed : List Str) :
    List (List (Imp Str)) :=
  targetSyms :: analysed.filterMap (fun n => (Imports.lookup g n).map (·.imports))

def dedup {α : Type} [DecidableEq α] : List α → List α
  | [] => []
  | a :: r => if a ∈ dedup r then dedup r else a :: dedup r

/-- `make_cacheable_import_info` (a set, printed sorted by path; here: without repetitions, in
discovery order — only membership is compared). -/
def recordedOf (g : Graph Str ω) (builtins : ω) (targetSyms : List (Imp Str))
    (analysed : List Str) : List ω :=
  dedup ((ctxs g targetSyms analysed).flatMap (fun c => c.filterMap (recordsSym g builtins)))

def originOf (g : Graph Str ω) (n : Str) : Option ω := (Imports.lookup g n).bind (·.origin)

def recorded (S : Static ω H) (D : Dir ω H) (w : W ω H X) : List ω :=
  recordedOf (graphOf S D w) S.builtins (symsOf S D w w.target) (run S D w).state.analysed

/-- The files whose content the run reads: the target and every analysed module. -/
def readSet (S : Static ω H) (D : Dir ω H) (w : W ω H X) : List ω :=
  w.target :: (run S D w).state.analysed.filterMap (originOf (graphOf S D w))

/-- The analysis with `recorded` and `readSet` computed by the model of the code. `freshP` (the
results) and `failsP` (fatal by badness / strictness) remain parameters. A run whose import stage does
not complete (rattr's own `fatal`, a crash on an unreadable origin) writes no cache. -/
def depsAnalysis (S : Static ω H) (D : Dir ω H) (freshP : W ω H X → R) (failsP : W ω H X → Bool) :
    Analysis ω H ArgsKey X R :=
  { fresh := freshP
    recorded := recorded S D
    readSet := readSet S D
    fails := fun w => !(run S D w).isDone || failsP w }

/-- Decidable side condition on the static table: the pseudo-origin `built-in` is not a readable
source file. -/
def BuiltinsUnreadable (S : Static ω H) : Bool :=
  S.mods.all (fun mi => decide (mi.origin = some S.builtins) → !mi.readable)

/-! ## 4. `main` over histories that may edit any file -/

section general
variable {P O : Type} [DecidableEq P] [DecidableEq O]

inductive OpG (P H O X : Type) where
  | edit (p : P) (c : H)
  | setOptions (o : O) (x : X)
  | runWithCache
  | forceRefresh
  deriving DecidableEq, Repr

variable (D : Dir P H) (A : Analysis P H O X R)

def stepG (s : State P H O X R) : OpG P H O X → State P H O X R × Out
  | .edit p c => ({ s with world := s.world.setContent p c }, .noRun)
  | .setOptions o x => ({ s with world := { s.world with opts := o, other := x } }, .noRun)
  | .runWithCache =>
    match gate D s.world s.disk with
    | .fresh => (s, .hit)
    | .crash e => (s, .crash e)
    | .stale => analyse D A s
  | .forceRefresh => analyse D A { s with disk := .absent }

def execG (s : State P H O X R) : List (OpG P H O X) → State P H O X R
  | [] => s
  | o :: os => execG (stepG D A s o).1 os

def outsG (s : State P H O X R) : List (OpG P H O X) → List Out
  | [] => []
  | o :: os => (stepG D A s o).2 :: outsG (stepG D A s o).1 os

def lastWrittenG (init : Option (World P H O X)) (s : State P H O X R) :
    List (OpG P H O X) → Option (World P H O X)
  | [] => init
  | o :: os =>
    lastWrittenG (if (stepG D A s o).2 = .missWritten then some s.world else init)
      (stepG D A s o).1 os

/-- The ops of `Cache.step` as general ops (`t` = the target path). -/
def toG (L : Layout P) (t : P) : Op H O X → OpG P H O X
  | .editTarget c => .edit t c
  | .editDirect c => .edit L.direct c
  | .editTransitive c => .edit L.transitive c
  | .changeOption o x => .setOptions o x
  | .runWithCache => .runWithCache
  | .forceRefresh => .forceRefresh

end general

end Rattr.CacheDeps

/-
  RattrModel.Basic — shared vocabulary of the model (no Mathlib).

  Strings that the model computes with are `List Char` (`Str`): every operation rattr performs on
  names (`replace`, `split`, `startswith`, `endswith`, `+`) then reduces inside the kernel, so
  counterexample theorems can be closed by `decide`.
-/

deriving instance DecidableEq for Except

namespace Rattr

abbrev Str := List Char

def str (s : String) : Str := s.toList
def Str.toS (s : Str) : String := String.ofList s

/-- Insertion-ordered dictionary, as Python's `dict`: assignment to an existing key keeps its
position and replaces the value; a new key is appended. -/
abbrev Dict (κ ν : Type) := List (κ × ν)

namespace Dict
variable {κ ν : Type} [DecidableEq κ]

def get? : Dict κ ν → κ → Option ν
  | [], _ => none
  | (k, v) :: r, x => if k = x then some v else get? r x

def contains (d : Dict κ ν) (x : κ) : Bool := (get? d x).isSome

def set : Dict κ ν → κ → ν → Dict κ ν
  | [], x, y => [(x, y)]
  | (k, v) :: r, x, y => if k = x then (k, y) :: r else (k, v) :: set r x y

def keys (d : Dict κ ν) : List κ := d.map Prod.fst

end Dict

/-- `xs.remove x` of a Python list: drops the first occurrence. -/
def removeFirst {α : Type} [DecidableEq α] : List α → α → List α
  | [], _ => []
  | a :: r, x => if a = x then r else a :: removeFirst r x

end Rattr

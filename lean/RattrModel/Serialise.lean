/-
  RattrModel.Serialise — model of rattr's serialisation hooks (stage S8, property C18):
  `rattr/models/util/_serialisation_helpers.py` + the attrs classes they are registered for.

  For every class of the object algebra: `unstructure : Obj → JVal` = what the registered
  unstructure hook computes (which keys, in which order, where `sorted(…)` is applied and on WHICH
  key) and `structure : JVal → Except StructErr Obj` = what the registered structure hook computes.
  `cattrs`/`json` themselves are trusted.

  * Python sets are lists; the order of the list is the set's iteration order (hash-seed dependent).
  * `sorted(xs, key=k)` is `sortBy le k xs`, a STABLE insertion sort: ties keep input order,
    exactly as Python's sort does. Since a47e117 the four IR sets are sorted on the pair
    `(s["name"], json.dumps(s, sort_keys=True))`, modelled character for character (`irKey`).
  * Python dicts are insertion-ordered key lists; a dict comprehension is a fold of `Dict.set`
    (an existing key keeps its position and takes the new value).
  * `Location.token`/`Symbol.token` are never serialised (`omit=True` / popped) and are not part of
    the model. `Call.interface` has `init=False` and is omitted by cattrs.

  Fragment of `structure` (what the model claims to reproduce): documents in which every field key
  of the class is present (cattrs would fall back on attrs defaults for a missing key; the model
  answers `missingKey`), whose scalars have the declared JSON type (cattrs coerces `str(x)`/`int(x)`;
  the model answers `wrongType`), and in which a `Call`'s target is not itself a `Call`
  (`outsideFragment`). Every document the serialiser emits for a type-correct object is inside.
-/
import RattrModel.Json
import RattrModel.Swaps

namespace Rattr
namespace Ser

/-! ### Python's `str` ordering (code points, lexicographic) and the stable sort -/

def strLe : Str → Str → Bool
  | [], _ => true
  | _ :: _, [] => false
  | a :: as, b :: bs =>
    if a.toNat < b.toNat then true else if b.toNat < a.toNat then false else strLe as bs

section Sorting
variable {α κ : Type}

/-- Insert `a` before the first element whose key is not smaller (`le (key a) (key b)`). -/
def insertBy (le : κ → κ → Bool) (key : α → κ) (a : α) : List α → List α
  | [] => [a]
  | b :: r => if le (key a) (key b) then a :: b :: r else b :: insertBy le key a r

/-- Stable sort: each element is inserted in front of the already sorted *later* elements, so of two
elements with equal keys the one that came first in the input stays first. -/
def sortBy (le : κ → κ → Bool) (key : α → κ) : List α → List α
  | [] => []
  | a :: r => insertBy le key a (sortBy le key r)

/-- `set(xs)` / a dict keyed by `eq`: keep the first occurrence of each class. -/
def dedupBy (eq : α → α → Bool) : List α → List α
  | [] => []
  | a :: r => a :: (dedupBy eq r).filter (fun b => !eq a b)

/-- `d[k] = v` on an insertion-ordered dict whose keys compare with `eq`. -/
def setBy {ν : Type} (eq : α → α → Bool) : List (α × ν) → α → ν → List (α × ν)
  | [], x, y => [(x, y)]
  | (k, v) :: r, x, y => if eq k x then (k, y) :: r else (k, v) :: setBy eq r x y

/-- `{k: v for (k, v) in pairs}`. -/
def dictOfBy {ν : Type} (eq : α → α → Bool) (pairs : List (α × ν)) : List (α × ν) :=
  pairs.foldl (fun d p => setBy eq d p.1 p.2) []

end Sorting

def sortStr (xs : List Str) : List Str := sortBy strLe id xs

/-! ### The object algebra -/

/-- `Location` without `token`. `file` is `str(Path)`. -/
structure Location where
  lineno : Int
  colOffset : Int
  endLineno : Option Int
  endColOffset : Option Int
  file : Str
  deriving Repr, DecidableEq

/-- `CallInterface | AnyCallInterface` -/
inductive CallIface where
  | any
  | mk (i : Iface Str)
  deriving Repr, DecidableEq

/-- The symbols that may be the `target` of a `Call`: every kind but `Call`. -/
inductive Target where
  | name (name basename : Str) (loc : Location) (iface : Option CallIface)
  | builtin (name : Str) (loc : Location) (iface : CallIface)
  | import_ (name qualifiedName : Str) (loc : Location) (iface : CallIface)
  | func (name : Str) (loc : Location) (iface : CallIface) (isAsync : Bool)
  | cls (name : Str) (loc : Location) (iface : CallIface)
  deriving Repr, DecidableEq

inductive Symbol where
  | base (t : Target)
  | call (name : Str) (args : CallArgs Str) (target : Option Target) (loc : Location)
  deriving Repr, DecidableEq

def Target.nm : Target → Str
  | .name n _ _ _ | .builtin n _ _ | .import_ n _ _ _ | .func n _ _ _ | .cls n _ _ => n

def Symbol.nm : Symbol → Str
  | .base t => t.nm
  | .call n _ _ _ => n

/-- `Symbol.id`: the name, except `Import('*')` which is `<qualified_name>.*`. -/
def Target.id : Target → Str
  | .import_ n q _ _ => if n = ['*'] then q ++ ['.', '*'] else n
  | t => t.nm

def Symbol.id : Symbol → Str
  | .base t => t.id
  | .call n _ _ _ => n

/-- Python `==` on symbols: attrs `eq` over every field but `token` and `location`
(`eq=False` on both). Dict keys and set members are identified by this relation. A `Call`'s
keyword arguments are a `frozendict`: compared as a mapping (`callArgsPyEq`). -/
def Target.pyEq : Target → Target → Bool
  | .name n b _ i, .name n' b' _ i' => n == n' && b == b' && i == i'
  | .builtin n _ i, .builtin n' _ i' => n == n' && i == i'
  | .import_ n q _ i, .import_ n' q' _ i' => n == n' && q == q' && i == i'
  | .func n _ i a, .func n' _ i' a' => n == n' && i == i' && a == a'
  | .cls n _ i, .cls n' _ i' => n == n' && i == i'
  | _, _ => false

def optPyEq : Option Target → Option Target → Bool
  | none, none => true
  | some a, some b => a.pyEq b
  | _, _ => false

/-- `CallArguments.__eq__`: `args` is a tuple; `kwargs` is a `frozendict`, compared (and hashed) as
a mapping — its insertion order is irrelevant. On key lists with unique keys that is "same entries
up to order". -/
def callArgsPyEq (a b : CallArgs Str) : Bool := a.args == b.args && a.kwargs.isPerm b.kwargs

def Symbol.pyEq : Symbol → Symbol → Bool
  | .base a, .base b => a.pyEq b
  | .call n a t _, .call n' a' t' _ => n == n' && callArgsPyEq a a' && optPyEq t t'
  | _, _ => false

/-- `FunctionIr`: four *sets* of symbols (lists standing for sets, in iteration order). -/
structure FunctionIr where
  gets : List Symbol
  sets : List Symbol
  dels : List Symbol
  calls : List Symbol
  deriving Repr, DecidableEq

/-- `Context`: `parent`, `symbol_table._symbols` (insertion-ordered dict id ↦ symbol), `file`. -/
inductive Context where
  | mk (parent : Option Context) (symtab : List (Str × Symbol)) (file : Str)
  deriving Repr

/-- `FileIr`: `context` and the dict `_file_ir : symbol ↦ FunctionIr` (insertion order). -/
structure FileIr where
  context : Context
  fileIr : List (Symbol × FunctionIr)
  deriving Repr

/-- `OutputIrs` (what `-o ir` prints): `import_irs` (dict module name ↦ FileIr, insertion order) and
the `TargetIr` typed dict. -/
structure OutputIrs where
  importIrs : List (Str × FileIr)
  targetName : Str
  targetIr : FileIr
  deriving Repr

/-- `FunctionResults`: four sets of identifiers. -/
structure FnResults where
  gets : List Str
  sets : List Str
  dels : List Str
  calls : List Str
  deriving Repr, DecidableEq

/-- `FileResults._function_results`: dict function name ↦ results. -/
abbrev FileResults := List (Str × FnResults)

structure ImportInfo where
  filepath : Str
  filehash : Str
  deriving Repr, DecidableEq

structure CacheableResults where
  version : Str
  argumentsHash : Str
  pluginsHash : Str
  filepath : Str
  filehash : Str
  imports : List ImportInfo     -- a Python list (already ordered by the producer)
  results : FileResults
  deriving Repr, DecidableEq

/-! ### Constants of the hooks (Tie A: `RattrModel/Generated/C18.lean`) -/

def anySentinel : Str := str "any"
def tagName : Str := str "Name"
def tagBuiltin : Str := str "Builtin"
def tagImport : Str := str "Import"
def tagFunc : Str := str "Func"
def tagClass : Str := str "Class"
def tagCall : Str := str "Call"

def kType : Str := str "type"
def kName : Str := str "name"
def kBasename : Str := str "basename"
def kQualifiedName : Str := str "qualified_name"
def kLocation : Str := str "location"
def kInterface : Str := str "interface"
def kIsAsync : Str := str "is_async"
def kArgs : Str := str "args"
def kKwargs : Str := str "kwargs"
def kTarget : Str := str "target"
def kLineno : Str := str "lineno"
def kColOffset : Str := str "col_offset"
def kEndLineno : Str := str "end_lineno"
def kEndColOffset : Str := str "end_col_offset"
def kFile : Str := str "file"
def kPosonlyargs : Str := str "posonlyargs"
def kVararg : Str := str "vararg"
def kKwonlyargs : Str := str "kwonlyargs"
def kKwarg : Str := str "kwarg"
def kGets : Str := str "gets"
def kSets : Str := str "sets"
def kDels : Str := str "dels"
def kCalls : Str := str "calls"
def kParent : Str := str "parent"
def kSymbolTable : Str := str "symbol_table"
def kContext : Str := str "context"
def kSymbols : Str := str "symbols"
def kFunctionIrs : Str := str "function_irs"
def kImportIrs : Str := str "import_irs"
def kTargetIr : Str := str "target_ir"
def kFilename : Str := str "filename"
def kIr : Str := str "ir"
def kVersion : Str := str "version"
def kArgumentsHash : Str := str "arguments_hash"
def kPluginsHash : Str := str "plugins_hash"
def kFilepath : Str := str "filepath"
def kFilehash : Str := str "filehash"
def kImports : Str := str "imports"
def kResults : Str := str "results"

/-- Field names in emission order, per class (compared with `attrs.fields`/probe documents). -/
def fieldsLocation : List Str := [kLineno, kColOffset, kEndLineno, kEndColOffset, kFile]
def fieldsIface : List Str := [kPosonlyargs, kArgs, kVararg, kKwonlyargs, kKwarg]
def fieldsCallArgs : List Str := [kArgs, kKwargs]
def fieldsName : List Str := [kType, kName, kBasename, kLocation, kInterface]
def fieldsBuiltin : List Str := [kType, kName, kLocation, kInterface]
def fieldsImport : List Str := [kType, kName, kQualifiedName, kLocation, kInterface]
def fieldsFunc : List Str := [kType, kName, kLocation, kInterface, kIsAsync]
def fieldsClass : List Str := [kType, kName, kLocation, kInterface]
def fieldsCall : List Str := [kType, kName, kArgs, kTarget, kLocation]
def fieldsFnIr : List Str := [kGets, kSets, kDels, kCalls]
def fieldsContext : List Str := [kParent, kSymbolTable, kFile]
def fieldsFileIr : List Str := [kContext, kSymbols, kFunctionIrs]
def fieldsOutputIrs : List Str := [kImportIrs, kTargetIr]
def fieldsTargetIr : List Str := [kFilename, kIr]
def fieldsCacheable : List Str :=
  [kVersion, kArgumentsHash, kPluginsHash, kFilepath, kFilehash, kImports, kResults]
def fieldsImportInfo : List Str := [kFilepath, kFilehash]
/-- the item the first component of the file-IR sort key reads: `s["name"]` -/
def irSortKey : Str := kName

/-! ### unstructure -/

def unLocation (l : Location) : JVal :=
  .obj [(kLineno, .num l.lineno), (kColOffset, .num l.colOffset),
        (kEndLineno, JVal.ofOptInt l.endLineno), (kEndColOffset, JVal.ofOptInt l.endColOffset),
        (kFile, .str l.file)]

/-- `serialise_call_interface`: the `"any"` sentinel, else the plain attrs dict. -/
def unIface : CallIface → JVal
  | .any => .str anySentinel
  | .mk i => .obj [(kPosonlyargs, JVal.ofStrList i.posonly), (kArgs, JVal.ofStrList i.args),
                   (kVararg, JVal.ofOptStr i.vararg), (kKwonlyargs, JVal.ofStrList i.kwonly),
                   (kKwarg, JVal.ofOptStr i.kwarg)]

def unOptIface : Option CallIface → JVal
  | none => .null
  | some i => unIface i

def unCallArgs (a : CallArgs Str) : JVal :=
  .obj [(kArgs, JVal.ofStrList a.args), (kKwargs, .obj (a.kwargs.map fun (k, v) => (k, .str v)))]

/-- `serialise_symbol` on a non-`Call` symbol: `{"type": <class name>, **attrs fields}` with
`token` popped. -/
def unTarget : Target → JVal
  | .name n b l i => .obj [(kType, .str tagName), (kName, .str n), (kBasename, .str b),
                           (kLocation, unLocation l), (kInterface, unOptIface i)]
  | .builtin n l i => .obj [(kType, .str tagBuiltin), (kName, .str n), (kLocation, unLocation l),
                            (kInterface, unIface i)]
  | .import_ n q l i => .obj [(kType, .str tagImport), (kName, .str n), (kQualifiedName, .str q),
                              (kLocation, unLocation l), (kInterface, unIface i)]
  | .func n l i a => .obj [(kType, .str tagFunc), (kName, .str n), (kLocation, unLocation l),
                           (kInterface, unIface i), (kIsAsync, .bool a)]
  | .cls n l i => .obj [(kType, .str tagClass), (kName, .str n), (kLocation, unLocation l),
                        (kInterface, unIface i)]

def unOptTarget : Option Target → JVal
  | none => .null
  | some t => unTarget t

/-- `serialise_symbol`; a `Call`'s non-null `target` is serialised by the same function. -/
def unSymbol : Symbol → JVal
  | .base t => unTarget t
  | .call n a t l => .obj [(kType, .str tagCall), (kName, .str n), (kArgs, unCallArgs a),
                           (kTarget, unOptTarget t), (kLocation, unLocation l)]

/-- `s["name"]` on an unstructured symbol. (A dict without `"name"` would be a `KeyError`;
unstructured symbols always have it: `jName_unSymbol`.) -/
def jName : JVal → Str
  | .obj kvs => match JVal.get? kvs irSortKey with
    | some (.str s) => s
    | _ => []
  | _ => []

/-! Keys of every object sorted (recursively): what `sort_keys=True` prints. -/
mutual
def canon : JVal → JVal
  | .arr xs => .arr (canonList xs)
  | .obj kvs => .obj (sortBy strLe (fun p => p.1) (canonKvs kvs))
  | j => j
def canonList : List JVal → List JVal
  | [] => []
  | a :: r => canon a :: canonList r
def canonKvs : List (Str × JVal) → List (Str × JVal)
  | [] => []
  | (k, a) :: r => (k, canon a) :: canonKvs r
end

/-- `json.dumps(s, sort_keys=True)` -/
def dumpSorted (j : JVal) : Str := JVal.renderSp (canon j)

/-- Python's `<=` on a pair of strings (tuple comparison: the first differing component decides). -/
def pairLe (a b : Str × Str) : Bool :=
  if a.1 = b.1 then strLe a.2 b.2 else strLe a.1 b.1

/-- `lambda s: (s["name"], json.dumps(s, sort_keys=True))` (since a47e117). -/
def irKey (j : JVal) : Str × Str := (jName j, dumpSorted j)

/-- `sorted(converter.unstructure(<set of symbols>), key=lambda s: (s["name"], json.dumps(s, sort_keys=True)))` -/
def unSymbolSet (xs : List Symbol) : JVal :=
  .arr (sortBy pairLe irKey (xs.map unSymbol))

/-- Decidable check used by the driver: the sort key separates the members of the set (two members
with one key have one document), i.e. `sorted` cannot meet a tie between different documents. -/
def sortKeyInjB (xs : List Symbol) : Bool :=
  xs.all fun a => xs.all fun b =>
    !(decide (irKey (unSymbol a) = irKey (unSymbol b))) || decide (unSymbol a = unSymbol b)

/-- Decidable check used by the driver: the list stands for a Python set (no two members `==`). -/
def isSetB : List Symbol → Bool
  | [] => true
  | a :: r => r.all (fun b => !(a.pyEq b)) && isSetB r

def FunctionIr.isSetB (ir : FunctionIr) : Bool :=
  Ser.isSetB ir.gets && Ser.isSetB ir.sets && Ser.isSetB ir.dels && Ser.isSetB ir.calls

def unFnIr (ir : FunctionIr) : JVal :=
  .obj [(kGets, unSymbolSet ir.gets), (kSets, unSymbolSet ir.sets),
        (kDels, unSymbolSet ir.dels), (kCalls, unSymbolSet ir.calls)]

def FunctionIr.sortKeyInjB (ir : FunctionIr) : Bool :=
  Ser.sortKeyInjB ir.gets && Ser.sortKeyInjB ir.sets && Ser.sortKeyInjB ir.dels && Ser.sortKeyInjB ir.calls

/-- `serialise_symbol_table`: the `_symbols` dict as it is (insertion order, its own keys). -/
def unSymtab (t : List (Str × Symbol)) : JVal := .obj (t.map fun (k, s) => (k, unSymbol s))

def unContext : Context → JVal
  | .mk none t f => .obj [(kParent, .null), (kSymbolTable, unSymtab t), (kFile, .str f)]
  | .mk (some p) t f => .obj [(kParent, unContext p), (kSymbolTable, unSymtab t), (kFile, .str f)]

def strEq (a b : Str) : Bool := a == b

/-- `sorted(file_ir._file_ir.keys())` — `Symbol.__lt__` compares `name` only. -/
def sortedEntries (d : List (Symbol × FunctionIr)) : List (Symbol × FunctionIr) :=
  sortBy strLe (fun p => p.1.nm) d

/-- `serialise_file_ir` -/
def unFileIr (f : FileIr) : JVal :=
  let es := sortedEntries f.fileIr
  .obj [(kContext, unContext f.context),
        (kSymbols, .obj (dictOfBy strEq (es.map fun p => (p.1.id, unSymbol p.1)))),
        (kFunctionIrs, .obj (dictOfBy strEq (es.map fun p => (p.1.id, unFnIr p.2))))]

/-- `serialise_irs`: `OutputIrs(import_irs=…, target_ir={"filename": …, "ir": …})`. -/
def unOutputIrs (o : OutputIrs) : JVal :=
  .obj [(kImportIrs, .obj (o.importIrs.map fun (m, f) => (m, unFileIr f))),
        (kTargetIr, .obj [(kFilename, .str o.targetName), (kIr, unFileIr o.targetIr)])]

def unFnResults (r : FnResults) : JVal :=
  .obj [(kGets, JVal.ofStrList (sortStr r.gets)), (kSets, JVal.ofStrList (sortStr r.sets)),
        (kDels, JVal.ofStrList (sortStr r.dels)), (kCalls, JVal.ofStrList (sortStr r.calls))]

/-- `serialise_file_results`: `for name in sorted(keys)`, each of the four sets `sorted(...)`. -/
def unFileResults (r : FileResults) : JVal :=
  .obj ((sortBy strLe (fun p => p.1) r).map fun p => (p.1, unFnResults p.2))

def unImportInfo (i : ImportInfo) : JVal :=
  .obj [(kFilepath, .str i.filepath), (kFilehash, .str i.filehash)]

def unCacheable (c : CacheableResults) : JVal :=
  .obj [(kVersion, .str c.version), (kArgumentsHash, .str c.argumentsHash),
        (kPluginsHash, .str c.pluginsHash), (kFilepath, .str c.filepath),
        (kFilehash, .str c.filehash), (kImports, .arr (c.imports.map unImportInfo)),
        (kResults, unFileResults c.results)]

/-! ### structure -/

inductive StructErr where
  | missingKey (k : Str)        -- outside the fragment (cattrs: attrs default or KeyError)
  | wrongType (what : Str)      -- outside the fragment (cattrs coerces or raises)
  | missingType                 -- ValueError("missing type")
  | invalidType (t : Str)       -- ValueError("invalid type: …")
  | badInterface                -- ValueError("not a valid call interface: …")
  | fileIrMissing               -- bare ValueError in deserialise_file_ir
  | outsideFragment             -- a `Call` whose target is a `Call`
  | outOfFuel
  deriving Repr, DecidableEq

abbrev SR := Except StructErr

def field (kvs : List (Str × JVal)) (k : Str) : SR JVal :=
  match JVal.get? kvs k with
  | some v => .ok v
  | none => .error (.missingKey k)

def asObj : JVal → SR (List (Str × JVal))
  | .obj kvs => .ok kvs
  | _ => .error (.wrongType (str "object"))

def asStr : JVal → SR Str
  | .str s => .ok s
  | _ => .error (.wrongType (str "str"))

def asInt : JVal → SR Int
  | .num n => .ok n
  | _ => .error (.wrongType (str "int"))

def asBool : JVal → SR Bool
  | .bool b => .ok b
  | _ => .error (.wrongType (str "bool"))

def asOptStr : JVal → SR (Option Str)
  | .null => .ok none
  | .str s => .ok (some s)
  | _ => .error (.wrongType (str "str|null"))

def asOptInt : JVal → SR (Option Int)
  | .null => .ok none
  | .num n => .ok (some n)
  | _ => .error (.wrongType (str "int|null"))

def mapM' {α β : Type} (f : α → SR β) : List α → SR (List β)
  | [] => .ok []
  | a :: r => match f a with
    | .error e => .error e
    | .ok b => match mapM' f r with
      | .error e => .error e
      | .ok bs => .ok (b :: bs)

def asStrList : JVal → SR (List Str)
  | .arr xs => mapM' asStr xs
  | _ => .error (.wrongType (str "list"))

def stLocation (j : JVal) : SR Location := do
  let kvs ← asObj j
  let a ← asInt (← field kvs kLineno)
  let b ← asInt (← field kvs kColOffset)
  let c ← asOptInt (← field kvs kEndLineno)
  let d ← asOptInt (← field kvs kEndColOffset)
  let f ← asStr (← field kvs kFile)
  return { lineno := a, colOffset := b, endLineno := c, endColOffset := d, file := f }

/-- `deserialise_call_interface`: `"any"` → `AnyCallInterface()`, a dict → `CallInterface(**)`,
anything else → `ValueError`. -/
def stIface : JVal → SR CallIface
  | .str s => if s = anySentinel then .ok .any else .error .badInterface
  | .obj kvs => do
    let a ← asStrList (← field kvs kPosonlyargs)
    let b ← asStrList (← field kvs kArgs)
    let c ← asOptStr (← field kvs kVararg)
    let d ← asStrList (← field kvs kKwonlyargs)
    let e ← asOptStr (← field kvs kKwarg)
    return .mk { posonly := a, args := b, vararg := c, kwonly := d, kwarg := e }
  | _ => .error .badInterface

def stOptIface : JVal → SR (Option CallIface)
  | .null => .ok none
  | j => match stIface j with
    | .ok i => .ok (some i)
    | .error e => .error e

def stKwargs : List (Str × JVal) → SR (List (Str × Str))
  | [] => .ok []
  | (k, v) :: r => match asStr v with
    | .error e => .error e
    | .ok s => match stKwargs r with
      | .error e => .error e
      | .ok rs => .ok ((k, s) :: rs)

def stCallArgs (j : JVal) : SR (CallArgs Str) := do
  let kvs ← asObj j
  let a ← asStrList (← field kvs kArgs)
  let k ← stKwargs (← asObj (← field kvs kKwargs))
  return { args := a, kwargs := k }

/-- `deserialise_symbol` for the non-`Call` kinds (dispatch on the popped `"type"`). -/
def stTargetOf (ty : Str) (kvs : List (Str × JVal)) : SR Target :=
  if ty = tagName then do
    let n ← asStr (← field kvs kName)
    let b ← asStr (← field kvs kBasename)
    let l ← stLocation (← field kvs kLocation)
    let i ← stOptIface (← field kvs kInterface)
    return .name n b l i
  else if ty = tagBuiltin then do
    let n ← asStr (← field kvs kName)
    let l ← stLocation (← field kvs kLocation)
    let i ← stIface (← field kvs kInterface)
    return .builtin n l i
  else if ty = tagImport then do
    let n ← asStr (← field kvs kName)
    let q ← asStr (← field kvs kQualifiedName)
    let l ← stLocation (← field kvs kLocation)
    let i ← stIface (← field kvs kInterface)
    return .import_ n q l i
  else if ty = tagFunc then do
    let n ← asStr (← field kvs kName)
    let l ← stLocation (← field kvs kLocation)
    let i ← stIface (← field kvs kInterface)
    let a ← asBool (← field kvs kIsAsync)
    return .func n l i a
  else if ty = tagClass then do
    let n ← asStr (← field kvs kName)
    let l ← stLocation (← field kvs kLocation)
    let i ← stIface (← field kvs kInterface)
    return .cls n l i
  else if ty = tagCall then .error .outsideFragment
  else .error (.invalidType ty)

def typeOf (kvs : List (Str × JVal)) : SR Str :=
  match JVal.get? kvs kType with
  | none => .error .missingType
  | some .null => .error .missingType
  | some (.str s) => .ok s
  | some _ => .error (.wrongType (str "type tag"))

def stTarget (j : JVal) : SR Target := do
  let kvs ← asObj j
  let ty ← typeOf kvs
  stTargetOf ty kvs

def stOptTarget : JVal → SR (Option Target)
  | .null => .ok none
  | j => match stTarget j with
    | .ok t => .ok (some t)
    | .error e => .error e

/-- `deserialise_symbol` -/
def stSymbol (j : JVal) : SR Symbol := do
  let kvs ← asObj j
  let ty ← typeOf kvs
  if ty = tagCall then do
    -- `data.pop("target", None)`: an absent target is `None`
    let t ← match JVal.get? kvs kTarget with
      | none => pure none
      | some tj => stOptTarget tj
    let n ← asStr (← field kvs kName)
    let a ← stCallArgs (← field kvs kArgs)
    let l ← stLocation (← field kvs kLocation)
    return .call n a t l
  else do
    let t ← stTargetOf ty kvs
    return .base t

/-- `set[Name]` / `set[Call]`: each element through the `Symbol` hook, then `set(...)`. -/
def stSymbolSet : JVal → SR (List Symbol)
  | .arr xs => match mapM' stSymbol xs with
    | .ok l => .ok (dedupBy Symbol.pyEq l)
    | .error e => .error e
  | _ => .error (.wrongType (str "list"))

def stFnIr (j : JVal) : SR FunctionIr := do
  let kvs ← asObj j
  let g ← stSymbolSet (← field kvs kGets)
  let s ← stSymbolSet (← field kvs kSets)
  let d ← stSymbolSet (← field kvs kDels)
  let c ← stSymbolSet (← field kvs kCalls)
  return { gets := g, sets := s, dels := d, calls := c }

def stSymtab : List (Str × JVal) → SR (List (Str × Symbol))
  | [] => .ok []
  | (k, v) :: r => match stSymbol v with
    | .error e => .error e
    | .ok s => match stSymtab r with
      | .error e => .error e
      | .ok rs => .ok ((k, s) :: rs)

/-- Structure hook of `Context` (recursive through `parent`); `fuel` bounds the nesting depth. -/
def stContext : Nat → JVal → SR Context
  | 0, _ => .error .outOfFuel
  | fuel + 1, j => do
    let kvs ← asObj j
    let p ← match (← field kvs kParent) with
      | .null => pure none
      | pj => match stContext fuel pj with
        | .ok c => pure (some c)
        | .error e => .error e
    let t ← stSymtab (← asObj (← field kvs kSymbolTable))
    let f ← asStr (← field kvs kFile)
    return .mk p t f

def Context.depth : Context → Nat
  | .mk none _ _ => 1
  | .mk (some p) _ _ => p.depth + 1

def stFnIrs : List (Str × JVal) → SR (List (Str × FunctionIr))
  | [] => .ok []
  | (k, v) :: r => match stFnIr v with
    | .error e => .error e
    | .ok s => match stFnIrs r with
      | .error e => .error e
      | .ok rs => .ok ((k, s) :: rs)

def lookupStr {ν : Type} : List (Str × ν) → Str → Option ν
  | [], _ => none
  | (k, v) :: r, x => if k = x then some v else lookupStr r x

/-- `deserialise_file_ir`: `{symbol: fn_irs[name] for name, symbol in symbols.items() if name in
fn_irs}` — a dict keyed by the symbol (Python `==`). -/
def stFileIr (fuel : Nat) (j : JVal) : SR FileIr := do
  let kvs ← asObj j
  let c ← stContext fuel (← field kvs kContext)
  match JVal.get? kvs kSymbols, JVal.get? kvs kFunctionIrs with
  | some sj, some fj => do
    let syms ← stSymtab (← asObj sj)
    let irs ← stFnIrs (← asObj fj)
    let pairs := syms.filterMap fun (nm, s) => (lookupStr irs nm).map fun ir => (s, ir)
    return { context := c, fileIr := dictOfBy Symbol.pyEq pairs }
  | _, _ => .error .fileIrMissing

def stStrSet : JVal → SR (List Str)
  | .arr xs => match mapM' asStr xs with
    | .ok l => .ok (dedupBy strEq l)
    | .error e => .error e
  | _ => .error (.wrongType (str "list"))

def stFnResults (j : JVal) : SR FnResults := do
  let kvs ← asObj j
  let g ← stStrSet (← field kvs kGets)
  let s ← stStrSet (← field kvs kSets)
  let d ← stStrSet (← field kvs kDels)
  let c ← stStrSet (← field kvs kCalls)
  return { gets := g, sets := s, dels := d, calls := c }

def stFnResultsMap : List (Str × JVal) → SR FileResults
  | [] => .ok []
  | (k, v) :: r => match stFnResults v with
    | .error e => .error e
    | .ok s => match stFnResultsMap r with
      | .error e => .error e
      | .ok rs => .ok ((k, s) :: rs)

/-- `deserialise_file_results` -/
def stFileResults (j : JVal) : SR FileResults :=
  match j with
  | .obj kvs => stFnResultsMap kvs
  | _ => .error (.wrongType (str "object"))

def stImportInfo (j : JVal) : SR ImportInfo := do
  let kvs ← asObj j
  let p ← asStr (← field kvs kFilepath)
  let h ← asStr (← field kvs kFilehash)
  return { filepath := p, filehash := h }

def stCacheable (j : JVal) : SR CacheableResults := do
  let kvs ← asObj j
  let v ← asStr (← field kvs kVersion)
  let a ← asStr (← field kvs kArgumentsHash)
  let p ← asStr (← field kvs kPluginsHash)
  let fp ← asStr (← field kvs kFilepath)
  let fh ← asStr (← field kvs kFilehash)
  let im ← match (← field kvs kImports) with
    | .arr xs => mapM' stImportInfo xs
    | _ => .error (.wrongType (str "list"))
  let r ← stFileResults (← field kvs kResults)
  return { version := v, argumentsHash := a, pluginsHash := p, filepath := fp, filehash := fh,
           imports := im, results := r }

end Ser
end Rattr

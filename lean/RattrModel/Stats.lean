/-
  RattrModel.Stats — C07, "under every option combination": the numbers `--stdout stats` computes with.

    * `rattr/analyser/util.py::read.__enter__`      — `return len(lines) + 1, "".join(lines)`
    * `rattr/analyser/file.py`                      — `file_lines=file_lines`,
                                                      `import_stats.import_lines += import_file_lines`,
                                                      `number_of_imports += 1` per pop,
                                                      `number_of_unique_imports = len(seen_module_origins)`
    * `rattr/__main__.py::show_stats`               — the three partial operations on those numbers:
          digits = 1 + int(log10(max(*lines.values())))          -- ValueError (math domain) when max <= 0
          avg_badness_per_line = config.state.badness / stats.file_lines   -- ZeroDivisionError
          sum(lines.values()) / sum(times.values())               -- ZeroDivisionError (float)
      (the imports table is guarded by `max(..., 1)`, the badness table by `if max(...) > 0`).
    * `rattr/__main__.py::main`                     — which `show_*` runs under which `--stdout` value.

  `show_stats` is NOT total on `RattrStats`: nothing in it keeps `file_lines` away from 0. The invariant that
  saves it lives in another module — the `+ 1` of `read` (an empty file has "1 line"). That is what the theorems
  of `RattrProofs.Props.C07` (`C07_show_stats_*`) say, and what Tie A (`Generated.C07.statsExprs`) pins.

  Strings are `List Char` *after decoding* (the file is opened in text mode).
-/
import RattrModel.Imports

namespace Rattr.Stats
open Rattr Rattr.Imports

/-! ### `read`: the number of lines of a file -/

/-- `len(f.readlines())` in text mode (universal newlines: `\n`, `\r\n` and a lone `\r` each end a line; a
non-empty tail without terminator is a line too). `cr`: the previous character was `\r` (a `\n` right after it
belongs to the same terminator); `pending`: characters were read since the last terminator. -/
def countLines : (cr : Bool) → (pending : Bool) → Str → Nat
  | _, p, [] => if p then 1 else 0
  | cr, _, c :: r =>
    if c = '\n' then (if cr then countLines false false r else 1 + countLines false false r)
    else if c = '\r' then 1 + countLines true false r
    else countLines false true r

/-- first component of `read(file).__enter__()`: `len(lines) + 1`. -/
def readLines (s : Str) : Nat := countLines false false s + 1

/-! ### `RattrStats` as assembled by `__parse_and_analyse_file_impl` / `parse_and_analyse_imports` -/

/-- the integer fields of `RattrStats` (`Int`: `show_stats` is modelled on every value the dataclass can hold). -/
structure RunStats where
  fileLines : Int
  importLines : Int
  numberOfImports : Int
  uniqueImports : Int
  deriving Repr, DecidableEq

variable {ν ω : Type}

/-- `import_stats.import_lines`: `+= import_file_lines` once per ANALYSED import (the statement sits after the
`continue` rungs), `src n` = decoded text of the origin of module `n`. -/
def importLines (src : ν → Str) (analysed : List ν) : Nat :=
  (analysed.map fun n => readLines (src n)).sum

/-- the stats of a finished run: target text, the text behind every module name, the final BFS state. -/
def statsOf (target : Str) (src : ν → Str) (st : St ν ω) : RunStats :=
  { fileLines := readLines target,
    importLines := importLines src st.analysed,
    numberOfImports := st.pops,
    uniqueImports := st.seen.length }

/-- `--follow-imports 0`: `RattrImportStats(0, 0, 0)`. -/
def statsOfNoFollow (target : Str) : RunStats :=
  { fileLines := readLines target, importLines := 0, numberOfImports := 0, uniqueImports := 0 }

/-! ### `show_stats` -/

inductive Out where
  | ok
  | crash (exc : String)
  deriving Repr, DecidableEq

/-- `show_stats(stats)`: the first partial operation that fails, in source order. `timesZero`: the five timers sum
to `0.0` (a parameter: `perf_counter` differences; the target was opened and read inside the first timer). -/
def showStats (s : RunStats) (timesZero : Bool) : Out :=
  -- times table: formatting only.  imports table: `log10(max(*imports.values(), 1))`, argument >= 1
  -- lines table: `log10(max(*lines.values()))`
  if max s.fileLines s.importLines ≤ 0 then .crash "ValueError"
  -- badness table: `if max(*badness_stats.values()) > 0: … else: digits = 1`
  -- badness summary: `config.state.badness / stats.file_lines`
  else if s.fileLines = 0 then .crash "ZeroDivisionError"
  -- summary: `sum(lines.values()) / sum(times.values())`
  else if timesZero then .crash "ZeroDivisionError"
  else .ok

/-! ### the output stage of `main` -/

/-- `Output` (`--stdout`). -/
inductive Output where
  | stats | ir | results | cacheable | silent
  deriving Repr, DecidableEq

def Output.ofString (s : String) : Option Output :=
  if s = "stats" then some .stats else if s = "ir" then some .ir else if s = "results" then some .results
  else if s = "cacheable" then some .cacheable else if s = "silent" then some .silent else none

/-- the tail of `main` after the threshold gate: the four `if config.arguments.stdout == …` and the cache write.
`serialise` / `serialise_irs` / `make_cacheable_results` are total on what the earlier stages return (C18); only
the stats printer computes with numbers. -/
def outputStage (o : Output) (s : RunStats) (timesZero : Bool) : Out :=
  match o with
  | .stats => showStats s timesZero
  | .ir | .results | .cacheable | .silent => .ok

/-- the same with the numbers a finished run hands over. -/
def outputOfRun (o : Output) (target : Str) (src : ν → Str) (st : St ν ω) (timesZero : Bool) : Out :=
  outputStage o (statsOf target src st) timesZero

/-! ### the cache write at the very end of `main` (K25) -/

inductive MainOut where
  | ok
  | fatal
  | crash (exc : String)
  deriving Repr, DecidableEq

/-- `main` after the threshold gate: the output stage, then `if config.arguments.cache_file is not None:
write_cache_file(…)`. `cache = none`: no `-C`; `some w`: `-C PATH` with `w` = "mkdir + write_text succeed". Since fix
bcdf6de `write_cache_file` turns an `OSError` into `error.fatal("unable to write the cache file …")`; before it
(`fixed = false`) the exception escaped (known finding K25: PATH a directory, a dangling link, below a file). -/
def mainTail (fixed : Bool) (o : Output) (s : RunStats) (timesZero : Bool) (cache : Option Bool) : MainOut :=
  match outputStage o s timesZero with
  | .crash e => .crash e
  | .ok =>
    match cache with
    | none => .ok
    | some true => .ok
    | some false => if fixed then .fatal else .crash "OSError"

/-! ### Tie A: the source expressions this model transcribes (`Generated.C07.statsExprs` must equal this list) -/

/-- (site, unparsed expression) of: `read.__enter__`, the assembly of `RattrStats` in `file.py`, every `digits`
/ division / guard of `show_stats`, and the output dispatch of `main`. A "cosmetic" `- 1` at any of these sites
(or a dropped `max(..., 1)` / guard) changes the list. -/
def pinnedExprs : List (String × String) :=
  [("util.read.__enter__:return", "(len(lines) + 1, ''.join(lines))"),
   ("util.read.__enter__:assign", "lines = f.readlines()"),
   ("file.impl:with-read", "(file_lines, source)"),
   ("file.impl:RattrStats.file_lines", "file_lines"),
   ("file.impl:RattrStats.import_lines", "import_stats.import_lines"),
   ("file.impl:RattrStats.number_of_imports", "import_stats.number_of_imports"),
   ("file.impl:RattrStats.number_of_unique_imports", "import_stats.number_of_unique_imports"),
   ("file.impl:RattrImportStats", "RattrImportStats(0, 0, 0)"),
   ("file.imports:loop[head]", "import_stats.number_of_imports += 1"),
   ("file.imports:with-read", "read(spec.origin) as (import_file_lines, import_file_source)"),
   ("file.imports:loop[tail]", "import_stats.import_lines += import_file_lines"),
   ("file.imports:after-loop", "import_stats.number_of_unique_imports = len(seen_module_origins)"),
   ("main.show_stats:digits", "1 + int(log10(max(*imports.values(), 1)))"),
   ("main.show_stats:digits", "1 + int(log10(max(*lines.values())))"),
   ("main.show_stats:guard", "max(*badness_stats.values()) > 0"),
   ("main.show_stats:lines", "{'<file>': stats.file_lines, 'Imports': stats.import_lines}"),
   ("main.show_stats:digits", "1 + int(log10(max(*badness_stats.values())))"),
   ("main.show_stats:digits", "1"),
   ("main.show_stats:division", "config.state.badness / stats.file_lines"),
   ("main.show_stats:division", "sum(lines.values()) / sum(times.values())"),
   ("main.main:output", "config.arguments.stdout == Output.ir -> show_ir(config.arguments.target, file_ir, import_irs)"),
   ("main.main:output", "config.arguments.stdout == Output.results -> show_results(results)"),
   ("main.main:output", "config.arguments.stdout == Output.cacheable -> show_cacheable_results(deferred_cacheable_results())"),
   ("main.main:output", "config.arguments.stdout == Output.stats -> show_stats(stats)")]

end Rattr.Stats

/-
  RattrModel.CrossResolve — model of `rattr/results/_find_call_target.py::__resolve_target_and_ir`,
  `__is_defined_in` and `__resolve_real_class_target` (stage S6, property C08): which `FunctionIr`
  a call whose target is a `Func` / `Class` symbol is expanded from when imports are followed, i.e.
  when `IrEnvironment` holds the target file's IR AND one IR per followed module.

  What matters here and nowhere else in the model: a symbol carries the FILE it was defined in
  (`symbol.location.defined_in`), while Python `==` / `hash` on symbols ignore it (`token` and
  `location` are `eq=False, hash=False` attrs fields) — so `symbol in file_ir` and
  `file_ir[symbol]` answer for ANY file's symbol of that class, name and interface.

  Per-case data (computed by the real functions; C13 models them):
    * `moduleOf`: `derive_module_name_from_path(file)` for every file a symbol is located in;
    * `imports`: `environment.import_irs` — module name ↦ the keys of that module's `FileIr`, in
      dict order (module order = `import_irs` insertion order).
  An IR is represented by the list of its keys in insertion order; the `FunctionIr` that is returned
  is identified by (which IR, position of the key).
-/
import RattrModel.Context

namespace Rattr.Cross
open Rattr

/-- A `Func` / `Class` symbol together with `location.defined_in`. -/
structure FSym where
  kind  : SymKind
  name  : Str
  iface : Option (Iface Str) := none
  file  : Str
  deriving DecidableEq, Repr

/-- what Python's `==` / `hash` on symbols look at: the class, the name, the interface. -/
def FSym.key (s : FSym) : SymKind × Str × Option (Iface Str) := (s.kind, s.name, s.iface)

/-- the keys of a `FileIr`, in insertion order. -/
abbrev FIr := List FSym

/-- `file_ir[symbol]` / `symbol in file_ir`: position of the (first) key that is `==` to the symbol. -/
def lookupIdx (ir : FIr) (s : FSym) : Option Nat := ir.findIdx? (fun o => o.key = s.key)

/-- `__is_defined_in(symbol, file_ir)`: some key is `==` to the symbol AND located in the same file. -/
def isDefinedIn (s : FSym) (ir : FIr) : Bool := ir.any (fun o => s.key = o.key && s.file = o.file)

structure Env where
  /-- `environment.target_ir` -/
  target : FIr
  /-- `environment.import_irs` -/
  imports : Dict Str FIr
  /-- `derive_module_name_from_path` (absent = `None`) -/
  moduleOf : Dict Str Str
  deriving Repr

/-- which IR of the environment -/
inductive Loc where
  | target
  | import_ (module : Str)
  deriving DecidableEq, Repr

inductive Res where
  /-- `IrTarget(symbol, ir = <that IR>[symbol])`: the IR and the position of the key -/
  | found (l : Loc) (idx : Nat)
  /-- bare `raise ImportError` (no IR for the module / the symbol is not a key of it) -/
  | importError
  /-- `raise ModuleNotFoundError("unable to find module for …")` -/
  | moduleNotFound
  deriving DecidableEq, Repr

/-- `candidates` of `__resolve_real_class_target`: every `Class` key with the target's NAME, the
target file's IR first, then the import IRs in `import_irs` order. -/
def candidates (env : Env) (t : FSym) : List FSym :=
  (env.target ++ env.imports.flatMap (·.2)).filter (fun s => s.kind = .cls && t.name = s.name)

/-- `__resolve_real_class_target(target)`: the candidate defined in the same file as the call's
target (the class analyser re-registers a class under its initialiser's interface, so the key may
differ from the symbol the call recorded); else the target itself — since bb30ccd there is NO
fallback to a same-named class of another file (a class without `__init__` is no key of its file's
IR: its call is then simply not expanded, "unable to resolve initialiser"). -/
def realClass (env : Env) (t : FSym) : FSym :=
  match (candidates env t).find? (fun s => s.file = t.file) with
  | some s => s
  | none => t

/-- the symbol `__resolve_target_and_ir` goes on with. -/
def realSym (env : Env) (t : FSym) : FSym := if t.kind = .cls then realClass env t else t

/-- `__resolve_target_and_ir(call)` for `call.symbol.target = t` (a `Func` or `Class`). -/
def resolve (env : Env) (t : FSym) : Res :=
  let s := realSym env t
  if isDefinedIn s env.target then
    match lookupIdx env.target s with
    | some i => .found .target i
    | none => .importError          -- unreachable: `lookupIdx_of_isDefinedIn` (a `KeyError` otherwise)
  else
    match Dict.get? env.moduleOf s.file with
    | none => .moduleNotFound
    | some m =>
      match Dict.get? env.imports m with
      | none => .importError
      | some ir =>
        match lookupIdx ir s with
        | none => .importError
        | some i => .found (.import_ m) i

/-- the key a result points at. -/
def keyAt (env : Env) : Loc → Nat → Option FSym
  | .target, i => env.target[i]?
  | .import_ m, i => match Dict.get? env.imports m with
    | some ir => ir[i]?
    | none => none

/-- `resolve_function` / `resolve_class_init` catch `ImportError` (and its subclass
`ModuleNotFoundError`): the call is then not expanded at all. -/
def expandedFrom (env : Env) (t : FSym) : Option FSym :=
  match resolve env t with
  | .found l i => keyAt env l i
  | _ => none

/-- executable well-formedness check of an environment (the hypotheses of the C08 cross-module
theorems; the driver reports it for every real environment): the target IR's keys are pairwise
distinct under `==`; every key of the IR registered for module `m` is located in a file whose module
name is `m`; different files have different module names. -/
def wfCheck (env : Env) : Bool :=
  decide ((env.target.map FSym.key).Nodup) &&
  env.imports.all (fun p => p.2.all (fun k => Dict.get? env.moduleOf k.file = some p.1)) &&
  decide ((env.moduleOf.map Prod.snd).Nodup)

/-! ### earlier rules (kept to state what the repairs changed) -/

/-- the generic tail of `__resolve_target_and_ir` once the symbol `s` is fixed, with the target-IR
test as a parameter. -/
def resolveWith (env : Env) (inTarget : FSym → Bool) (s : FSym) : Res :=
  if inTarget s then
    match lookupIdx env.target s with
    | some i => .found .target i
    | none => .importError
  else
    match Dict.get? env.moduleOf s.file with
    | none => .moduleNotFound
    | some m =>
      match Dict.get? env.imports m with
      | none => .importError
      | some ir =>
        match lookupIdx ir s with
        | none => .importError
        | some i => .found (.import_ m) i

/-- 8b74e12 … before bb30ccd: same-file candidate first, else the FIRST candidate of any file. -/
def realClassFallback (env : Env) (t : FSym) : FSym :=
  match (candidates env t).find? (fun s => s.file = t.file) with
  | some s => s
  | none => ((candidates env t).head?).getD t

/-- the rule of 8b74e12 … 6f46129 (before bb30ccd). -/
def resolveFallback (env : Env) (t : FSym) : Res :=
  resolveWith env (fun s => isDefinedIn s env.target) (if t.kind = .cls then realClassFallback env t else t)

def expandedFromFallback (env : Env) (t : FSym) : Option FSym :=
  match resolveFallback env t with
  | .found l i => keyAt env l i
  | _ => none

/-- before 8b74e12: the first `Class` key of that name, target file first, whatever its file. -/
def realClassOld (env : Env) (t : FSym) : FSym := ((candidates env t).head?).getD t

/-- before 2103117: `if symbol in environment.target_ir` — location-blind. -/
def resolveOld (env : Env) (t : FSym) : Res :=
  resolveWith env (fun s => (lookupIdx env.target s).isSome) (if t.kind = .cls then realClassOld env t else t)

end Rattr.Cross

/-
  RattrModel.StarChain — `Context.expand_starred_imports` as a WALK over files (stage S2, property C06,
  round 3), on top of `Resolve` (`importSymbol`, `expandStar`).

      queue = self.get_starred_imports(seen)
      for starred in queue:                                   # the queue grows while it is iterated
          …skip: origin None / seen / no Python source…
          with enter_file(starred.origin):
              starred_context = compile_root_context(ast.parse(text of starred.origin))
          seen.add(starred.origin)
          queue += starred_context.get_starred_imports(seen)
          for symbol in starred_context.symbol_table.symbols:
              self.add(Import(symbol.name, f"{starred.qualified_name}.{symbol.name}"))

  What `Resolve.expandStar` (one level) leaves open is WHICH module a star import found inside a
  star-imported file denotes: `visit_starred_relative_import` derives the absolute name from the
  global `Config().state.current_file`, so it is the file that is current WHEN THAT FILE's root
  context is compiled that counts. The code compiles it under `enter_file(starred.origin)`: the
  nested statement is resolved against the star-imported file itself (`StarFile.fid`), not against
  the file that holds the outer `import *`. `starQuals` is that derivation (`Resolve.importSymbol`
  = `Locator.deriveAbs`); the walk below is the BFS.

  Per-case parameters (locator facts, C13's): the table module name ↦ file (`Import.origin` of a
  starred import: the harness asserts that module names and origins correspond one to one, so
  `seen` may hold names), each file's `derive_module_name_from_path` / `__init__` flag (`FileId`),
  the names its root context declares.
-/
import RattrModel.Resolve

namespace Rattr.StarChain
open Rattr.Strs Rattr.Resolve

/-- a file as `expand_starred_imports` meets it -/
structure StarFile where
  /-- the file ITSELF: what `visit_starred_relative_import` reads off `current_file` while this file's
  root context is compiled under `enter_file(<this file>)` -/
  fid : FileId
  /-- `symbol.name` of every symbol of its (unexpanded) root context, in table order; a starred
  import has the name `*` -/
  names : List Str
  /-- its starred import statements, as written (`from m import *` / `from ..m import *`) -/
  stars : List ImportStmt
  deriving DecidableEq, Repr

/-- module name ↦ the file `Import(…).origin` leads to (absent: origin `None` / no Python source —
diagnosed and skipped) -/
abbrev Files := Dict Str StarFile

/-- `qualified_name` of the starred imports of a file: derived against THAT file -/
def starQuals (sf : StarFile) : List Str := sf.stars.map fun st => (importSymbol sf.fid st).qual

/-- the `for starred in queue` loop; one unit of fuel per queue entry looked at -/
def expandStars (files : Files) : Nat → List Str → List Str → MCtx → MCtx
  | 0, _, _, ctx => ctx
  | _ + 1, [], _, ctx => ctx
  | fuel + 1, q :: rest, seen, ctx =>
    if seen.contains q then expandStars files fuel rest seen ctx
    else
      match Dict.get? files q with
      | none => expandStars files fuel rest seen ctx
      | some sf =>
        expandStars files fuel (rest ++ (starQuals sf).filter fun x => !(q :: seen).contains x) (q :: seen)
          (expandStar ctx q sf.names)

/-- `compile_root_context(ast).expand_starred_imports()` for the file `sf` whose unexpanded root
context is `ctx` -/
def expandFile (files : Files) (fuel : Nat) (sf : StarFile) (ctx : MCtx) : MCtx :=
  expandStars files fuel (starQuals sf) [] ctx

/-- enough fuel for every walk: each file is expanded once, and each expansion appends at most its
star statements to the queue -/
def fuelFor (files : Files) (sf : StarFile) : Nat :=
  sf.stars.length + (files.map fun f => f.2.stars.length + 1).sum + 1

end Rattr.StarChain

/-
  RattrModel.Callable — the analysed callable AS `FunctionAnalyser` RECEIVES IT: the whole
  `ast.FunctionDef | ast.AsyncFunctionDef | ast.Lambda` node, signature included.

  `FunctionAnalyser(ast_function, context).analyse()` (rattr/analyser/function.py) is handed the
  complete definition node by its four callers
    * `FileAnalyser.visit_AnyFunctionDef`   (module-level `def` / `async def`),
    * `FileAnalyser.visit_LambdaAssign`     (`name = lambda …`: `node.value`),
    * `ClassAnalyser.visit_initialiser`     (`__init__`),
    * `ClassAnalyser.visit_static_method`   (`@staticmethod`),
  and of that node it reads exactly
    * `self.ast.args`, through `Context.add_arguments_to_context` → `CallInterface.from_arguments`:
      the five parameter-NAME fields `posonlyargs / args / vararg / kwonlyargs / kwarg` (`.arg` of each),
    * `get_function_body(self.ast)`: `.body`.
  Everything else the node carries — `args.defaults`, `args.kw_defaults`, every `arg.annotation`,
  `returns`, `decorator_list`, `type_params` — is the callable's SIGNATURE (`Sig`): expressions
  evaluated once, at definition time, in the ENCLOSING scope. They are not part of the body and the
  analyser never looks at them (tied to the source by `Generated.C02`, theorem
  `tieA_callable_reads` in Props/C02).

  `Callable.analyse` therefore is `FnA.analyse` on `(ps, body)`; the signature is an input that is
  carried and ignored — which is the content the correspondence check (op `analyse_callable`)
  validates against the real analyser on every run with non-literal defaults / annotations /
  decorators.

  Nested `def`s / lambdas INSIDE the body (`FunctionAnalyser.visit_AnyFunctionDef`): the pinned
  code reads `node.args` (parameter names) and the body there too, nothing else — the defaults,
  annotations and decorators of a nested definition, although they ARE expressions the enclosing
  body evaluates, are not visited (a C01 matter: documented "nested functions unsupported"). The
  model's `Node.funcDef` / `Node.lam` accordingly carry no signature.
-/
import RattrModel.FnAnalyser

namespace Rattr
namespace FnA

/-- the expression-valued parts of a definition node that are neither parameter names nor body. -/
structure Sig where
  /-- `decorator_list` (FunctionDef / AsyncFunctionDef; `[]` for a Lambda) -/
  decorators : List Node := []
  /-- `args.defaults` (positional-only and positional parameters) -/
  defaults : List Node := []
  /-- `args.kw_defaults` without the `None` placeholders -/
  kwDefaults : List Node := []
  /-- `arg.annotation` of every parameter that has one, in declaration order
  (posonly, args, vararg, kwonly, kwarg) -/
  annotations : List Node := []
  /-- `returns`: `[]` or `[r]` -/
  returns : List Node := []
  /-- bounds / defaults of PEP 695 `type_params` -/
  typeParams : List Node := []
  deriving Repr

/-- every signature expression, in evaluation order of the definition statement. -/
def Sig.exprs (g : Sig) : List Node :=
  g.decorators ++ g.defaults ++ g.kwDefaults ++ g.annotations ++ g.returns ++ g.typeParams

/-- the AST field names `Sig` stands for (`FunctionDef` / `arguments` / `arg` fields). -/
def Sig.fieldNames : List String :=
  ["decorator_list", "returns", "type_params", "defaults", "kw_defaults", "annotation"]

/-- the definition node handed to `FunctionAnalyser`. -/
structure Callable where
  sig : Sig := {}
  ps : Params
  body : List Node
  deriving Repr

/-- `FunctionAnalyser(node, context).analyse()`: new scope, parameter NAMES, body. The signature is
not read. -/
def Callable.analyse (env : Env) (mn : Str) (root : Context) (c : Callable) : Res :=
  FnA.analyse env mn root c.ps c.body

/-- NOT the pinned code — the behaviour a change that "also visits the defaults" would have
(`for default in (*self.ast.args.defaults, *self.ast.args.kw_defaults): self.visit(default)` placed
before the scope is pushed): the default expressions are visited in `root`, then the body as before
with the IR so far. Used only to state what `C02` excludes (`C02_cex_if_defaults_were_visited`). -/
def Callable.analyseVisitingDefaults (env : Env) (mn : Str) (root : Context) (c : Callable) : Res :=
  visitList env mn (c.sig.defaults ++ c.sig.kwDefaults) { ctx := root } >>>= fun s0 =>
  let s : St := addArguments { s0 with ctx := Context.push s0.ctx } c.ps
  visitList env mn c.body s >>>= fun s => .ok { s with ctx := Context.pop s.ctx }

end FnA
end Rattr

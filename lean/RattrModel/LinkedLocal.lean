/-
  RattrModel.LinkedLocal — C06, round 4: the key under which `__resolve_target_and_ir` looks for the IR of a
  function / class that is defined in a FOLLOWED module, when the module's file is reached through symbolic links.

  Two sites cooperate (rattr/analyser/file.py, rattr/results/_find_call_target.py):

    1. `parse_and_analyse_imports` stores the IR of a followed module under the name it was IMPORTED by
       (`import_irs[module_name]`) and analyses its file as `enter_file(spec.origin)`: every symbol of the module
       has `location.defined_in == spec.origin`, the origin AS LOCATED (`find_module_in_path`: `.resolve()` on the
       search directory only, `Locator.specAbs`);
    2. a call written inside that module to one of the module's own functions / classes has a `Func` / `Class`
       target; `__resolve_target_and_ir` maps `defined_in` back to a module name with
       `derive_module_name_from_path` and looks THAT name up in `import_irs` (`ResolveLocal.resolveSym`).

  The call is followed iff the two names agree.  `derive_module_name_from_path` takes the path AS GIVEN
  (`filepath = Path(filepath)`, Tie A `Props/C06.tieA_round4_shapes`): `PathNorm.asGiven`.  `PathNorm.resolved` is
  the variant that normalises with `Path.resolve()` first — kept for the counterexample: a package directory that
  is a symbolic link then maps back to the name of the link's DESTINATION, which is no key of `import_irs`.

  `Locator.Env` is the logical view of the search roots (links followed), `Mounts.rv` is `Path.resolve()`.
-/
import RattrModel.Locator
import RattrModel.ResolveLocal
import RattrModel.Strs

namespace Rattr.LinkedLocal
open Rattr Rattr.Locator Rattr.Strs

/-- what `derive_module_name_from_path` does to its argument before it is turned into a dotted name -/
inductive PathNorm where
  /-- `filepath = Path(filepath)` (the pinned code) -/
  | asGiven
  /-- `filepath = Path(filepath).resolve()` -/
  | resolved
  deriving DecidableEq, Repr

/-- the pinned code -/
def pathNorm : PathNorm := .asGiven

/-- `derive_module_name_from_path(p)` for an absolute path `p` -/
def deriveFrom (env : Env) (M : Mounts) (n : PathNorm) (p : Path) : Option Dotted :=
  nameOfAbs env (match n with | .asGiven => p | .resolved => M.rv p)

/-- `location.defined_in` of the symbols of the followed module `name`: its origin as located -/
def definedIn (env : Env) (M : Mounts) (name : Dotted) : Option Path :=
  (findModuleSpecFast env name).bind (specAbs M)

/-- the module name `__resolve_target_and_ir` derives for a symbol defined in the followed module `name`
(`none`: `ModuleNotFoundError`) -/
def localKey (env : Env) (M : Mounts) (n : PathNorm) (name : Dotted) : Option Dotted :=
  (definedIn env M name).bind (deriveFrom env M n)

/-- `str(path)` of an absolute path -/
def pathStr (p : Path) : Str := p.flatMap fun seg => '/' :: seg

/-- The environment `__resolve_target_and_ir` works in after the modules `mods` (name ↦ keys of its `FileIr`) were
followed: `import_irs` keyed by the imported names, `moduleOf` = `derive_module_name_from_path` of each module's
file. -/
def envOf (env : Env) (M : Mounts) (n : PathNorm) (target : ResolveLocal.FileKeys)
    (mods : List (Dotted × ResolveLocal.FileKeys)) : ResolveLocal.Env :=
  { target := target
    imports := mods.map fun m => (joinDot m.1, m.2)
    moduleOf := mods.filterMap fun m =>
      match definedIn env M m.1 with
      | none => none
      | some p => (deriveFrom env M n p).map fun k => (pathStr p, joinDot k) }

/-- a function defined in the followed module `name` (its `defined_in` is the module's origin as located) -/
def funcIn (env : Env) (M : Mounts) (name : Dotted) (f : Str) : ResolveLocal.DSym :=
  { kind := .func, name := f, iface := [], file := ((definedIn env M name).map pathStr).getD [] }

end Rattr.LinkedLocal

/-
  RattrModel.IrDocument — how the `-o ir` document and the `imports` list of the cacheable document are
  ASSEMBLED from the import BFS (property C18; the BFS itself is `RattrModel/Imports.lean`, the hooks are
  `RattrModel/Serialise.lean`):

    * `rattr/analyser/file.py::parse_and_analyse_imports`:  `import_irs: ImportIrs = {}` … for each
      analysed import `import_irs[name] = import_ir`, in analysis order (`assignIrs`). The dict is handed to
      `rattr/models/util/serialise.py::serialise_irs`, which wraps it into `OutputIrs(import_irs=…)` as it is
      — no `sorted(` anywhere on that path — so the `"import_irs"` object of the document has its keys in
      BFS order (`irDocument`).
    * `rattr/models/results/util.py::make_cacheable_import_info`: the contexts `(target, *import_irs.values())`
      are walked in that same order, but the infos are collected into a SET and then
      `sorted(…, key=lambda info: info.filepath)` (`cacheImports`, with the set's iteration order as an
      explicit parameter `perm`).

  Parameters (computed per case by the real code, never modelled from first principles): the module graph
  (`Imports.Graph`, imports of a file in symbol-table order), the file IR of every analysed module
  (`irOf`), the `CacheableImportInfo` of every `Import` symbol that passes the filter of
  `make_cacheable_import_info` (`none` = filtered out).
-/
import RattrModel.Serialise
import RattrModel.Imports

namespace Rattr
namespace Ser
open Rattr.Imports

/-- The assignments `import_irs[name] = import_ir`, in analysis order, on an initially empty dict
(a re-assignment would keep the first position: `setBy`). -/
def assignIrs (irOf : Str → FileIr) (analysed : List Str) : List (Str × FileIr) :=
  dictOfBy strEq (analysed.map fun n => (n, irOf n))

/-- The `OutputIrs` object `serialise_irs` builds after the BFS has finished normally. `none`: the
stage did not finish (`fatal`, a crash) — nothing is printed. -/
def outputIrsOf {ω : Type} [DecidableEq ω] (g : Graph Str ω) (fl : Flags) (target : List (Imp Str))
    (irOf : Str → FileIr) (targetName : Str) (targetIr : FileIr) : Option OutputIrs :=
  match bfs g fl (fuelBound g target) target with
  | .done st => some { importIrs := assignIrs irOf st.analysed, targetName := targetName, targetIr := targetIr }
  | _ => none

/-- What `-o ir` prints (as a JSON value). -/
def irDocument {ω : Type} [DecidableEq ω] (g : Graph Str ω) (fl : Flags) (target : List (Imp Str))
    (irOf : Str → FileIr) (targetName : Str) (targetIr : FileIr) : Option JVal :=
  (outputIrsOf g fl target irOf targetName targetIr).map unOutputIrs

/-- Keys of the `"import_irs"` object of an IR document, in document order. -/
def docImportKeys : JVal → List Str
  | .obj ((_, .obj kvs) :: _) => kvs.map Prod.fst
  | _ => []

/-! ### the `imports` list of the cacheable document -/

def importInfoEq (a b : ImportInfo) : Bool := a.filepath == b.filepath && a.filehash == b.filehash

/-- The generator of the set comprehension of `make_cacheable_import_info`: the contexts in the order
`(target, *import_irs.values())`, each context's `Import` symbols in symbol-table order, `none` = the
symbol does not pass the five `if` filters. -/
def cacheInfoStream (targetInfos : List (Option ImportInfo)) (infosOf : Str → List (Option ImportInfo))
    (irsKeys : List Str) : List ImportInfo :=
  (targetInfos ++ irsKeys.flatMap infosOf).filterMap id

/-- `sorted({…}, key=lambda info: info.filepath)`: the set holds each info once (`dedupBy`); `perm`
stands for the set's iteration order (any function returning a permutation of its argument). -/
def cacheImports (perm : List ImportInfo → List ImportInfo) (stream : List ImportInfo) : List ImportInfo :=
  sortBy strLe (fun i => i.filepath) (perm (dedupBy importInfoEq stream))

/-- `sorted({…}, key=…)` for an ARBITRARY key (what the pinned code does with `key := filepath`,
`cacheImports_eq_by`; what a variant sorting on the resolved path / the content hash / the file name
would do with a coarser key). -/
def cacheImportsBy {κ : Type} (le : κ → κ → Bool) (key : ImportInfo → κ)
    (perm : List ImportInfo → List ImportInfo) (stream : List ImportInfo) : List ImportInfo :=
  sortBy le key (perm (dedupBy importInfoEq stream))

/-- `CacheableImportInfo.from_file(origin)`: `filepath=origin` — the path AS GIVEN by the module spec
(`Path(origin)`, never resolved: a link and the file it points to are two paths) — and
`filehash=hash_file_content(origin)`, a function of the path (`hashOf`: the file system is not written
to during a run). -/
def infoFromFile (hashOf : Str → Str) (origin : Str) : ImportInfo :=
  { filepath := origin, filehash := hashOf origin }

/-- The generator of the set comprehension when each `Import` symbol that passes the filters is given
by its ORIGIN (`none` = filtered out): every member of the stream is made by `from_file`. -/
def cacheInfoStreamOfOrigins (hashOf : Str → Str) (targetOrigins : List (Option Str))
    (originsOf : Str → List (Option Str)) (irsKeys : List Str) : List ImportInfo :=
  cacheInfoStream (targetOrigins.map fun o => o.map (infoFromFile hashOf))
    (fun n => (originsOf n).map fun o => o.map (infoFromFile hashOf)) irsKeys

end Ser
end Rattr

/-
  RattrModel.DiagScope — diagnostics inside their dynamic scopes (C15).

  `Diag.run` takes the place of every diagnostic as given. This module models how the code arrives
  at that place and what happens to the `SystemExit` a fatal diagnostic raises:

  rattr/config/state.py
      @contextmanager
      def enter_file(new_file):
          old_file = config.state.current_file
          config.state.current_file = new_file
          yield                                   -- no try/finally: an exception thrown in here
          config.state.current_file = old_file    -- leaves current_file as it is

  rattr/config/_types.py   increment_badness: current_file is None -> simplification,
                           == arguments.target -> target, anything else -> imports
  rattr/error/error.py     fatal: ...; sys.exit(1)        -- raises SystemExit
                           error: under strict, `fatal(...)` is called from inside `error`

  The SystemExit travels outwards through every `with` block and every `try` that is active at the
  raise. A `with` whose manager's `__exit__` returns a truthy value discards it and the run goes on
  after the block; an `except SystemExit` handler holds it while the handler body runs and (in the
  pinned code) raises it again; the handler of the annotation parser first hands the lines that its
  `redirect_stderr` captured back to stderr (`catchReemit`, `stderrLines`). Which scopes exist and what each does is a regenerated table
  (`Generated.C15.scopes`, py/tables/scopescan.py); `kindOfId` reads it.

  A run is a list of `Step`s in the order they happened: entering / leaving `enter_file` blocks and
  diagnostics, each with the file its construct is really in (`src`, used by the spec only) and the
  scopes active at the raise, outermost first.
-/
import RattrModel.Diag
import RattrModel.Spec.ExitCode
import RattrModel.Generated.C15

namespace Rattr.DiagScope
open Rattr Rattr.Diag

/-- Files are numbered by the harness; 0 is the target (`config.arguments.target`). -/
abbrev FileId := Nat

/-- `increment_badness`'s case split on `state.current_file`. -/
def placeOf : Option FileId → Where
  | none => .none
  | some 0 => .target
  | some (_ + 1) => .import_

/-- What an active scope does to a `SystemExit` that reaches it. -/
inductive ScopeKind
  /-- `with`: `__exit__` returns None / False (or a generator manager without a catching `try`) -/
  | propagate
  /-- `with contextlib.redirect_stderr(S)`: passes; lines logged inside go to `S`, not to stderr -/
  | capture
  /-- `with`: `__exit__` may return a truthy value — the exception is discarded -/
  | suppress
  /-- `try … except SystemExit` whose handler always ends in `raise` / a fatal -/
  | catchReraise
  /-- `try … except SystemExit` whose handler may fall through -/
  | catchSwallow
  /-- `try: with redirect_stderr(S): … except SystemExit as exc:` of the pinned shape
      (rattr/analyser/util.py, annotation parser): the handler prints every line of `S` to
      sys.stderr, except those of one message family ("unable to evaluate"), for which it raises a
      fatal of its own instead; then `raise exc` -/
  | catchReemit
  deriving DecidableEq, Repr, Inhabited

/-- Verdict strings of the regenerated table. Unknown verdicts have no kind. -/
def kindOfVerdict : String → String → Option ScopeKind
  | "with", "propagates" => some .propagate
  | "with", "captures" => some .capture
  | "with", "may-suppress" => some .suppress
  | "try", "reraises" => some .catchReraise
  | "try", "reraises-reemitting-captured-stderr" => some .catchReemit
  | "try", "may-swallow" => some .catchSwallow
  | _, _ => none

def lookupScope (table : List (String × String × String)) (id : String) : Option ScopeKind :=
  match table.find? (fun r => r.1 == id) with
  | some (_, k, v) => kindOfVerdict k v
  | none => none

/-- The kind of a scope of the code under test, by id. -/
def kindOfId (id : String) : Option ScopeKind := lookupScope Generated.C15.scopes id

inductive Step
  /-- `with enter_file(f):` entered -/
  | enterFile (f : Option FileId)
  /-- the block was left normally: `current_file = old_file` -/
  | leaveFile
  /-- an exception left the block: nothing is restored (unless the table says `enter_file` has a
      `finally`) -/
  | abandonFile
  /-- a level function was called; `filtered`: the message is of the family a re-emitting handler
      filters out; `scopes` outermost first -/
  | diag (level : Level) (badness : Nat) (src : Option FileId) (filtered : Bool) (scopes : List ScopeKind)
  deriving DecidableEq, Repr

/-- What becomes of a SystemExit raised under `scopes` (given innermost first). -/
inductive Fate
  | exits      -- leaves `main`: the process ends with status 1
  | swallowed  -- discarded: the run continues after the scope
  | held (thenExits : Bool)  -- a re-raising handler runs first; afterwards as for the outer scopes
  deriving DecidableEq, Repr

/-- Does an exception get through all of these scopes (innermost first)? A re-raising handler lets
it through (later). -/
def getsThrough : List ScopeKind → Bool
  | [] => true
  | .suppress :: _ => false
  | .catchSwallow :: _ => false
  | _ :: r => getsThrough r

def fateOf : List ScopeKind → Fate
  | [] => .exits
  | .suppress :: _ => .swallowed
  | .catchSwallow :: _ => .swallowed
  | .catchReraise :: r => .held (getsThrough r)
  | .catchReemit :: r => .held (getsThrough r)
  | _ :: r => fateOf r

/-- Does a SystemExit raised under these scopes (innermost first) arrive at a re-emitting handler
whose `try` body holds a capture it was raised under? (`seen`: a capture has been passed.) -/
def reachesReemit : List ScopeKind → Bool → Bool
  | [], _ => false
  | .capture :: r, _ => reachesReemit r true
  | .propagate :: r, seen => reachesReemit r seen
  | .catchReemit :: _, seen => seen
  | _ :: _, _ => false

structure Run where
  state : State
  cur : Option FileId
  stack : List (Option FileId)
  /-- every line handed to `__log` -/
  logged : List Line
  /-- those that reach the process's stderr -/
  stderr : List Line
  /-- the place each diagnostic was counted for -/
  locs : List Where
  /-- a SystemExit has left `main` -/
  exited : Bool
  /-- a SystemExit is held by a re-raising handler and will leave `main` after it -/
  pending : Bool
  deriving DecidableEq, Repr

def Run.init : Run := ⟨State.init, none, [], [], [], [], false, false⟩

/-- `enter_file` has no `finally` in the pinned code (Tie A: `C15_enter_file_no_finally`). -/
def restoresOnException : Bool := Generated.C15.enterFileRestoresOnException

/-- What a call of a level function puts on the process's stderr. Not under a capture: the lines
it logs. Under a capture: nothing — unless the call raises a SystemExit that arrives at the
re-emitting handler, which then prints the captured line itself or, for a line of the filtered
family, raises its own fatal (same culprit file) in its place. -/
def stderrLines (o : Out) (loc : Where) (scopes : List ScopeKind) (filtered : Bool) : List Line :=
  if !scopes.contains .capture then o.printed
  else if o.exited && reachesReemit scopes.reverse false then
    (if filtered then [⟨.fatal, loc⟩] else o.printed)
  else []

/-- The handler's own fatal ("unable to parse 'rattr_results', you are likely missing a comma"),
weight 0 like every fatal. -/
def replacement (o : Out) (loc : Where) (scopes : List ScopeKind) (filtered : Bool) : List Line :=
  if o.exited && reachesReemit scopes.reverse false && filtered then [⟨.fatal, loc⟩] else []

/-- Bookkeeping of one call of a level function: buckets, logged lines, what reaches stderr. -/
def afterEmit (r : Run) (o : Out) (loc : Where) (scopes : List ScopeKind) (filtered : Bool) : Run :=
  { r with state := o.state, logged := r.logged ++ o.printed ++ replacement o loc scopes filtered,
           stderr := r.stderr ++ stderrLines o loc scopes filtered,
           locs := r.locs ++ [loc] ++ (replacement o loc scopes filtered).map (fun _ => loc) }

def applyFate (r : Run) : Fate → Run
  | .exits => { r with exited := true }
  | .swallowed => r
  | .held e => { r with pending := r.pending || e }

def step (cfg : Cfg) (r : Run) : Step → Run
  | .enterFile f => { r with cur := f, stack := r.cur :: r.stack }
  | .leaveFile =>
    match r.stack with
    | old :: st => { r with cur := old, stack := st }
    | [] => r
  | .abandonFile =>
    match r.stack with
    | old :: st => if restoresOnException then { r with cur := old, stack := st } else { r with stack := st }
    | [] => r
  | .diag lv b _ filtered scopes =>
    let o := emit cfg r.state ⟨lv, b, placeOf r.cur⟩
    let r' := afterEmit r o (placeOf r.cur) scopes filtered
    if o.exited then applyFate r' (fateOf scopes.reverse) else r'

/-- Steps are processed until a SystemExit leaves `main`. -/
def go (cfg : Cfg) : Run → List Step → Run
  | r, [] => r
  | r, s :: rest =>
    let r' := step cfg r s
    if r'.exited then r' else go cfg r' rest

structure Result where
  state : State
  logged : List Line
  stderr : List Line
  locs : List Where
  exit : Nat
  output : Bool
  /-- the run reached the threshold gate and failed it ("exceeded allowed badness") -/
  gate : Bool
  deriving DecidableEq, Repr

/-- A whole run of `main`: `current_file` starts as None; after analysis and simplification the
threshold gate, then the output (as `Diag.run`). -/
def run (cfg : Cfg) (steps : List Step) : Result :=
  let r := go cfg Run.init steps
  if r.exited || r.pending then ⟨r.state, r.logged, r.stderr, r.locs, 1, false, false⟩
  else if withinThreshold cfg r.state then ⟨r.state, r.logged, r.stderr, r.locs, 0, true, false⟩
  else
    let f := fatal r.state .none 0
    ⟨f.state, r.logged ++ f.printed, r.stderr ++ f.printed, r.locs, 1, false, true⟩

/-! ### Projections used by the specification and the theorems -/

/-- The diagnostics of a run with the place the *code* counts them for (the `enter_file`
discipline alone, nothing ever exiting). -/
def locate (cur : Option FileId) (stack : List (Option FileId)) : List Step → List Event
  | [] => []
  | .enterFile f :: r => locate f (cur :: stack) r
  | .leaveFile :: r =>
    match stack with
    | old :: st => locate old st r
    | [] => locate cur [] r
  | .abandonFile :: r =>
    match stack with
    | old :: st => if restoresOnException then locate old st r else locate cur st r
    | [] => locate cur [] r
  | .diag lv b _ _ _ :: r => ⟨lv, b, placeOf cur⟩ :: locate cur stack r

/-- The diagnostics of a run with the place they *arose*: the file their construct is in. -/
def bySrc : List Step → List Event
  | [] => []
  | .diag lv b src _ _ :: r => ⟨lv, b, placeOf src⟩ :: bySrc r
  | _ :: r => bySrc r

/-- Every diagnostic is raised while `current_file` is a file of the same kind (target / import /
none) as the one its construct is in. -/
def inOwnFile (cur : Option FileId) (stack : List (Option FileId)) : List Step → Bool
  | [] => true
  | .enterFile f :: r => inOwnFile f (cur :: stack) r
  | .leaveFile :: r =>
    match stack with
    | old :: st => inOwnFile old st r
    | [] => inOwnFile cur [] r
  | .abandonFile :: r =>
    match stack with
    | old :: st => if restoresOnException then inOwnFile old st r else inOwnFile cur st r
    | [] => inOwnFile cur [] r
  | .diag _ _ src _ _ :: r => decide (placeOf src = placeOf cur) && inOwnFile cur stack r

/-- No scope of the run can discard or hold a SystemExit. -/
def ScopeKind.passes : ScopeKind → Bool
  | .propagate | .capture => true
  | _ => false

/-- No scope of the run can discard a SystemExit (it may be held and raised again). -/
def ScopeKind.benign : ScopeKind → Bool
  | .propagate | .capture | .catchReraise | .catchReemit => true
  | _ => false

def Step.scopesAll (p : ScopeKind → Bool) : Step → Bool
  | .diag _ _ _ _ scopes => scopes.all p
  | _ => true

def allPass (steps : List Step) : Bool := steps.all (Step.scopesAll ScopeKind.passes)
def allBenign (steps : List Step) : Bool := steps.all (Step.scopesAll ScopeKind.benign)

end Rattr.DiagScope

/-
  RattrModel.Provenance — result generation over LOCATED names, and the memoisation allow-list.

  rattr `Name`: equality and hash are on `(name, basename)`; the `location` (file, line, column of the
  access) rides along and is what `-o ir` prints for every member of gets/sets/dels.
    rattr/results/_simplify_utils.py  unbind_name: `Name(name=new_name, basename=new_basename,
                                      location=symbol.location)` — a FRESH Name per call, carrying the
                                      location of the symbol it was given (or the symbol itself when
                                      the base does not change);
    rattr/results/util.py             `node.target.ir[k] |= unbound[k]` — a member equal
                                      (location-blind) to one already present is dropped: the member
                                      that is there, and ITS location, stays.
  The located engine below is `RattrModel.Results` with every name carrying a location `L`; erasing the
  locations gives back the plain engine (`RattrProofs`: `generateL_erase`), which is the one tied to the
  implementation by the differential check. What is proved about it (C14): every location found in a
  function's sets after generation was, before generation, the location of a member of the same set of
  a function REACHABLE from it through resolvable calls.

  `pureMemo` is the Tie A allow-list of memoised functions (`Generated.C14.memoised`): the statement
  above — and the independence of one analysis from the previous ones in the same process — rests on
  nothing that builds or transforms IR objects being cached.
-/
import RattrModel.Results

namespace Rattr
namespace Provenance
open Results

/-- Every memoised function of rattr, with the reason it may be: none returns (or holds) a FileIr, a
FunctionIr, a Symbol or anything else result generation writes to or whose identity / location matters. -/
def pureMemo : List (String × String × String) := [
  -- keyed by the identity of an AST node, returns a pair of strings / a string
  ("rattr/ast/_util.py", "__safe_name", "lru_cache"),
  ("rattr/ast/_util.py", "names_of", "lru_cache"),
  -- per-Config paths / the parsed pyproject.toml (a new Config has new ones)
  ("rattr/config/_types.py", "Config.project_root", "cached_property"),
  ("rattr/config/_types.py", "Config.pyproject_toml", "cached_property"),
  ("rattr/config/_types.py", "Config.root_cache_dir", "cached_property"),
  -- compiled regular expressions
  ("rattr/config/_types.py", "_cached_re_compile", "lru_cache"),
  -- module location: strings, booleans, ModuleSpec (C12 / C13 / C19 are about their staleness)
  ("rattr/module_locator/_locate.py", "locate_module_in_python_path", "cache"),
  ("rattr/module_locator/util.py", "__find_stdlib_module_spec_impl", "cache"),
  ("rattr/module_locator/util.py", "__safe_origin", "cache"),
  ("rattr/module_locator/util.py", "derive_absolute_module_name", "cache"),
  ("rattr/module_locator/util.py", "derive_module_name_from_path", "cache"),
  ("rattr/module_locator/util.py", "derive_module_names_left", "cache"),
  ("rattr/module_locator/util.py", "find_module_name_and_spec", "cache"),
  ("rattr/module_locator/util.py", "find_module_spec_fast", "cache"),
  ("rattr/module_locator/util.py", "format_origin_for_os", "cache"),
  ("rattr/module_locator/util.py", "is_in_import_blacklist", "cache"),
  ("rattr/module_locator/util.py", "is_in_pip", "cache"),
  ("rattr/module_locator/util.py", "is_in_stdlib", "cache")]

/-- The packages whose functions build or transform IR objects. -/
def irPackages : List String := ["rattr/analyser/", "rattr/results/", "rattr/models/"]

/-- A `Name` with the place it was written. -/
structure LName (L : Type) where
  n   : NameS
  loc : L
  deriving Repr

structure LSets (L : Type) where
  gets : List (LName L)
  sets : List (LName L)
  dels : List (LName L)

inductive Kind where
  | gets | sets | dels
  deriving DecidableEq, Repr

def LSets.get {L : Type} (s : LSets L) : Kind → List (LName L)
  | .gets => s.gets
  | .sets => s.sets
  | .dels => s.dels

abbrev LStore (L : Type) := Key → LSets L

def LStore.update {L : Type} (σ : LStore L) (k : Key) (v : LSets L) : LStore L :=
  fun j => if j = k then v else σ j

def names {L : Type} (xs : List (LName L)) : List NameS := xs.map (·.n)

def eraseSets {L : Type} (s : LSets L) : IrSets := ⟨names s.gets, names s.sets, names s.dels⟩

def eraseStore {L : Type} (σ : LStore L) : Store := fun k => eraseSets (σ k)

/-- `a |= b`: what is already there (location-blind) stays, with its own location. -/
def unionL {L : Type} (a b : List (LName L)) : List (LName L) :=
  a ++ b.filter (fun x => !(names a).contains x.n)

/-- `unbind_name`: the re-based name keeps the location of the symbol it was made from. -/
def unbindNameL {L : Type} (x : LName L) (newBase : Str) : Option (LName L) :=
  match unbindName x.n newBase with
  | some m => some ⟨m, x.loc⟩
  | none => none

def unbindListL {L : Type} (sw : Dict Str Str) : List (LName L) → Option (List (LName L))
  | [] => some []
  | x :: r =>
    match unbindNameL x ((Dict.get? sw x.n.base).getD x.n.base), unbindListL sw r with
    | some x', some r' => some (x' :: r')
    | _, _ => none

def unbindIrL {L : Type} (sw : Dict Str Str) (ir : LSets L) : Option (LSets L) :=
  match unbindListL sw ir.gets, unbindListL sw ir.sets, unbindListL sw ir.dels with
  | some g, some s, some d => some ⟨g, s, d⟩
  | _, _, _ => none

def foldChildL {L : Type} (P : Prog) (parentKey : Key) (σ : LStore L) (child : Node) : Option (LStore L) :=
  match child.edgeIn with
  | none => some σ
  | some c =>
    let sw := (Swaps.construct (si P) (fnAt P child.key).iface c.args).1
    match unbindIrL sw (σ child.key) with
    | none => none
    | some u =>
      let p := σ parentKey
      some (σ.update parentKey ⟨unionL p.gets u.gets, unionL p.sets u.sets, unionL p.dels u.dels⟩)

def foldChildrenL {L : Type} (P : Prog) (parentKey : Key) : List Node → LStore L → Option (LStore L)
  | [], σ => some σ
  | ch :: r, σ => match foldChildL P parentKey σ ch with
    | none => none
    | some σ' => foldChildrenL P parentKey r σ'

def foldTreeL {L : Type} (P : Prog) (nodes : List Node) : List Nat → LStore L → Option (LStore L)
  | [], σ => some σ
  | i :: r, σ =>
    match nodes[i]? with
    | none => foldTreeL P nodes r σ
    | some n => match foldChildrenL P n.key (childrenOf nodes i) σ with
      | none => none
      | some σ' => foldTreeL P nodes r σ'

def runRootL {L : Type} (P : Prog) (σ : LStore L) (root : Key) : Out (LSets L × LStore L) :=
  match callTree P root with
  | none => .outOfFuel
  | some nodes =>
    match foldTreeL P nodes (List.range nodes.length).reverse σ with
    | none => .never
    | some σ' => .ok (σ' root, σ')

def generateL {L : Type} (P : Prog) : List Key → LStore L → Out (List (Key × LSets L) × LStore L)
  | [], σ => .ok ([], σ)
  | f :: r, σ =>
    match runRootL P σ f with
    | .outOfFuel => .outOfFuel
    | .never => .never
    | .ok (res, σ') =>
      match generateL P r σ' with
      | .ok (rs, σ'') => .ok ((f, res) :: rs, σ'')
      | .outOfFuel => .outOfFuel
      | .never => .never

/-- `f` reaches `g` through resolvable calls (reflexive-transitive). -/
inductive Reach (P : Prog) : Key → Key → Prop where
  | refl (f : Key) : Reach P f f
  | step {f g h : Key} (c : CallRec) : c ∈ (fnAt P f).calls → P.resolve c.cid = some g → Reach P g h → Reach P f h

/-- What the harness' provenance oracle checks (py/props/c14prov.py), location part: every location in
`σ'` was, in `σ₀`, the location of a member of the same set of a reachable function. -/
def Provenanced {L : Type} (P : Prog) (σ₀ σ' : LStore L) : Prop :=
  ∀ f k x, x ∈ (σ' f).get k → ∃ g, Reach P f g ∧ ∃ y ∈ (σ₀ g).get k, y.loc = x.loc

end Provenance
end Rattr

/-
  RattrModel.Ast — the Python AST as the function analyser sees it.

  One inductive `Node` for expressions, statements and the few helper nodes
  (`comprehension`, `withitem`). Every node kind WITHOUT a dedicated visitor in
  `FunctionAnalyser` is `other kind kids`, `kids` being its child nodes in the order
  `ast.NodeVisitor.generic_visit` visits them (fields in `_fields` order, list items in order,
  `None` skipped). Operators / expr_context nodes are childless and omitted.
-/
import RattrModel.Basic
import RattrModel.Swaps

namespace Rattr

inductive ECtx where
  | load | store | del
  deriving DecidableEq, Repr

structure Params where
  posonly : List Str
  args    : List Str
  vararg  : Option Str
  kwonly  : List Str
  kwarg   : Option Str
  deriving DecidableEq, Repr

def Params.iface (p : Params) : Iface Str := ⟨p.posonly, p.args, p.vararg, p.kwonly, p.kwarg⟩
def Params.all (p : Params) : List Str := p.iface.all

inductive Node where
  | name (id : Str) (ctx : ECtx)
  | attr (v : Node) (a : Str) (ctx : ECtx)
  | sub (v : Node) (sl : Node) (ctx : ECtx)
  | starred (v : Node) (ctx : ECtx)
  | call (f : Node) (args : List Node) (kwNames : List (Option Str)) (kwVals : List Node)
  | lam (ps : Params) (body : Node)
  | comp (kind : Str) (elts : List Node) (gens : List Node)   -- ListComp/SetComp/DictComp/GeneratorExp
  | gen (target iter : Node) (ifs : List Node)                -- ast.comprehension
  | walrus (t v : Node)                                       -- NamedExpr
  | strConst (s : Str)
  | const                                                     -- any non-str Constant
  | seq (kind : Str) (elts : List Node) (ctx : ECtx)          -- "Tuple" | "List" | "Set"
  | dict (keys vals : List Node)                              -- `None` keys (`**d`) dropped
  | assign (targets : List Node) (v : Node)
  | annAssign (t ann : Node) (v : List Node)                  -- value optional: [] or [v]
  | augAssign (t v : Node)
  | delete (targets : List Node)
  | forLoop (t iter : Node) (body orelse : List Node)         -- For / AsyncFor
  | withStmt (items : List Node) (body : List Node)           -- With / AsyncWith; items are `withitem`
  | withitem (ce : Node) (vars : List Node)                   -- optional_vars: [] or [v]
  | funcDef (name : Str) (ps : Params) (body : List Node)     -- nested FunctionDef / AsyncFunctionDef
  | classDef (name : Str)
  | ret (v : List Node)                                       -- Return; value optional
  | forbidden (kind : Str)                                    -- Global / Nonlocal / Import / ImportFrom
  | other (kind : Str) (kids : List Node)
  deriving Repr

/-- `isinstance(node, AstNodeWithName)` -/
def Node.isNameable : Node → Bool
  | .name .. | .attr .. | .sub .. | .starred .. | .call .. => true
  | _ => false

/-- `node.__class__.__name__` for expression nodes that can be named `@Kind`. -/
def Node.className : Node → Str
  | .name .. => "Name".toList
  | .attr .. => "Attribute".toList
  | .sub .. => "Subscript".toList
  | .starred .. => "Starred".toList
  | .call .. => "Call".toList
  | .lam .. => "Lambda".toList
  | .comp k .. => k
  | .gen .. => "comprehension".toList
  | .walrus .. => "NamedExpr".toList
  | .strConst _ => "Constant".toList
  | .const => "Constant".toList
  | .seq k .. => k
  | .dict .. => "Dict".toList
  | .assign .. => "Assign".toList
  | .annAssign .. => "AnnAssign".toList
  | .augAssign .. => "AugAssign".toList
  | .delete .. => "Delete".toList
  | .forLoop .. => "For".toList
  | .withStmt .. => "With".toList
  | .withitem .. => "withitem".toList
  | .funcDef .. => "FunctionDef".toList
  | .classDef .. => "ClassDef".toList
  | .ret .. => "Return".toList
  | .forbidden k => k
  | .other k _ => k

end Rattr

/-
  Spec.Precedence — what C20 demands, stated without reference to argparse or to the two-pass
  algorithm: per option, from what each source SAYS about it.

    effective o = the command-line value if given, else the TOML value if given, else the default;
    list-valued options: the TOML items followed by the command-line items;
    the TOML source is the `-c` file if it exists, else the project's pyproject.toml, else nothing;
    a TOML value is acceptable iff it has exactly the documented type (a TOML boolean is NOT an
    integer) and, where the option has choices, is one of them; unknown keys say nothing.

  [interp] an option given several times on the command line: the last occurrence wins.
  [interp] a list-valued option for which neither source gives an item keeps its default (`None`,
  which rattr reads as the empty set).
  [interp] a TOML flag `x = false` says "false" (= the default of every flag option).
-/
import RattrModel.Cli

namespace Rattr.Spec
open Rattr Rattr.Cli

inductive Kind where
  | scalar | flag | list
  deriving DecidableEq, Repr

/-- What one source says about one option. `cli`: the values given, in order of occurrence
(for a flag: one `.bool true` per occurrence). `toml`: the value given, if any. -/
def effective (kind : Kind) (default : Val) (toml : Option Val) (cli : List Val) : Val :=
  match kind with
  | .scalar | .flag =>
    match cli.getLast? with
    | some v => v
    | none =>
      match toml with
      | some v => v
      | none => default
  | .list =>
    let items (v : Val) : List Text := match v with | .texts l => l | _ => []
    let all := (match toml with | some v => items v | none => []) ++ cli.flatMap items
    if all = [] then default else .texts all

/-- The TOML source. -/
def tomlSource {α : Type} (overrideGivenAndExists : Option α) (projectPyproject : Option α) : Option α :=
  match overrideGivenAndExists with
  | some f => some f
  | none => projectPyproject

/-- The documented TOML types. -/
inductive DocType where
  | bool | int | str | listOfStr
  deriving DecidableEq, Repr

/-- Exact typing: a boolean is not an integer. -/
def wellTyped : DocType → TVal → Bool
  | .bool, .sc (.bool _) => true
  | .int, .sc (.int _) => true
  | .str, .sc (.str _) => true
  | .listOfStr, .list l => l.all fun s => match s with | .str _ => true | _ => false
  | _, _ => false

/-- The namespace value a well-typed TOML value stands for. -/
def tomlMeaning : TVal → Option Val
  | .sc (.bool b) => some (.bool b)
  | .sc (.int i) => some (.int i)
  | .sc (.str t) => some (.text t)
  | .list l => some (.texts (l.filterMap fun s => match s with | .str t => some t | _ => none))
  | _ => none

/-- A TOML value is acceptable for an option: exact type and within the choices. -/
def acceptable (ty : DocType) (choices : Option (List Val)) (v : TVal) : Bool :=
  wellTyped ty v &&
    match choices, tomlMeaning v with
    | some cs, some m => cs.contains m
    | _, _ => true

end Rattr.Spec

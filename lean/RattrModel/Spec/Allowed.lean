/-
  RattrModel.Spec.Allowed — what C12 demands, written without reference to the work-list algorithm.

  * `levelFlags`  : the documented meaning of `--follow-imports 0..3`.
  * `permitted`   : a module may be analysed at these flags — it has a file, its name matches no
                    exclusion pattern (nor rattr itself), it is not a site-packages module unless pip
                    modules are followed, not a stdlib module unless stdlib modules are followed; and
                    nothing is permitted unless local following is on (level 0).
  * `Reach`       : least set of module names containing the permitted modules the target imports and
                    closed under "permitted module imported by a reached module".
  * `reach`       : executable closure (bounded iteration) used by the driver; cross-checked on every
                    run against a 15-line Python closure, and `reach_sound` (Props/C12) ties it to
                    `Reach`.

  [interp] A module is identified by its *name* (the key of `import_irs`); "matching an
  --exclude-import pattern" is `re.fullmatch(pattern, name)` (`Module.excluded`, computed by the
  harness, not by rattr). Parent packages of a followed submodule are not themselves required.
-/
import RattrModel.Imports

namespace Rattr.Spec
open Rattr.Imports

/-- Documented meaning of the four levels. -/
def levelFlags : Nat → Flags
  | 0 => { loc := false, pip := false, stdlib := false }
  | 1 => { loc := true, pip := false, stdlib := false }
  | 2 => { loc := true, pip := true, stdlib := false }
  | _ => { loc := true, pip := true, stdlib := true }

variable {ν ω : Type} [DecidableEq ν] [DecidableEq ω]

def permitted (fl : Flags) (m : Module ν ω) : Bool :=
  fl.loc && m.origin.isSome && !m.excluded && (!m.inPip || fl.pip) && (!m.inStdlib || fl.stdlib)

/-- The set of modules C12 says must be analysed (each once) and outside which nothing may be. -/
inductive Reach (g : Graph ν ω) (fl : Flags) (target : List (Imp ν)) : ν → Prop where
  | root {i : Imp ν} {n : ν} {m : Module ν ω} :
      i ∈ target → i.target = some n → lookup g n = some m → permitted fl m = true →
      Reach g fl target n
  | step {p : ν} {pm : Module ν ω} {i : Imp ν} {n : ν} {m : Module ν ω} :
      Reach g fl target p → lookup g p = some pm → i ∈ pm.imports →
      i.target = some n → lookup g n = some m → permitted fl m = true →
      Reach g fl target n

/-- Permitted modules named by a list of import symbols. -/
def permittedTargets (g : Graph ν ω) (fl : Flags) (imps : List (Imp ν)) : List ν :=
  imps.filterMap fun i =>
    match i.target with
    | none => none
    | some n =>
      match lookup g n with
      | none => none
      | some m => if permitted fl m then some n else none

/-- Import symbols of the modules named in `ns`. -/
def importsOf (g : Graph ν ω) (ns : List ν) : List (Imp ν) :=
  ns.flatMap fun n =>
    match lookup g n with
    | none => []
    | some m => m.imports

/-- One round of the closure operator. -/
def reachStep (g : Graph ν ω) (fl : Flags) (target : List (Imp ν)) (s : List ν) : List ν :=
  (permittedTargets g fl target ++ permittedTargets g fl (importsOf g s)).eraseDups

def reachIter (g : Graph ν ω) (fl : Flags) (target : List (Imp ν)) : Nat → List ν
  | 0 => []
  | k + 1 => reachStep g fl target (reachIter g fl target k)

/-- Executable closure: `|g| + 1` rounds reach the fixpoint (a chain of distinct names is no longer
than the graph). -/
def reach (g : Graph ν ω) (fl : Flags) (target : List (Imp ν)) : List ν :=
  reachIter g fl target (g.length + 1)

/-! ### Hypotheses of the C12 theorems (all decidable on concrete graphs) -/

/-- The level-0 gate tests "any bit", the spec demands the *local* bit: they agree on every flag set
the four levels produce (`flagsOK_levels`). -/
def FlagsOK (fl : Flags) : Prop := fl.any = true → fl.loc = true

/-- Distinct module names have distinct files. -/
def OriginInjective (g : Graph ν ω) : Prop :=
  ∀ a ∈ g, ∀ b ∈ g, a.origin = b.origin → a.origin ≠ none → a.name = b.name

/-- Origins are canonical: two origins of the graph that denote the same real file (`real` =
`os.path.realpath`, computed by the harness, never by rattr) are the same origin. This is what
`python_path.resolve()` in `find_module_in_path` is for; it FAILS when a file is reached through a
symlink below a search dir (`C12_cex_symlink_below_search_dir`). -/
def OriginsCanonical {ρ : Type} (g : Graph ν ω) (real : ω → ρ) : Prop :=
  ∀ a ∈ g, ∀ b ∈ g, ∀ oa ob, a.origin = some oa → b.origin = some ob → real oa = real ob → oa = ob

/-- Executable form of `OriginsCanonical` (the two are equivalent: `originsCanonicalB_iff`). -/
def originsCanonicalB {ρ : Type} [DecidableEq ρ] (g : Graph ν ω) (real : ω → ρ) : Bool :=
  g.all fun a => g.all fun b =>
    match a.origin, b.origin with
    | some oa, some ob => !(decide (real oa = real ob)) || decide (oa = ob)
    | _, _ => true

/-- What C12 demands of the classification by isort section: `__future__` (FUTURE) and the STDLIB
section are stdlib modules (ground truth: `sys.stdlib_module_names`), the other sections are not. -/
def stdlibSection : Section → Bool
  | .future => true
  | .stdlib => true
  | .thirdparty => false
  | .firstparty => false
  | .localfolder => false
  | .other => false

/-- The `inStdlib` verdicts of the graph are `is_in_stdlib` of the section isort places each name in
(`sec` = `place_module`, supplied per case by the installed isort). -/
def SectionsAgree (g : Graph ν ω) (sec : ν → Section) : Prop :=
  ∀ m ∈ g, m.inStdlib = isInStdlib (sec m.name)

instance (g : Graph ν ω) (sec : ν → Section) : Decidable (SectionsAgree g sec) := by
  unfold SectionsAgree; infer_instance

/-- Every module whose name matches an exclusion pattern is stopped by the ladder: it is blacklisted
by `is_in_import_blacklist`, or it is a stdlib module and stdlib modules are not followed. -/
def ExclusionHonoured (g : Graph ν ω) (fl : Flags) : Prop :=
  ∀ m ∈ g, m.excluded = true → m.blacklisted = true ∨ (m.inStdlib = true ∧ fl.stdlib = false)

/-- `is_in_import_blacklist` blacklists nothing but excluded names (it also matches patterns against
file paths; the hypothesis says no pattern of the case does). -/
def NoOverBlacklist (g : Graph ν ω) : Prop :=
  ∀ m ∈ g, m.blacklisted = true → m.excluded = true

/-- Shape of the pinned `is_in_import_blacklist` on name-matching patterns: stdlib names are exempt. -/
def RealBlacklist (g : Graph ν ω) : Prop :=
  ∀ m ∈ g, m.blacklisted = (m.excluded && !m.inStdlib)

instance (g : Graph ν ω) : Decidable (OriginInjective g) := by unfold OriginInjective; infer_instance
instance (g : Graph ν ω) (fl : Flags) : Decidable (ExclusionHonoured g fl) := by
  unfold ExclusionHonoured; infer_instance
instance (g : Graph ν ω) : Decidable (NoOverBlacklist g) := by unfold NoOverBlacklist; infer_instance
instance (g : Graph ν ω) : Decidable (RealBlacklist g) := by unfold RealBlacklist; infer_instance
instance (fl : Flags) : Decidable (FlagsOK fl) := by unfold FlagsOK; infer_instance

end Rattr.Spec

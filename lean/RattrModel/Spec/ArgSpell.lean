/-
  RattrModel.Spec.ArgSpell — for which argument expressions the call record owes the README spelling
  (property C09: "each spelled in the nameable format"), as decidable syntactic predicates written
  from the README table and Python's own reading of the four builtins, not from the namers.

  `Spec.spell` (Spec/Spell.lean) reads a DIRECT call `getattr(o, "k", …)` (also `setattr`, `hasattr`,
  `delattr`) as the dotted access `O.k`. That reading needs
    * at least two positional arguments and a string-literal name (otherwise there is no equivalent
      dotted access — the [interp] clause of Spec/Spell.lean), and
    * an object that HAS a spelling rooted at a variable: a chain of attribute / subscript / starred /
      call steps that ends in a name (`strictDoc`), or a nested direct call of the same builtin
      (`getattr(getattr(a, "b"), "c")` = `a.b.c`).
  Everything else is spelled compositionally, so a call whose *function* is reached through such a
  builtin — `getattr(u, "cfg").pick(v, "name")`, `getattr(u, "cfg")(v, "name")`, `getattr.x(p, "q")` — is
  an ordinary call: `spell f ++ "()"`, whatever its own arguments are.

  `argDoc e`    : `e` is in the fragment, read with stand-ins allowed (`@Kind` for the innermost
                  unnameable node) — the reading `arg_name` / `kwarg_name` use;
  `strictDoc e` : the same, and the chain ends in a variable (no stand-in).
  `litPair g args` : the argument list of a direct call of the builtin `g` is in the fragment.

  Proved about the model in RattrProofs/Props/C09.lean (`C09_arg_documented`): on `argDoc` the recorder
  of the function analyser produces exactly `Spec.spell`. Validated on every run against an independent
  Python re-implementation on the real `ast` node (py/props/c09args.py, `py_doc`).
-/
import RattrModel.Spec.Spell

namespace Rattr.Spec
open Rattr.Naming

def isStrConst : Expr → Bool
  | .strConst _ => true
  | _ => false

mutual
/-- the spelling of `e` is documented and rooted at a variable. -/
def strictDoc : Expr → Bool
  | .name _ => true
  | .attr e _ => strictDoc e
  | .sub e => strictDoc e
  | .starred e => strictDoc e
  | .call f args =>
    match f with
    | .name g => if isXattr g then litPair g args else true
    | _ => strictDoc f
  | .strConst _ => false
  | .other _ => false

/-- the arguments `obj, name, …` of a direct call of the getattr-family builtin `g`: a string-literal
name; the object a nested direct call of the same builtin (recursively) or a documented chain that
ends in a variable. -/
def litPair (g : Str) : List Expr → Bool
  | obj :: nm :: _ =>
    isStrConst nm &&
      (match obj with
       | .call f' args' => isCallTo g f' && litPair g args'
       | .name _ => true
       | .attr e _ => strictDoc e
       | .sub e => strictDoc e
       | .starred e => strictDoc e
       | .strConst _ => false
       | .other _ => false)
  | _ => false
end

/-- the spelling of `e` is documented, `@Kind` stand-ins allowed at the innermost position. -/
def argDoc : Expr → Bool
  | .name _ => true
  | .attr e _ => argDoc e
  | .sub e => argDoc e
  | .starred e => argDoc e
  | .call f args =>
    match f with
    | .name g => if isXattr g then litPair g args else true
    | _ => argDoc f
  | .strConst _ => true
  | .other _ => true

end Rattr.Spec

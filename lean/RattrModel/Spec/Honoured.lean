/-
  RattrModel.Spec.Honoured — what C11 demands, written without reference to the algorithm of
  `rattr/analyser/util.py` / `file.py` / `cls.py`.

  (iii) annotation values.  `WellFormed` is the documented type of the `rattr_results` keywords
        (rattr/analyser/annotations.py): no positional argument, keywords among gets / sets /
        dels / calls, `gets`/`sets`/`dels` a set of identifier strings, `calls` a list of
        `(name, ([names], {name: name}))`; an absent keyword stands for the empty set / list.
        [interp] `gets=None` (the decorator's own default) is NOT well-formed: the documentation
        string of the analyser-side parser says `set[Identifier]`, and the pinned code rejects it.
  (ii)  `declared` is the IR such a value denotes: every string as written, its base = the text
        before the first `.` with `*` removed; a call keeps its name (without trailing `()`,
        which is how rattr spells every call name), its positional names and its keyword map.
  (i)   `expectedEntry` / `expectedInlined`: an ignored or excluded callable has no entry and is
        never inlined.
  On the literal level: `evaluable` (no un-evaluable sub-expression) and `hashClosed` (every set
  element / dict key is hashable, as CPython demands) are read off the syntax of the expression.
-/
import RattrModel.Annotations

namespace Rattr.Spec.Honoured
open Rattr Rattr.Ann

/-! ### identifiers -/

/-- drop one leading `c`, if any -/
def dropLeading (c : Char) : Str → Str
  | [] => []
  | x :: r => if x = c then r else x :: r

/-- an identifier in rattr's result language: optional `*`, optional `@`, a letter or `_`, then
letters, digits, `_`, `(`, `)`, `[`, `]`, `.` (ASCII fragment). -/
def isIdent (s : Str) : Bool :=
  match dropLeading '@' (dropLeading '*' s) with
  | [] => false
  | c :: r => isIdStart c && r.all isIdCont

def isIdentV : PyVal → Bool
  | .str s => isIdent s
  | _ => false

/-! ### well-formed `rattr_results` arguments (on the evaluated values) -/

def setOfIdents : PyVal → Bool
  | .set xs => xs.all isIdentV
  | _ => false

def listOfIdents : PyVal → Bool
  | .list xs => xs.all isIdentV
  | _ => false

def identMap : PyVal → Bool
  | .dict items => items.all (fun kv => isIdentV kv.1 && isIdentV kv.2)
  | _ => false

/-- `(name, ([names], {name: name}))` -/
def callSpecOk : PyVal → Bool
  | .tuple [n, .tuple [pa, kw]] => isIdentV n && listOfIdents pa && identMap kw
  | _ => false

def callSpecsOk : PyVal → Bool
  | .list xs => xs.all callSpecOk
  | _ => false

def keyOk (k : Option Str) : Bool :=
  k = some kGets || k = some kSets || k = some kDels || k = some kCalls

/-- the value given for keyword `k`, if any (a later `k=` cannot occur: Python rejects a repeated
keyword; `**{…}` entries have no name and make the arguments ill-formed) -/
def given (kv : KwVals) (k : Str) : Option PyVal := Dict.get? kv (some k)

def fieldOk (p : PyVal → Bool) : Option PyVal → Bool
  | none => true
  | some v => p v

def WellFormed (pv : List PyVal) (kv : KwVals) : Bool :=
  pv.isEmpty && (Dict.keys kv).all keyOk
    && fieldOk setOfIdents (given kv kGets) && fieldOk setOfIdents (given kv kSets)
    && fieldOk setOfIdents (given kv kDels) && fieldOk callSpecsOk (given kv kCalls)

/-- The shapes on which the pinned code raises `AttributeError` instead of diagnosing: a call spec
`(_, (_, X))` whose `X` is not a dict. (Sufficient, not necessary, for "no crash".) -/
def specNoCrash : PyVal → Bool
  | .tuple [_, .tuple [_, kw]] => (match kw with | .dict _ => true | _ => false)
  | _ => true

def NoCrashShape (kv : KwVals) : Bool :=
  match given kv kCalls with
  | some (.list xs) => xs.all specNoCrash
  | _ => true

/-! ### the declared IR -/

def specBase (s : Str) : Str := (s.filter (· != '*')).takeWhile (· != '.')

def specName (s : Str) : NameS := { full := s, base := specBase s }

def strs : List PyVal → List Str
  | [] => []
  | .str s :: r => s :: strs r
  | _ :: r => strs r

def strPairs : List (PyVal × PyVal) → List (Str × Str)
  | [] => []
  | (.str k, .str v) :: r => (k, v) :: strPairs r
  | _ :: r => strPairs r

def declaredNames : Option PyVal → List NameS
  | some (.set xs) => (strs xs).map specName
  | _ => []

def declaredCall : PyVal → Option DeclCall
  | .tuple [.str n, .tuple [.list pa, .dict items]] =>
    some { name := Strs.withoutCallBrackets n, args := strs pa, kwargs := strPairs items }
  | _ => none

def declaredCalls : Option PyVal → List DeclCall
  | some (.list cs) => cs.filterMap declaredCall
  | _ => []

/-- the IR a well-formed argument set denotes; no function body appears anywhere -/
def declared (kv : KwVals) : DeclaredIr :=
  { gets := declaredNames (given kv kGets), sets := declaredNames (given kv kSets),
    dels := declaredNames (given kv kDels), calls := declaredCalls (given kv kCalls) }

/-! ### literal level: what CPython needs to evaluate the expression -/

mutual
def evaluable : Lit → Bool
  | .num _ => true
  | .str _ => true
  | .bytes _ => true
  | .nameConst _ => true
  | .list xs => evaluableL xs
  | .tuple xs => evaluableL xs
  | .set xs => evaluableL xs
  | .dict ps => evaluableP ps
  | .dictUnpack => false
  | .other => false
def evaluableL : List Lit → Bool
  | [] => true
  | x :: r => evaluable x && evaluableL r
def evaluableP : List (Lit × Lit) → Bool
  | [] => true
  | (k, v) :: r => evaluable k && evaluable v && evaluableP r
end

mutual
/-- the expression denotes a hashable value (numbers, strings, bytes, constants, tuples thereof) -/
def litHashable : Lit → Bool
  | .num _ => true
  | .str _ => true
  | .bytes _ => true
  | .nameConst _ => true
  | .tuple xs => litHashableL xs
  | .list _ => false
  | .set _ => false
  | .dict _ => false
  | .dictUnpack => false
  | .other => false
def litHashableL : List Lit → Bool
  | [] => true
  | x :: r => litHashable x && litHashableL r
end

mutual
/-- every set display has only hashable elements and every dict display only hashable keys -/
def hashClosed : Lit → Bool
  | .num _ => true
  | .str _ => true
  | .bytes _ => true
  | .nameConst _ => true
  | .list xs => hashClosedL xs
  | .tuple xs => hashClosedL xs
  | .set xs => hashClosedL xs && litHashableL xs
  | .dict ps => hashClosedP ps
  | .dictUnpack => true
  | .other => true
def hashClosedL : List Lit → Bool
  | [] => true
  | x :: r => hashClosed x && hashClosedL r
def hashClosedP : List (Lit × Lit) → Bool
  | [] => true
  | (k, v) :: r => hashClosed k && hashClosed v && litHashable k && hashClosedP r
end

def kwsEvaluable (kws : List (Option Str × Lit)) : Bool := kws.all (fun kl => evaluable kl.2)
def kwsHashClosed (kws : List (Option Str × Lit)) : Bool := kws.all (fun kl => hashClosed kl.2)

/-! ### (i): ignored / excluded callables -/

/-- the decorators name `rattr_ignore` (all decorators nameable) -/
def ignored (ds : List Deco) : Bool := ds.any (fun d => d.head == .named nIgnore)

def allNamed (ds : List Deco) : Bool := ds.all (fun d => d.head != .bad)

/-- must a callable have an entry in the file IR (and so in the results)? -/
def expectedEntry (ds : List Deco) (verdicts : List Bool) : Bool :=
  !(ignored ds || verdicts.any id)

/-- may a call to it be inlined? -/
def expectedInlined (ds : List Deco) (verdicts : List Bool) : Bool := expectedEntry ds verdicts

end Rattr.Spec.Honoured

/-
  Spec.ExitCode — the documented exit / badness contract (C15), written from the English text and
  independently of how `Diag.run` steps through the events. None of these definitions mentions the
  warning level or the path-format options: the contract does not depend on them (C16).

  * every emitted diagnostic adds its weight to the bucket of the place it arose;
  * only target + simplification badness count towards the threshold;
  * exit 1 iff  a fatal diagnostic is raised,
            or  that badness exceeds a non-zero threshold            (non-strict),
            or  strict mode and (a weighted error-level diagnostic arises anywhere
                                 or that badness is non-zero);
    otherwise exit 0 and the selected output is printed.
-/
import RattrModel.Diag

namespace Rattr.Spec
open Rattr.Diag

/-- Sum of the weights of the diagnostics that arose at `l`. -/
def bucket (l : Where) (evs : List Event) : Nat :=
  ((evs.filter (fun e => e.loc = l)).map Event.badness).sum

def buckets (evs : List Event) : State :=
  ⟨bucket .target evs, bucket .import_ evs, bucket .none evs⟩

/-- The badness that counts: target file plus result simplification. -/
def countedBadness (evs : List Event) : Nat := bucket .target evs + bucket .none evs

def isFatal (e : Event) : Bool := e.level = .fatal
def isWeightedError (e : Event) : Bool := e.level = .error && decide (e.badness > 0)

/-- The exit status demanded by the contract for a run that would emit `evs`. -/
def exit (strict : Bool) (threshold : Nat) (evs : List Event) : Nat :=
  if evs.any isFatal
      || (!strict && threshold != 0 && decide (countedBadness evs > threshold))
      || (strict && (evs.any isWeightedError || countedBadness evs != 0))
  then 1 else 0

/-- The selected output is printed exactly when the run exits 0. -/
def outputPrinted (strict : Bool) (threshold : Nat) (evs : List Event) : Bool :=
  exit strict threshold evs = 0

/-- A diagnostic that ends the process when it is raised. -/
def exits (strict : Bool) (e : Event) : Bool := isFatal e || (strict && isWeightedError e)

/-- The diagnostics actually emitted: everything up to and including the first one that exits. -/
def processed (strict : Bool) : List Event → List Event
  | [] => []
  | e :: es => if exits strict e then [e] else e :: processed strict es

/-- The error / fatal lines that must be on stderr whatever the verbosity: one per emitted
error-level or fatal diagnostic (a weighted error under strict mode is reported as fatal), plus the
"exceeded allowed badness" fatal when the threshold gate fails. -/
def errorLine (strict : Bool) (e : Event) : Option Line :=
  match e.level with
  | .fatal => some ⟨.fatal, e.loc⟩
  | .error => some ⟨if strict && decide (e.badness > 0) then .fatal else .error, e.loc⟩
  | _ => none

def gateFails (strict : Bool) (threshold : Nat) (evs : List Event) : Bool :=
  !evs.any (exits strict) && exit strict threshold evs = 1

def errorLines (strict : Bool) (threshold : Nat) (evs : List Event) : List Line :=
  (processed strict evs).filterMap (errorLine strict)
    ++ (if gateFails strict threshold evs then [⟨.fatal, .none⟩] else [])

end Rattr.Spec

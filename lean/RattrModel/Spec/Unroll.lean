/-
  RattrModel.Spec.Unroll — what "contains at least one full unrolling of every call cycle" demands
  of a root, written independently of rattr's tree / fold algorithm (round 3 of C03).

  `unroll S fuel path f`: the accesses derivable along the call paths from `f` that visit no
  function of `path` again, plus — where a call goes back to a function already on the path (the
  root included) — that function's OWN accesses once more, under the bindings of the whole path.
  On an acyclic graph (with enough fuel) this is the closure `derive`; under recursion it is the
  lower bound of the property, `derive` (for every depth) the upper bound.
  The harness computes the same set from the IR snapshot (`resultslib.unroll_once`) and from the
  source text (`c03proj.Project.unroll`); op `c03_spec` ties this definition to the former.
-/
import RattrModel.Spec.Closure

namespace Rattr.Spec

/-- the fold step of `derive` / `unroll`: callee accesses given by `D`, rewritten by the binding. -/
def ustep (S : SProg) (D : Key → Acc) (acc : Acc) (c : CallRec) : Acc :=
  match S.prog.resolve c.cid with
  | none => acc
  | some g =>
    match binding S g c with
    | none => acc
    | some b => acc.union ((D g).map (subst b))

def unroll (S : SProg) : Nat → List Key → Key → Acc
  | 0, _, f => ownAcc S f
  | d + 1, path, f =>
    (Results.fnAt S.prog f).calls.foldl
      (ustep S (fun g => if path.contains g then ownAcc S g else unroll S d (g :: path) g))
      (ownAcc S f)

/-- one unrolling below root `f` (fuel: no path is longer than the number of functions). -/
def unrollRoot (S : SProg) (f : Key) : Acc := unroll S (S.prog.fns.length + 1) [f] f

end Rattr.Spec

/-
  RattrModel.Spec.Spell — the README's "Nameables Format" as a plain structural recursion,
  written without reference to the namers' algorithms (no outcomes, no `safe`, no exception classes,
  no helper for the getattr family — just the table).

      x        ↦ x                      base: x
      e.a      ↦ E.a                    base: base of e
      e[i]     ↦ E[]                    base: base of e
      e(...)   ↦ E()                    base: base of e
      *e       ↦ *E                     base: base of e
      other    ↦ @<AST node type>       base: the same stand-in
      xattr(o, "k", ...) with xattr ∈ {getattr, setattr, hasattr, delattr} called directly
               ↦ O.k  (the equivalent dotted access)   base: base of o

  [interp] A getattr-family call whose name argument is not a string literal, or with fewer than
  two positional arguments, has no equivalent dotted access; the table then reads it as the plain
  call it is (`getattr()`). The harness does not judge clause (a) on such expressions.

  Validated on every run against an independent Python re-implementation (py/props/c10.py).
-/
import RattrModel.Naming

namespace Rattr.Spec
open Rattr.Naming

/-- The README spelling. -/
def spell : Expr → Str
  | .name x => x
  | .attr e a => spell e ++ ['.'] ++ a
  | .sub e => spell e ++ ['[', ']']
  | .starred e => ['*'] ++ spell e
  | .call (.name g) (obj :: .strConst k :: _) =>
    if g ∈ [['d','e','l','a','t','t','r'], ['g','e','t','a','t','t','r'],
            ['h','a','s','a','t','t','r'], ['s','e','t','a','t','t','r']]
    then spell obj ++ ['.'] ++ k
    else g ++ ['(', ')']
  | .call f _ => spell f ++ ['(', ')']
  | .strConst _ => ['@','C','o','n','s','t','a','n','t']
  | .other kind => '@' :: kind

/-- The base name: identifier of the innermost variable, or the stand-in. -/
def base : Expr → Str
  | .name x => x
  | .attr e _ => base e
  | .sub e => base e
  | .starred e => base e
  | .call (.name g) (obj :: .strConst _ :: _) =>
    if g ∈ [['d','e','l','a','t','t','r'], ['g','e','t','a','t','t','r'],
            ['h','a','s','a','t','t','r'], ['s','e','t','a','t','t','r']]
    then base obj
    else g
  | .call f _ => base f
  | .strConst _ => ['@','C','o','n','s','t','a','n','t']
  | .other kind => '@' :: kind

end Rattr.Spec

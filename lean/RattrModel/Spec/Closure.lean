/-
  RattrModel.Spec.Closure — what C03 demands: a function's results are its own accesses united with
  those of every resolvable callee, with the callee's parameters rewritten to the argument
  EXPRESSIONS at every level. Written independently of rattr's tree/fold algorithm: a plain
  depth-indexed unfolding (`derive`), `Derivable := ∃ depth, … ∈ derive depth`.
-/
import RattrModel.Results
import RattrModel.Spec.PyBind

namespace Rattr.Spec

/-- Root variable of a spelled name (README: basename): drop a leading `*`, keep everything before
the first `.`, `[` or `(`. -/
def rootVar (s : Str) : Str :=
  let body := match s with | '*' :: r => r | _ => s
  body.takeWhile (fun c => c != '.' && c != '[' && c != '(')

/-- Rewrite the root variable of `n` by the binding (argument expression), keeping a leading `*`
of the name and dropping one of the replacement. -/
def subst (b : Dict Str Str) (n : Str) : Str :=
  match Dict.get? b (rootVar n) with
  | none => n
  | some rep =>
    let starred := n.head? = some '*'
    let body := if starred then n.drop 1 else n
    let repBody := match rep with | '*' :: r => r | _ => rep
    (if starred then ['*'] else []) ++ repBody ++ body.drop (rootVar n).length

structure SProg where
  prog : Prog
  sigs : List (Sig Str)          -- the real signatures (with defaults), Key = index
  own  : Store                   -- own accesses

def sigAt (S : SProg) (k : Key) : Sig Str :=
  (S.sigs[k]?).getD ⟨[], [], none, [], none⟩

/-- binding of call `c` to callee `g` as Python binds it, plus the stand-ins; `none` when Python
rejects the call. -/
def binding (S : SProg) (g : Key) (c : CallRec) : Option (Dict Str Str) :=
  match pyBind (sigAt S g) c.args with
  | .ok b => some (expectedSwaps (Results.si S.prog) (sigAt S g) b)
  | .error _ => none

def unionS (a b : List Str) : List Str := a ++ b.filter (fun x => !a.contains x)

structure Acc where
  gets : List Str
  sets : List Str
  dels : List Str
  deriving DecidableEq, Repr

def Acc.union (a b : Acc) : Acc := ⟨unionS a.gets b.gets, unionS a.sets b.sets, unionS a.dels b.dels⟩
def Acc.map (f : Str → Str) (a : Acc) : Acc := ⟨a.gets.map f, a.sets.map f, a.dels.map f⟩

def ownAcc (S : SProg) (k : Key) : Acc :=
  ⟨(S.own k).gets.map (·.full), (S.own k).sets.map (·.full), (S.own k).dels.map (·.full)⟩

/-- Unfold the call graph to `depth` call levels. -/
def derive (S : SProg) : Nat → Key → Acc
  | 0, f => ownAcc S f
  | d + 1, f =>
    (Results.fnAt S.prog f).calls.foldl (fun acc c =>
      match S.prog.resolve c.cid with
      | none => acc
      | some g =>
        match binding S g c with
        | none => acc
        | some b => acc.union ((derive S d g).map (subst b))) (ownAcc S f)

def DerivableGet (S : SProg) (f : Key) (n : Str) : Prop := ∃ d, n ∈ (derive S d f).gets
def DerivableSet (S : SProg) (f : Key) (n : Str) : Prop := ∃ d, n ∈ (derive S d f).sets
def DerivableDel (S : SProg) (f : Key) (n : Str) : Prop := ∃ d, n ∈ (derive S d f).dels

/-- The resolvable call graph has no cycle. -/
def Acyclic (P : Prog) : Prop :=
  ∃ rank : Key → Nat, ∀ f c g, c ∈ (Results.fnAt P f).calls → P.resolve c.cid = some g → rank g < rank f

end Rattr.Spec

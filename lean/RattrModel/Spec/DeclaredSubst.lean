/-
  RattrModel.Spec.DeclaredSubst — "callers inline those declared accesses … with normal argument substitution",
  stated on the SPELLINGS written in the annotation, independently of `unbind_name`'s prefix surgery:

  a declared name is `[*]root(.attr | [] | ())*`; substituting means replacing `root` by the argument bound to
  the parameter `root` — for all declared names at once, each name looked at exactly once (Python binds all
  parameters of a call simultaneously).  Validated in the harness against a real CPython call.
-/
import RattrModel.Spec.Honoured

namespace Rattr.Spec.Honoured
open Rattr Rattr.Ann

def declaredStrs : Option PyVal → List Str
  | some (.set xs) => strs xs
  | _ => []

/-- a character of the root VARIABLE of a spelling: the root ends at the first `.`, `[` or `(` -/
def rootChar (c : Char) : Bool := c != '.' && c != '[' && c != '('

/-- the spelling `s` with its root variable replaced by `r`: an optional leading `*` is kept, everything from
the first `.`, `[]` or `()` on is kept (`a[].x` under `a ↦ p` is `p[].x`, as for an access written in a body) -/
def substSpelling (s r : Str) : Str :=
  match s with
  | '*' :: t => '*' :: (r ++ t.dropWhile rootChar)
  | _ => r ++ s.dropWhile rootChar

/-- the root variable of a declared spelling (what a parameter name is compared with) -/
def rootOf (s : Str) : Str :=
  match s with
  | '*' :: t => t.takeWhile rootChar
  | _ => s.takeWhile rootChar

/-- the first dotted segment of the spelling is a bare variable: no `[]` / `()` directly on the root. Where this
fails (`"a[]"`, `"f().x"`) the pinned `as_name` takes `a[]` / `f()` for the basename, which is no parameter's
name: the declared name is NOT substituted in callers (`C11_cex_subscripted_root`). -/
def plainRoot (s : Str) : Bool := (specBase s).all fun c => c != '[' && c != '('

def plainRoots (kv : KwVals) : Bool :=
  (declaredStrs (given kv kGets)).all plainRoot && (declaredStrs (given kv kSets)).all plainRoot
    && (declaredStrs (given kv kDels)).all plainRoot

/-- a binding: parameter ↦ argument, identity where the call binds nothing -/
def applyBinding (b : List (Str × Str)) (p : Str) : Str := (Dict.get? b p).getD p

/-- one declared spelling under a binding -/
def substName (b : List (Str × Str)) (s : Str) : NameS :=
  let r := applyBinding b (rootOf s)
  { full := substSpelling s r, base := r }

/-- the declared gets / sets / dels of a well-formed annotation under a binding, all names at once -/
def substDeclared (b : List (Str × Str)) (kv : KwVals) : IrSets :=
  { gets := (declaredStrs (given kv kGets)).map (substName b),
    sets := (declaredStrs (given kv kSets)).map (substName b),
    dels := (declaredStrs (given kv kDels)).map (substName b) }

/-- the NAIVE reading the property excludes: apply the bindings one after the other (a name renamed to an
argument is renamed again if that argument is spelled like a later parameter). Only used to state that the
two readings differ (`C11_simultaneous_ne_sequential`). -/
def substSequential : List (Str × Str) → List Str → List Str
  | [], ss => ss
  | (p, a) :: r, ss => substSequential r (ss.map fun s => if rootOf s = p then substSpelling s a else s)

end Rattr.Spec.Honoured

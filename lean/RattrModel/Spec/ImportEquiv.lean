/-
  RattrModel.Spec.ImportEquiv — what C06 demands, written against Python's import semantics and not
  against rattr's algorithm.

  A project is a list of modules; a module is a list of top-level declarations (definitions and
  import statements, in source order).  Python binds names as follows (language reference §7.11,
  §5.7; the harness validates this evaluator against CPython itself by importing every generated
  project and reading `__module__` / `__qualname__` of each spelled callee):

    * `def k` / `class k` in module `M` binds `k` to the object `M.k`;
    * `import a.b.c` binds `a` to the module object `a`; `import a.b.c as n` binds `n` to `a.b.c`;
    * `from X import k [as g]` binds `g` to `getattr(X, k)`; if `X` has no such attribute and `X.k`
      is a module, to that module;
    * `from X import *` binds every public name of `X` (no `__all__` here), whatever way `X` got it —
      star chains included;
    * the module a dotted name denotes is the FILE Python's path finder picks: a package
      `X/__init__.py` shadows `X.py`;
    * relative forms first become absolute (`importlib.util.resolve_name`);
    * a later binding of the same name replaces an earlier one;
    * attribute access on a module object: its globals, else an imported submodule of that name
      (importing `a.b` sets attribute `b` on module `a`). [interp] "imported" is over-approximated by
      "is a module of the project that some import statement of the project names": the harness only
      generates projects where this coincides with CPython.

  `expected` = the object the spelled callee denotes in the target module.  C06 demands that rattr
  resolves the call to exactly that definition (and, for a class, that the call record carries the
  constructed instance as first argument like the local one does).
-/
import RattrModel.Resolve

namespace Rattr.Spec.ImportEquiv
open Rattr Rattr.Strs Rattr.Resolve

inductive Decl where
  /-- `def k` / `class k` (a static method `H.sm` is reached through the class `H`: `members`) -/
  | def_ (k : Str) (isClass : Bool) (members : List Str)
  | imp (s : ImportStmt)
  deriving DecidableEq, Repr

structure PyModule where
  name : Str
  isPkg : Bool          -- the file is `<name>/__init__.py`
  decls : List Decl
  deriving DecidableEq, Repr

abbrev Project := List PyModule

inductive PyVal where
  /-- the function / class object defined as `k` in module `mod`; `isClass`, `members` as declared -/
  | obj (mod k : Str) (isClass : Bool) (members : List Str)
  /-- attribute `a` of the class object (`mod`, `k`): a static method -/
  | member (mod k a : Str)
  | module (m : Str)
  deriving DecidableEq, Repr

/-- The file Python's path finder picks for the dotted name `m`: inside one path entry a regular
package `m/__init__.py` shadows a module file `m.py` of the same name (`importlib.machinery.FileFinder.
find_spec` tries the directory with an `__init__` before the module suffixes); a plain directory
without `__init__.py` is not a module of the project at all (a regular module beats a namespace
portion). A project may therefore list TWO files under one name. -/
def findModule (p : Project) (m : Str) : Option PyModule :=
  match p.find? (fun x => x.name = m && x.isPkg) with
  | some x => some x
  | none => p.find? (fun x => x.name = m)

/-- `importlib.util.resolve_name("." * level + module, package)` where `package` is the module's
`__package__`: the module itself for a package, its parent otherwise. -/
def pyAbs (m : PyModule) (level : Nat) (module : Option Str) : Str :=
  let parts := splitDot m.name
  let pkg := if m.isPkg then parts else parts.take (parts.length - 1)
  let base := pkg.take (pkg.length - (level - 1))
  joinDot (base ++ (match module with | none => [] | some t => splitDot t))

/-- names that `from X import *` would bind, syntactically: every name a declaration binds. -/
def boundNames : List Decl → List Str
  | [] => []
  | .def_ k _ _ :: r => k :: boundNames r
  | .imp (.plain m a) :: r => (a.getD ((splitDot m).head?.getD [])) :: boundNames r
  | .imp (.from_ _ n a) :: r => a.getD n :: boundNames r
  | .imp (.rel _ _ n a) :: r => a.getD n :: boundNames r
  | .imp (.star _) :: r => boundNames r          -- syntactic only (not used by `pyScan`)
  | .imp (.relStar _ _) :: r => boundNames r

def isPublic (n : Str) : Bool := !startsWith n ['_']

/-- scan the declarations latest-first for the one that binds `x`; `g` = the globals of the
project's modules (one import level further down). -/
def pyScan (p : Project) (g : Str → Str → Option PyVal) (m : PyModule) : List Decl → Str → Option PyVal
  | [], _ => none
  | d :: r, x =>
    let from' (abs n : Str) (a : Option Str) : Option PyVal :=
      if a.getD n = x then
        match g abs n with
        | some v => some v
        | none => if (findModule p (abs ++ '.' :: n)).isSome then some (.module (abs ++ '.' :: n)) else none
      else pyScan p g m r x
    -- `from X import *` (no `__all__`): every public global of the fully executed `X` — names `X` itself
    -- obtained through a star import included (star of star, star chains across package levels)
    let star (abs : Str) : Option PyVal :=
      if isPublic x then
        match g abs x with
        | some v => some v
        | none => pyScan p g m r x
      else pyScan p g m r x
    match d with
    | .def_ k c ms => if k = x then some (.obj m.name k c ms) else pyScan p g m r x
    | .imp (.plain mod none) =>
      let top := (splitDot mod).head?.getD []
      if top = x then some (.module top) else pyScan p g m r x
    | .imp (.plain mod (some a)) => if a = x then some (.module mod) else pyScan p g m r x
    | .imp (.from_ mod n a) => from' mod n a
    | .imp (.rel lvl mod n a) => from' (pyAbs m lvl mod) n a
    | .imp (.star mod) => star mod
    | .imp (.relStar lvl mod) => star (pyAbs m lvl mod)

/-- value of global `x` of module `mn` once the module is fully executed (last binding wins);
`fuel` bounds the depth of import chains followed. -/
def pyGlobal (p : Project) : Nat → Str → Str → Option PyVal
  | 0, _, _ => none
  | fuel + 1, mn, x =>
    match findModule p mn with
    | none => none
    | some m => pyScan p (pyGlobal p fuel) m m.decls.reverse x

/-- every module name some import statement of the project mentions (with its parents). -/
def mentioned (p : Project) : List Str :=
  p.flatMap fun m => m.decls.flatMap fun d =>
    match d with
    | .def_ .. => []
    | .imp (.plain mod _) => Context.namesRight mod
    | .imp (.from_ mod n _) => Context.namesRight (mod ++ '.' :: n)
    | .imp (.star mod) => Context.namesRight mod
    | .imp (.rel lvl mod n _) => Context.namesRight (pyAbs m lvl mod ++ '.' :: n)
    | .imp (.relStar lvl mod) => Context.namesRight (pyAbs m lvl mod)

/-- `getattr(v, a)` -/
def pyGetAttr (p : Project) (fuel : Nat) (v : PyVal) (a : Str) : Option PyVal :=
  match v with
  | .module m =>
    match pyGlobal p fuel m a with
    | some r => some r
    | none =>
      let sub := m ++ '.' :: a
      if (findModule p sub).isSome && (mentioned p).contains sub then some (.module sub) else none
  | .obj mod k true ms => if ms.contains a then some (.member mod k a) else none
  | _ => none

def pyGetAttrs (p : Project) (fuel : Nat) : PyVal → List Str → Option PyVal
  | v, [] => some v
  | v, a :: r => match pyGetAttr p fuel v a with
    | some v' => pyGetAttrs p fuel v' r
    | none => none

/-- The object a spelled callee (`f`, `m.f`, `p.m.H.sm`) denotes inside module `target`. -/
def expected (p : Project) (fuel : Nat) (target : Str) (spelled : Str) : Option PyVal :=
  match splitDot spelled with
  | [] => none
  | x :: attrs =>
    match pyGlobal p fuel target x with
    | some v => pyGetAttrs p fuel v attrs
    | none => none

/-- The definition rattr must reach for that object: (module, symbol name in that module's
context) — a static method is the context symbol `Cls.meth`. -/
def expectedDef : PyVal → Option (Str × Str)
  | .obj m k _ _ => some (m, k)
  | .member m k a => some (m, k ++ '.' :: a)
  | .module _ => none

/-- The positional arguments of the call record that the LOCAL version of the call has (what the
split version must equal): for a constructor call the constructed instance comes first. -/
def expectedArgs (v : PyVal) (assignedTo : Option Str) (args : List Str) : List Str :=
  match v with
  | .obj _ k true _ =>
    (match assignedTo with | some x => x | none => '@' :: k) :: args
  | _ => args

end Rattr.Spec.ImportEquiv

/-
  RattrModel.Spec.PyBind — Python's own rule for binding call-site arguments to parameters
  (the rule `inspect.Signature.bind` implements), written without reference to rattr's algorithm.
  Validated on every run against `inspect.Signature.bind` on real function objects (Tie B, C04).
-/
import RattrModel.Basic
import RattrModel.Swaps

namespace Rattr.Spec

structure Param (α : Type) where
  name : α
  hasDefault : Bool
  deriving Repr, DecidableEq

/-- A real Python signature: like `Iface` but each non-variadic parameter records whether it has
a default (rattr's `CallInterface` does not). -/
structure Sig (α : Type) where
  posonly : List (Param α)
  args    : List (Param α)
  vararg  : Option α
  kwonly  : List (Param α)
  kwarg   : Option α
  deriving Repr, DecidableEq

def Sig.iface {α : Type} (s : Sig α) : Iface α :=
  { posonly := s.posonly.map (·.name), args := s.args.map (·.name), vararg := s.vararg,
    kwonly := s.kwonly.map (·.name), kwarg := s.kwarg }

inductive BindErr where
  | tooManyPositional
  | multipleValues
  | unexpectedKeyword      -- includes a positional-only parameter passed by keyword (no **kwargs)
  | missingRequired
  deriving Repr, DecidableEq

/-- Result of an accepted binding: which named parameter received which argument spelling,
how many surplus positionals `*args` received and which surplus keywords `**kwargs` received. -/
structure Binding (α : Type) where
  explicit : List (α × α)
  varargGot : List α
  kwargGot  : List (α × α)
  deriving Repr, DecidableEq

variable {α : Type} [DecidableEq α]

/-- zip positional parameters with positional arguments; returns bound pairs, unfilled
parameters, surplus arguments. -/
def zipPos : List (Param α) → List α → List (α × α) × List (Param α) × List α
  | [], as => ([], [], as)
  | ps, [] => ([], ps, [])
  | p :: ps, a :: as =>
    let (b, u, s) := zipPos ps as
    ((p.name, a) :: b, u, s)

/-- Bind one keyword. State: explicit bindings so far, keyword-bindable parameters still unfilled,
names already filled positionally (positional-or-keyword only), surplus keywords so far. -/
structure KwSt (α : Type) where
  explicit : List (α × α)
  open_    : List (Param α)      -- unfilled positional-or-keyword and keyword-only parameters
  kwargGot : List (α × α)

def bindKw (filledPOK : List α) (hasKwarg : Bool)
    (st : KwSt α) (kv : α × α) : Except BindErr (KwSt α) :=
  if st.open_.any (·.name = kv.1) then
    .ok { st with explicit := st.explicit ++ [kv], open_ := st.open_.filter (·.name ≠ kv.1) }
  else if kv.1 ∈ filledPOK then .error .multipleValues
  else if hasKwarg then .ok { st with kwargGot := st.kwargGot ++ [kv] }
  else .error .unexpectedKeyword

def bindKws (filledPOK : List α) (hasKwarg : Bool) :
    KwSt α → List (α × α) → Except BindErr (KwSt α)
  | st, [] => .ok st
  | st, kv :: r =>
    match bindKw filledPOK hasKwarg st kv with
    | .error e => .error e
    | .ok st' => bindKws filledPOK hasKwarg st' r

/-- Python's binding of `f(*pos, **kws)` against signature `s`. -/
def pyBind (s : Sig α) (c : CallArgs α) : Except BindErr (Binding α) :=
  let (bpos, unfilled, surplus) := zipPos (s.posonly ++ s.args) c.args
  if surplus ≠ [] ∧ s.vararg.isNone then .error .tooManyPositional else
  -- positional-or-keyword parameters filled by position
  let nPosOnly := s.posonly.length
  let filledPOK := (bpos.drop nPosOnly).map Prod.fst
  -- unfilled positional-only parameters can never be given by keyword
  let nFilled := bpos.length
  let unfilledPosOnly := if nFilled < nPosOnly then unfilled.take (nPosOnly - nFilled) else []
  let unfilledPOK := if nFilled < nPosOnly then unfilled.drop (nPosOnly - nFilled) else unfilled
  match bindKws filledPOK s.kwarg.isSome
      { explicit := bpos, open_ := unfilledPOK ++ s.kwonly, kwargGot := [] } c.kwargs with
  | .error e => .error e
  | .ok st =>
    if (unfilledPosOnly ++ st.open_).any (fun p => !p.hasDefault) then .error .missingRequired
    else .ok { explicit := st.explicit, varargGot := surplus, kwargGot := st.kwargGot }

/-- What C04 demands of the substitution map for an accepted call (claimed reading: a variadic
parameter is mapped to its stand-in whenever it exists). -/
def expectedSwaps (si : StandIns α) (s : Sig α) (b : Binding α) : List (α × α) :=
  b.explicit ++ (s.vararg.toList.map (fun v => (v, si.tuple)))
             ++ (s.kwarg.toList.map (fun k => (k, si.dict)))

/-- The weaker reading actually met by the code for `**kwargs`: mapped only when it received
something. -/
def expectedSwapsLenient (si : StandIns α) (s : Sig α) (b : Binding α) : List (α × α) :=
  b.explicit ++ (s.vararg.toList.map (fun v => (v, si.tuple)))
             ++ (if b.kwargGot ≠ [] then s.kwarg.toList.map (fun k => (k, si.dict)) else [])

end Rattr.Spec

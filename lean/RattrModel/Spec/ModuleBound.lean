/-
  RattrModel.Spec.ModuleBound — Python's own rule for which names the `def` / `class` statements of
  a module bind in the MODULE's namespace: the statement itself at the top level, or nested in any
  compound statement whose blocks run in the module's scope (`if`, `for`, `while`, `with`, `try` with
  its handlers, `match` with its cases). Written over the model's `Top` tree without reference to what
  `RootContextBuilder` does. Validated on every run against CPython importing the generated modules
  (py/props/c17opts.py: `vars(module)`).
-/
import RattrModel.RootContext

namespace Rattr.Spec.ModuleBound
open Rattr

/-- compound statements (and their clause nodes) whose blocks execute in the enclosing scope -/
def pythonBlockKinds : List Str :=
  ["If", "For", "AsyncFor", "While", "With", "AsyncWith", "ExceptHandler", "Match", "match_case"].map String.toList

mutual
/-- the names bound by the `def` / `async def` / `class` statements that execute at module level -/
def defNames : Top → List Str
  | .funcDef name _ _ _ _ => [name]
  | .classDef name _ _ _ => [name]
  | .tryStmt b h o fb => defNamesL b ++ defNamesL h ++ defNamesL o ++ defNamesL fb
  | .compound kind kids => if pythonBlockKinds.contains kind then defNamesL kids else []
  | _ => []
def defNamesL : List Top → List Str
  | [] => []
  | t :: r => defNames t ++ defNamesL r
end

/-- clause nodes that may only occur where `ast.parse` puts them. Until /repo 6e8e4cc this list also held
`Match` / `match_case` (RootContextBuilder had no `visit_Match`: module-level `match` was outside `regular`). -/
def matchKinds : List Str := ["ExceptHandler"].map String.toList

mutual
/-- the shape `ast.parse` produces: `ExceptHandler` nodes exactly as the handlers of a `try` / `try … except*`
(module-level `match` statements are regular since 6e8e4cc). -/
def regular : Top → Bool
  | .tryStmt b h o fb => regularL b && regularH h && regularL o && regularL fb
  | .compound kind kids => !matchKinds.contains kind && regularL kids
  | _ => true
def regularL : List Top → Bool
  | [] => true
  | t :: r => regular t && regularL r
def regularH : List Top → Bool
  | [] => true
  | .compound _ kids :: r => regularL kids && regularH r
  | _ :: _ => false
end

end Rattr.Spec.ModuleBound

/-
  RattrModel.Spec.ResolveName — what C13 demands, written independently of the model's algorithm.

  (a) `pyResolveName` is the rule of `importlib.util.resolve_name` /
      `importlib._bootstrap._resolve_name(name, package, level)`:

        bits = package.rsplit('.', level - 1)
        if len(bits) < level: raise ImportError('attempted relative import beyond top-level package')
        base = bits[0]
        return f'{base}.{name}' if name else base

      preceded by `if not package: raise ImportError(... no known parent package)`.  `__package__`
      of an importing file: `pkg/__init__.py` (module `pkg`) ↦ `pkg`; `pkg/mod.py` (module
      `pkg.mod`) ↦ `pkg`; a top-level `mod.py` ↦ `""`.
      Validated on every run against the real `importlib.util.resolve_name`.

  (b) `longestPrefix ex q`: the longest non-empty prefix of `q` satisfying `ex`, found by walking
      `q` left to right (the model searches right to left over `take`s).

  (c) `existsOnPath` / `firstMatch`: what the file system says about a dotted name — a module file
      `a/b.py` or a package `a/b/__init__.py` below some root; first root wins, package before
      module inside one directory (CPython's `FileFinder` order).
-/
import RattrModel.Basic

namespace Rattr.Spec

inductive ResolveErr where
  | noParentPackage
  | beyondTopLevel
  deriving Repr, DecidableEq

/-- `__package__` as a component list (`[]` = the empty string). -/
def packageOf (modName : List Str) (isInit : Bool) : List Str :=
  if isInit then modName else modName.dropLast

/-- drop the last `n` components: `package.rsplit('.', n)[0]` when `n < len` -/
def dropLastN : Nat → List Str → List Str
  | 0, l => l
  | n + 1, l => dropLastN n l.dropLast

/-- `importlib.util.resolve_name("." * level + name, package)` for `level ≥ 1`; `name = none` is
the empty name (`from . import x`). -/
def pyResolveName (package : List Str) (level : Nat) (name : Option (List Str)) :
    Except ResolveErr (List Str) :=
  if package = [] then .error .noParentPackage
  else if package.length < level then .error .beyondTopLevel
  else
    let base := dropLastN (level - 1) package
    .ok (match name with
         | none => base
         | some n => base ++ n)

/-- Longest non-empty prefix of `pre ++ rest` extending `pre` (strictly) that satisfies `ex`. -/
def longestPrefixAux (ex : List Str → Bool) : List Str → List Str → Option (List Str)
  | _, [] => none
  | pre, c :: rest =>
    match longestPrefixAux ex (pre ++ [c]) rest with
    | some r => some r
    | none => if ex (pre ++ [c]) then some (pre ++ [c]) else none

def longestPrefix (ex : List Str → Bool) (q : List Str) : Option (List Str) :=
  longestPrefixAux ex [] q

/-! #### the file system's own view of a dotted name -/

def modFile (name : List Str) : List Str :=
  match name.reverse with
  | [] => []
  | last :: r => (( last ++ ".py".toList) :: r).reverse

def pkgFile (name : List Str) : List Str := name ++ ["__init__.py".toList]

/-- first file in one root that is the module/package `name` (package first) -/
def matchInRoot (files : List (List Str)) (name : List Str) : Option (List Str) :=
  if files.contains (pkgFile name) then some (pkgFile name)
  else if files.contains (modFile name) then some (modFile name)
  else none

def firstMatchFrom (i : Nat) : List (List (List Str)) → List Str → Option (Nat × List Str)
  | [], _ => none
  | files :: rest, name =>
    match matchInRoot files name with
    | some p => some (i, p)
    | none => firstMatchFrom (i + 1) rest name

/-- `(root index, file)` Python's path finder would pick for `name` -/
def firstMatch (fs : List (List (List Str))) (name : List Str) : Option (Nat × List Str) :=
  if name = [] ∨ [] ∈ name then none else firstMatchFrom 0 fs name

def existsOnPath (fs : List (List (List Str))) (name : List Str) : Bool := (firstMatch fs name).isSome

end Rattr.Spec

/-
  RattrModel.CrashFile — C07 for the whole single-file pipeline: the decidable predicate
  `NoCrashShapeFile` on a module (`List Top` + the per-case facts + plugin table + module name) under
  which the models of stages S2 (`RootCtx.compile`), S4 (`FileA.analyseWith` / `analyseFile`) and the
  front of `Pipeline.run` never end in a crash outcome (`RattrProofs/Props/C07.lean`,
  `C07_file_no_crash_partial`).

  The crash outcomes of those models, and the clause that excludes each:

  stage S2 (`RootCtx`)
    * `ValueError`      `gen_import_from_stmt` on `from a.b import *` outside `__init__.py` (K1)  — `importFromOk`
    * `AssertionError`  `assert module_name == confirmed_module_name` of a relative import (K8)   — `importFromOk`
    * `Rattr…InNameable` / `TypeError`  `unravel_names` / `names_of(safe=False)` on a module-level
                        target such as `(a + b).c = 1`, `del (a + b).c` (K4)                       — `assignVOk`, `registerOk`
    * `AttributeError` / `TypeError` / `IndexError`  the "unreachable" arms of the lambda /
                        namedtuple / walrus branches (an assignment without a target)             — `headStrict`
  stage S4 (`FileA`)
    * `TypeError`       `get_attrname` on a decorator that is no Name / Attribute / Call (K2)      — `funcDefOk`, `classOk`, `methodOk`
    * `AttributeError`  `.items()` on a list in a `rattr_results` call spec (K7);
      `TypeError`       unhashable value while evaluating a `rattr_results` argument               — `annOk (parseAnnotated …)`
    * `customOnDef`     a module-level `def` whose qualified name has a custom analyser            — `noCustomOnDef`
    * `ValueError`      `ClassAnalyser.symbol`: the class name is not bound to a class (K11)       — `classesBound`
    * `NotImplementedError`  several new FileIr keys below one walrus                              — unreachable (`anyAssign_lambda_ir`)
    * `RuntimeError` / `IndexError`  "unreachable" arms of `visit_LambdaAssign` / `visit_NamedTupleAssign` — `headStrict`
    * naming exceptions (K4 / K5) in `visit_LambdaAssign`, `visit_NamedTupleAssign`, the class-body
      walk (`classRegister`), `baseNames`                                                          — `anyAssignOk`, `classWalkOk`, `classBodyOk`
    * every crash of the function analyser (K3, K4, K5, K22, …)                                    — `NoCrashShapeFn` on each analysed body
  `Pipeline.run`
    * `Outside:starred-import`  (`expand_starred_imports` reads other files: outside the model)    — `noStarTop`
    * result generation: `ValueError` (`unbind_name`, K22), `ImportError` (K9 / K10), `NoImportFact`
      (a fact the harness forgot) are NOT excluded: the theorem names them as the only crash
      outcomes left (see Props/C07.lean).

  `classesBound` is evaluated on the context `RootCtx.compile` produces (decidable: the model is
  executable): K11 is a property of name resolution ("the class name resolves to a class"), not of
  the shape of one statement — `def C(): …` followed by `class C:` with an `__init__`, a class named
  like a builtin, a class inside a `match` case (which the root-context builder does not enter).
-/
import RattrModel.Crash
import RattrModel.Pipeline

namespace Rattr.Crash
open Rattr Rattr.FnA Rattr.RootCtx Rattr.Strs

/-! ## stage S2: the root-context builder -/

/-- the first target exists and `names_of(target, safe=False)` does not raise on it. -/
def headStrict (targets : List Node) : Bool :=
  match targets with
  | t :: _ => nameOk false t
  | [] => false

/-- … and the name it gets does not end in `*` (no Python name does; the model's strings are arbitrary). -/
def headClean (targets : List Node) : Bool :=
  match targets with
  | t :: _ =>
    (match namesOf false t with
     | .ok _ full => full.getLast? != some '*'
     | .fatal _ => true
     | .crash _ => false)
  | [] => false

/-- `visit_LambdaAssign` / `visit_NamedTupleAssign` (both builders): a one-to-one assignment names its
first target strictly. -/
def branchOk (targets : List Node) (value : Node) : Bool := !oneToOne targets value || headStrict targets

mutual
/-- `RootContextBuilder.visit_assignment(node)` does not raise. -/
def assignVOk (targets : List Node) : Node → Bool
  | .walrus t v => assignVOk [t] v && (!lambdaInRhs v || headClean targets) && targets.all unravelOk
  | .seq k elts c =>
    if lambdaInRhs (.seq k elts c) || namedtupleInRhs (.seq k elts c) then branchOk targets (.seq k elts c)
    else (!isTupleOrList (.seq k elts c) || walrusEltsOk elts) && targets.all unravelOk
  | value =>
    if lambdaInRhs value || namedtupleInRhs value then branchOk targets value else targets.all unravelOk
def walrusEltsOk : List Node → Bool
  | [] => true
  | .walrus t v :: r => assignVOk [t] v && walrusEltsOk r
  | _ :: r => walrusEltsOk r
end

/-- an import symbol that keeps the context sane and free of starred imports: not qualified as a
getattr-family name, local name not ending in `*`. -/
def aliasOk (a : Alias) : Bool :=
  !xattrBuiltins.contains a.name && (aliasLocal a).getLast? != some '*'

def fromAliasOk (a : Alias) : Bool := (aliasLocal a).getLast? != some '*'

/-- `visit_ImportFrom`: K1 (`ValueError` while building the "do not use `from … import *`" text), K8 (the
`assert`); no starred import at all (`Pipeline.run` leaves it outside the model). -/
def importFromOk (aliases : List Alias) (level : Nat) (confirmedOk : Bool) : Bool :=
  !isStarred aliases && (level == 0 || confirmedOk) && aliases.all fromAliasOk

mutual
def registerOk : Top → Bool
  | .importStmt aliases => aliases.all aliasOk
  | .importFrom _ lvl aliases _ _ co => importFromOk aliases lvl co
  | .assign targets _ value =>
    (match value with
     | none => targets.all unravelOk
     | some v => assignVOk targets v)
  | .delete targets => targets.all unravelFullOk
  | .tryStmt b h o fb => registerLOk b && registerLOk o && registerLOk fb && handlersOk h
  | .compound kind kids => !blockKinds.contains kind || registerLOk kids
  | _ => true
def registerLOk : List Top → Bool
  | [] => true
  | t :: r => registerOk t && registerLOk r
def handlersOk : List Top → Bool
  | [] => true
  | .compound _ kids :: r => registerLOk kids && handlersOk r
  | _ :: r => handlersOk r
end

/-! ## stage S4: the file / class analysers -/

def annOk {α : Type} : Ann.Outcome α → Bool
  | .crash _ => false
  | _ => true

/-- `plugins.has_analyser(fn, modulename)` is false for every module-level `def`: no custom analyser
is registered under a name of this module. -/
def noCustomOnDef (analysers : List Str) (mn : Str) : Bool :=
  analysers.all fun q => !startsWith q (mn ++ ['.'])

/-- `FileAnalyser.visit_AnyFunctionDef`, decision by decision. -/
def funcDefOk (f : Facts) (name : Str) (body : List Node) (decos : List Ann.Deco) : Bool :=
  match Ann.hasAnnotation Ann.nIgnore decos with
  | .crash _ => false
  | .fatal _ => true
  | .ok true => true
  | .ok false =>
    FileA.excluded f name ||
    (match Ann.hasAnnotation Ann.nResults decos with
     | .crash _ => false
     | .fatal _ => true
     | .ok true => annOk (Ann.parseAnnotated decos)
     | .ok false => NoCrashShapeFn body)

/-- `visit_LambdaAssign`: the named lambda's body is analysed as a function. -/
def lambdaAssignOk (targets : List Node) (value : Node) : Bool :=
  !lambdaInRhs value || !oneToOne targets value ||
  (headStrict targets && (match value with | .lam _ body => NoCrashShapeFn [body] | _ => true))

def ntAssignOk (targets : List Node) (value : Node) : Bool :=
  !namedtupleInRhs value || !oneToOne targets value || headStrict targets

mutual
/-- `FileAnalyser.visit_AnyAssign(node)` does not raise. (The `NotImplementedError` arm behind a walrus is
unreachable: a lambda on the right of a walrus adds at most one FileIr key, `anyAssign_lambda_ir`.) -/
def anyAssignOk (targets : List Node) : Node → Bool
  | .walrus t v => anyAssignOk [t] v && (!lambdaInRhs v || headStrict targets)
  | .seq k elts c =>
    lambdaAssignOk targets (.seq k elts c) && ntAssignOk targets (.seq k elts c) &&
    (!isTupleOrList (.seq k elts c) || walrusEltsFOk elts)
  | value => lambdaAssignOk targets value && ntAssignOk targets value
def walrusEltsFOk : List Node → Bool
  | [] => true
  | .walrus t v :: r => anyAssignOk [t] v && walrusEltsFOk r
  | _ :: r => walrusEltsFOk r
end

/-- what `FileAnalyser` does on meeting one node with a dedicated visitor below a statement. -/
def fileEventOk : Node → Bool
  | .walrus t v => anyAssignOk [t] v
  | .assign ts v => anyAssignOk ts v
  | .annAssign t _ (v :: _) => anyAssignOk [t] v
  | .augAssign t v => anyAssignOk [t] v
  | _ => true

/-- `ClassAnalyser.visit_AnyAssign`: `unravel_names` on the targets. -/
def classEventOk : Node → Bool
  | .walrus t _ => unravelOk t
  | .assign ts _ => ts.all unravelOk
  | .annAssign t _ _ => unravelOk t
  | .augAssign t _ => unravelOk t
  | _ => true

mutual
def classWalkOk : Top → Bool
  | .assign targets extra value =>
    targets.all unravelOk && (FileA.eventsL false (targets ++ extra ++ value.toList)).all classEventOk
  | .exprStmt v => (FileA.events false v).all classEventOk
  | .expr n => (FileA.events false n).all classEventOk
  | .delete targets => (FileA.eventsL false targets).all classEventOk
  | .funcDef _ _ body _ _ => (FileA.eventsL false body).all classEventOk
  | .classDef _ bases body _ => (FileA.eventsL false bases).all classEventOk && classWalkLOk body
  | .tryStmt b h o fb => classWalkLOk b && classWalkLOk h && classWalkLOk o && classWalkLOk fb
  | .compound _ kids => classWalkLOk kids
  | .importStmt _ => true
  | .importFrom .. => true
def classWalkLOk : List Top → Bool
  | [] => true
  | t :: r => classWalkOk t && classWalkLOk r
end

/-- `visit_static_method`: only a `@staticmethod` is analysed. -/
def methodOk (m : FileA.Method) : Bool :=
  match Ann.hasAnnotation Ann.nStatic m.decos with
  | .crash _ => false
  | .ok true => NoCrashShapeFn m.body
  | _ => true

/-- `visit_initialiser` (the class's own decorators decide, as for a function). -/
def initOk (decos : List Ann.Deco) (i : FileA.Method) : Bool :=
  i.isAsync ||
  (match Ann.hasAnnotation Ann.nResults decos with
   | .crash _ => false
   | .fatal _ => true
   | .ok true => annOk (Ann.parseAnnotated decos)
   | .ok false => NoCrashShapeFn i.body)

def classBodyOk (bases : List Node) (body : List Top) (decos : List Ann.Deco) : Bool :=
  classWalkLOk (body.filter fun t => !FileA.isMethod t) &&
  (match (FileA.methodsOf body).filter (fun m => m.name = "__init__".toList) with
   | [] => bases.all (nameOk true)
   | i :: _ => initOk decos i) &&
  (FileA.methodsOf body).all methodOk

/-- `FileAnalyser.visit_ClassDef`. -/
def classOk (f : Facts) (name : Str) (bases : List Node) (body : List Top) (decos : List Ann.Deco) : Bool :=
  match Ann.hasAnnotation Ann.nIgnore decos with
  | .crash _ => false
  | .fatal _ => true
  | .ok true => true
  | .ok false => FileA.excluded f name || classBodyOk bases body decos

mutual
def visitTopOk (f : Facts) : Top → Bool
  | .funcDef name _ body decos _ => funcDefOk f name body decos
  | .classDef name bases body decos => classOk f name bases body decos
  | .assign targets _ value =>
    (match value with
     | none => true
     | some v => anyAssignOk targets v)
  | .exprStmt v => (FileA.events true v).all fileEventOk
  | .expr n => (FileA.events true n).all fileEventOk
  | .delete targets => (FileA.eventsL true targets).all fileEventOk
  | .importStmt _ => true
  | .importFrom .. => true
  | .tryStmt b h o fb => visitTopsOk f b && visitTopsOk f h && visitTopsOk f o && visitTopsOk f fb
  | .compound _ kids => visitTopsOk f kids
def visitTopsOk (f : Facts) : List Top → Bool
  | [] => true
  | t :: r => visitTopOk f t && visitTopsOk f r
end

/-! ## K11: the classes the file analyser analyses resolve to classes -/

/-- `ClassAnalyser.symbol` is asked for: the class has an `__init__`, or a base spelled `…Enum` /
`…NamedTuple`. -/
def needsSymbol (bases : List Node) (body : List Top) : Bool :=
  !((FileA.methodsOf body).filter (fun m => m.name = "__init__".toList)).isEmpty ||
  (let bn := bases.filterMap fun b => match namesOf true b with | .ok _ full => some full | _ => none
   FileA.heuristic "Enum" bn || FileA.heuristic "NamedTuple" bn)

/-- `visit_ClassDef` returns before the class is analysed: `@rattr_ignore`d or excluded by name. -/
def classSkipped (f : Facts) (name : Str) (decos : List Ann.Deco) : Bool :=
  (match Ann.hasAnnotation Ann.nIgnore decos with
   | .ok true => true
   | _ => false) || FileA.excluded f name

mutual
def classesBound (f : Facts) (c : Context) : Top → Bool
  | .classDef name bases body decos =>
    classSkipped f name decos || !needsSymbol bases body || (FileA.getClass c name).isSome
  | .tryStmt b h o fb =>
    classesBoundL f c b && classesBoundL f c h && classesBoundL f c o && classesBoundL f c fb
  | .compound _ kids => classesBoundL f c kids
  | _ => true
def classesBoundL (f : Facts) (c : Context) : List Top → Bool
  | [] => true
  | t :: r => classesBound f c t && classesBoundL f c r
end

/-! ## the predicate -/

/-- the shape part for `FileA.analyseWith` started in a given context. -/
def fileShapeOk (analysers : List Str) (mn : Str) (f : Facts) (body : List Top) : Bool :=
  noCustomOnDef analysers mn && visitTopsOk f body

/-- **The shape predicate for a module.** `analysers` = the plugin table (`Env.analysers`), `mn` = the
module's name, `f` = the per-case facts, `builtins` = `PYTHON_BUILTINS`. -/
def NoCrashShapeFile (analysers : List Str) (mn : Str) (f : Facts) (builtins : List Str) (body : List Top) : Bool :=
  registerLOk body && fileShapeOk analysers mn f body &&
  (match RootCtx.compile f builtins body with
   | .ok r => classesBoundL f r.ctx body
   | _ => true)

/-! ## result generation (stage S6): a condition on the FileIr the front stages produce -/

/-- `unbind_name(name, new_basename)` finds its prefix, or is never asked to look (a basename starting with `*`
is no parameter name). False exactly on the K22 names (`getattr(q, 'x').m`: basename `getattr`, full name `q.x.m`). -/
def nameWF (n : NameS) : Bool :=
  n.base.head? == some '*' ||
  (if n.full.head? = some '*' then ('*' :: n.base).isPrefixOf n.full else n.base.isPrefixOf n.full)

def irNamesWF (ir : IR) : Bool := ir.gets.all nameWF && ir.sets.all nameWF && ir.dels.all nameWF

/-- no parameter name starts with `*` (none does in Python; the model's names are arbitrary strings). -/
def ifaceClean (i : Iface Str) : Bool := i.all.all fun p => p.head? != some '*'

/-- `resolve_import` does not raise on this call: its target, if an import, has a module that is found (K9 / K10
otherwise) — and the harness supplied that fact. -/
def callImportOk (imp : Pipeline.ImpFacts) (c : CallSym) : Bool :=
  match c.target with
  | some t =>
    t.kind != .import_ ||
    (match Dict.get? imp t.qual with
     | some fact => fact.found
     | none => false)
  | none => true

/-- **The condition on a FileIr** under which result generation ends with a document
(`C07_results_no_crash_partial`). -/
def ResultsSafe (imp : Pipeline.ImpFacts) (fir : Pipeline.FileIr) : Bool :=
  fir.all fun p =>
    irNamesWF p.2 && ifaceClean (p.1.iface.getD Pipeline.emptyIface) && p.2.calls.all (callImportOk imp)

/-- **The predicate for the whole pipeline**: `NoCrashShapeFile`, and the FileIr the model of the front stages
computes for the module satisfies `ResultsSafe` (decidable: the model is executable; the front stages are
crash-free by `C07_file_no_crash_partial`, so this asks nothing circular of result generation). -/
def NoCrashShapePipeline (env : Env) (mn : Str) (f : Facts) (builtins : List Str) (body : List Top)
    (imp : Pipeline.ImpFacts) : Bool :=
  NoCrashShapeFile env.analysers mn f builtins body &&
  (match FileA.analyseFile env mn f builtins body with
   | .ok (fir, _) => ResultsSafe imp fir
   | _ => true)

/-- the crash outcomes result generation can still end in (none of the front stages can):
`unbind_name`'s `ValueError("never")` (K22), `resolve_import`'s `ImportError` (K9 / K10), and the
marker of a missing per-case fact. -/
def resultsCrashes : List Str := ["ValueError".toList, "ImportError".toList, "NoImportFact".toList]

end Rattr.Crash

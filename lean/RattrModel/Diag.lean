/-
  RattrModel.Diag — stage S7: diagnostics, badness buckets, verbosity filter, strict promotion,
  the threshold gate of `main`, and the path renderer.

  Code modelled (rattr/error/error.py, rattr/config/_types.py, rattr/__main__.py):

    info / warning : increment_badness(badness)            -- BEFORE the filter
                     if do_not_show_warnings: return       -- show_warnings == ShowWarnings(0)
                     flag := target?  (low/high priority)  -- by `is_in_target_file`
                     if flag not in show_warnings: return
                     __log(level)
    error          : increment_badness(badness)
                     if badness > 0 and is_strict: fatal(message, culprit)   -- logs "fatal", exits
                     __log(error)
    fatal          : increment_badness(badness); __log(fatal); sys.exit(1)
    main           : ... analysis, simplification ...
                     if not is_within_badness_threshold: fatal("exceeded allowed badness")
                     print selected output; return 0

  A run is a list of `Event`s in emission order (what the analysis would emit if nothing exited);
  `run` processes them until the first exit and then applies the gate.
-/
import RattrModel.Basic

namespace Rattr.Diag

inductive Level | info | warning | error | fatal
  deriving DecidableEq, Repr, Inhabited

/-- Where a diagnostic arose, as `increment_badness` sees it: `state.current_file` is the target,
another file, or `None` (result simplification, and the gate in `main`). -/
inductive Where | target | import_ | none
  deriving DecidableEq, Repr, Inhabited

inductive WarnLevel | none | local_ | default | all
  deriving DecidableEq, Repr, Inhabited

/-- `ShowWarnings` flags. -/
inductive Flag | target | targetLow | inheritedHigh | inheritedLow
  deriving DecidableEq, Repr

structure Event where
  level : Level
  badness : Nat
  loc : Where
  deriving DecidableEq, Repr

structure Cfg where
  strict : Bool
  threshold : Nat
  warnLevel : WarnLevel
  collapseHome : Bool
  truncateDeep : Bool
  deriving DecidableEq, Repr

/-- `State`: the three badness buckets. -/
structure State where
  target : Nat
  imports : Nat
  simpl : Nat
  deriving DecidableEq, Repr

def State.init : State := ⟨0, 0, 0⟩

/-- `State.badness`: imports do not count. -/
def State.badness (s : State) : Nat := s.target + s.simpl

/-- `State.full_badness`. -/
def State.full (s : State) : Nat := s.target + s.imports + s.simpl

/-- A line printed on stderr: the level prefix it carries and where it arose. -/
structure Line where
  level : Level
  loc : Where
  deriving DecidableEq, Repr

/-! ### The warning-level table (`Arguments.show_warnings`) -/

def WarnLevel.flags : WarnLevel → List Flag
  | .none => []
  | .local_ => [.target]
  | .default => [.target, .inheritedHigh]
  | .all => [.target, .targetLow, .inheritedHigh, .inheritedLow]

def WarnLevel.rank : WarnLevel → Nat
  | .none => 0 | .local_ => 1 | .default => 2 | .all => 3

def WarnLevel.name : WarnLevel → String
  | .none => "none" | .local_ => "local" | .default => "default" | .all => "all"

def WarnLevel.every : List WarnLevel := [.none, .local_, .default, .all]

def Flag.name : Flag → String
  | .target => "target" | .targetLow => "target_low_priority"
  | .inheritedHigh => "inherited_high_priority" | .inheritedLow => "inherited_low_priority"

def Flag.every : List Flag := [.target, .targetLow, .inheritedHigh, .inheritedLow]

/-- The model's table in the shape of the regenerated one (Tie A compares them). -/
def showWarningsTable : List (String × List String) :=
  WarnLevel.every.map fun w => (w.name, w.flags.map Flag.name)

/-! ### `Config.increment_badness` -/

def bump (s : State) (l : Where) (b : Nat) : State :=
  match l with
  | .none => { s with simpl := s.simpl + b }        -- `not state.is_in_any_file`
  | .target => { s with target := s.target + b }    -- `is_in_target_file`
  | .import_ => { s with imports := s.imports + b }

/-- `Config.do_not_show_warnings`. -/
def doNotShow (cfg : Cfg) : Bool := cfg.warnLevel.flags.isEmpty

/-- Outcome of one diagnostic call. -/
structure Out where
  state : State
  printed : List Line
  exited : Bool
  deriving DecidableEq, Repr

/-- `error.fatal(message, culprit, badness)`. -/
def fatal (s : State) (l : Where) (b : Nat) : Out :=
  let s := bump s l b
  ⟨s, [⟨.fatal, l⟩], true⟩

/-- `error.info`. -/
def info (cfg : Cfg) (s : State) (l : Where) (b : Nat) : Out :=
  let s := bump s l b
  if doNotShow cfg then ⟨s, [], false⟩
  else
    let flag := if l = .target then Flag.targetLow else Flag.inheritedLow
    if !cfg.warnLevel.flags.contains flag then ⟨s, [], false⟩
    else ⟨s, [⟨.info, l⟩], false⟩

/-- `error.warning`. -/
def warning (cfg : Cfg) (s : State) (l : Where) (b : Nat) : Out :=
  let s := bump s l b
  if doNotShow cfg then ⟨s, [], false⟩
  else
    let flag := if l = .target then Flag.target else Flag.inheritedHigh
    if !cfg.warnLevel.flags.contains flag then ⟨s, [], false⟩
    else ⟨s, [⟨.warning, l⟩], false⟩

/-- `error.error`: under strict mode a weighted error turns into `fatal(message, culprit)` (default
badness 0) after its own badness has been counted. -/
def error (cfg : Cfg) (s : State) (l : Where) (b : Nat) : Out :=
  let s := bump s l b
  if b > 0 && cfg.strict then fatal s l 0
  else ⟨s, [⟨.error, l⟩], false⟩

def emit (cfg : Cfg) (s : State) (e : Event) : Out :=
  match e.level with
  | .info => info cfg s e.loc e.badness
  | .warning => warning cfg s e.loc e.badness
  | .error => error cfg s e.loc e.badness
  | .fatal => fatal s e.loc e.badness

/-- Is a line of this level, arising here, printed at this warning level? (errors and fatals are
never filtered). -/
def shown (w : WarnLevel) (l : Where) : Level → Bool
  | .error | .fatal => true
  | .info =>
    if w.flags.isEmpty then false
    else w.flags.contains (if l = .target then Flag.targetLow else Flag.inheritedLow)
  | .warning =>
    if w.flags.isEmpty then false
    else w.flags.contains (if l = .target then Flag.target else Flag.inheritedHigh)

/-- Process events until the first exit. -/
def runEvents (cfg : Cfg) : State → List Event → Out
  | s, [] => ⟨s, [], false⟩
  | s, e :: es =>
    let o := emit cfg s e
    if o.exited then o
    else
      let r := runEvents cfg o.state es
      ⟨r.state, o.printed ++ r.printed, r.exited⟩

/-- `Config.is_within_badness_threshold`. -/
def withinThreshold (cfg : Cfg) (s : State) : Bool :=
  if cfg.strict then decide (s.badness ≤ 0)
  else if cfg.threshold = 0 then true       -- a threshold of zero is equivalent to infinite
  else decide (s.badness ≤ cfg.threshold)

structure Result where
  state : State
  printed : List Line
  exit : Nat
  /-- the selected output is printed on stdout (reached the end of `main`) -/
  output : Bool
  deriving DecidableEq, Repr

/-- A whole run of `main`: the events of analysis + simplification, then the gate, then output. -/
def run (cfg : Cfg) (evs : List Event) : Result :=
  let o := runEvents cfg State.init evs
  if o.exited then ⟨o.state, o.printed, 1, false⟩
  else if withinThreshold cfg o.state then ⟨o.state, o.printed, 0, true⟩
  else
    -- error.fatal("exceeded allowed badness ...") with `current_file = None`
    let f := fatal o.state .none 0
    ⟨f.state, o.printed ++ f.printed, 1, false⟩

/-! ### `Config.get_formatted_path`

Paths are lists of components; an absolute path has `abs = true` (its `parts` start with "/").
Fragment: the home directory, as a string, occurs in the path only as a whole-component prefix
(the code uses `str.replace(home, "")`, which would also delete later / partial occurrences). -/

structure Path where
  abs : Bool
  comps : List String
  deriving DecidableEq, Repr

def Path.parts (p : Path) : List String := (if p.abs then ["/"] else []) ++ p.comps

/-- `xs` starts with `pre`; returns the rest. -/
def stripPrefix : List String → List String → Option (List String)
  | [], xs => some xs
  | _ :: _, [] => none
  | a :: pre, x :: xs => if a = x then stripPrefix pre xs else none

/-- `path.is_relative_to(base)` / `relative_to` for an absolute base (both absolute). -/
def relativeTo (p base : Path) : Option Path :=
  if p.abs = base.abs then (stripPrefix base.comps p.comps).map (⟨false, ·⟩) else none

def lastN (n : Nat) (xs : List String) : List String := xs.drop (xs.length - n)

def render (collapseHome truncateDeep : Bool) (root home : Path) (p : Path) : Path :=
  let p := match relativeTo p root with
    | some r => r
    | none => p
  let p :=
    if collapseHome then
      match relativeTo p home with
      | some r => ⟨false, "~" :: r.comps⟩
      | none => p
    else p
  if truncateDeep && p.parts.length > 5 then
    match p.parts with
    | [] => p
    | first :: _ =>
      -- Path(parts[0]) / "..." / parts[-3] / parts[-2] / parts[-1]
      if first = "/" then ⟨true, "..." :: lastN 3 p.parts⟩
      else ⟨false, first :: "..." :: lastN 3 p.parts⟩
  else p

/-- `Path.as_posix()`. -/
def Path.posix (p : Path) : String :=
  if p.abs then "/" ++ "/".intercalate p.comps
  else if p.comps.isEmpty then "." else "/".intercalate p.comps

end Rattr.Diag

/-
  RattrModel.Project — the pipeline over a PROJECT: the target file plus the local modules rattr
  follows (`python -m rattr -o results --follow-imports 1 file.py`).

      rattr/__main__.py::main
        parse_and_analyse_file              rattr/analyser/file.py
          compile_root_context(target)        → `RootCtx.compile`
          parse_and_analyse_imports(…)        → WHICH modules are followed, under which name, in which
                                                order is per-case data (module location is C12 / C13's
                                                subject); each followed file goes through
                                                `compile_root_context` + `FileAnalyser` like the target
                                                (`analyseOne`)
          FileAnalyser(target).analyse()      → `FileA.analyseWith`
        generate_results_from_ir(target_ir, import_irs)
          find_call_target_and_ir             → `resolveAt` (this file): rattr/results/_find_call_target.py
              resolve_function / resolve_class_init → `locate`, `realClassP`
                 (`__resolve_target_and_ir`, `__is_defined_in`, `__resolve_real_class_target`:
                  location-aware — a symbol is looked up in the FileIr of the file it is DEFINED in)
              resolve_import                      → `resolveImportP` (the ladder, the local-name
                                                    derivation, the lookup in the imported module's
                                                    context, the unguarded recursion through re-exports)
          make_target_ir_call_tree / destructively_simplify_… → `Results.callTree` / `Results.runRoot`
                                                (Results.lean, unchanged) over ONE store for ALL files
        show_results                          → `Pipeline.mkDoc` (target functions only)

  Keys: the FileIrs are concatenated, target first, then the followed files in `import_irs` order;
  `Key` = position in the concatenation (`gkey`). Only the target's keys are roots, but the store
  covers every file: the in-place `|=` of the fold reaches the sets of imported functions too.

  Call symbols: Python `==` on `Call` compares name, arguments and target, and a `Func` / `Class`
  target compares WITHOUT its location; the tree-global `seen` set is keyed on the Call symbol AND
  the file the call is made in, so `cid` = position among the distinct (path, `CallSym`) pairs.

  No diagnostics here (the single-file `Pipeline` models them); the outcome class and the printed
  document are the subject.
-/
import RattrModel.Pipeline
import RattrModel.Resolve

namespace Rattr
open Rattr.Strs Rattr.FnA Rattr.RootCtx

namespace Project
open Pipeline

/-- one analysed file of the environment -/
structure FileE where
  /-- the key of `import_irs` this file is stored under (`Import.module_name`); unused for the target -/
  modName : Str
  /-- `derive_module_name_from_path(symbol.location.defined_in)` for the symbols defined in this file -/
  derived : Option Str
  /-- identity of the file's path (`location.defined_in`): the target analysed again as a followed
  module has the target's `pathId` -/
  pathId : Nat
  fir : FileIr
  /-- `file_ir.context`: the root context as the file walk leaves it -/
  ctx : Context
  deriving Repr

/-- head = the target file; tail = `import_irs` in insertion order -/
abbrev PEnv := List FileE

structure PFacts where
  /-- names for which some `--exclude` pattern fullmatches -/
  excluded : List Str := []
  /-- dotted names that are modules (`find_module_spec_fast(name) is not None`) -/
  existing : List Str := []
  /-- modules on which a `return None` rung of `resolve_import` fires (blacklist, follow level) -/
  ignored : List Str := []
  deriving Repr

def emptyFile : FileE := ⟨[], none, 0, [], []⟩

def fileAt (env : PEnv) (i : Nat) : FileE := (env[i]?).getD emptyFile

/-- the concatenated FileIrs -/
def gfir (env : PEnv) : FileIr := env.flatMap (·.fir)

/-- first key of file `i` in the concatenation -/
def offset (env : PEnv) (i : Nat) : Nat := ((env.take i).map (·.fir.length)).sum

def gkey (env : PEnv) (i : Nat) (k : Key) : Key := offset env i + k

/-- `environment.import_irs.get(name)`: the position (≥ 1) of the followed file stored under `name` -/
def importIdx (env : PEnv) (name : Str) : Option Nat :=
  (indexOf? name ((env.drop 1).map (·.modName))).map (· + 1)

def samePath (env : PEnv) (i j : Nat) : Bool := (fileAt env i).pathId == (fileAt env j).pathId

/-- `__resolve_target_and_ir` after the class step, for a symbol `s` whose `location.defined_in` is
the file at position `loc`: the target's own FileIr if the symbol is defined there
(`__is_defined_in`), else the FileIr stored under the module name derived from the defining file's
path; `none` = `ImportError` (caught by both callers). -/
def locate (env : PEnv) (loc : Nat) (s : Sym) : Option (Nat × Key) :=
  let viaModule : Option (Nat × Key) :=
    match (fileAt env loc).derived with
    | none => none              -- ModuleNotFoundError, an ImportError
    | some m =>
      match importIdx env m with
      | none => none
      | some j => (keyOf (fileAt env j).fir s).map fun k => (j, k)
  if samePath env 0 loc then
    match keyOf (fileAt env 0).fir s with
    | some k => some (0, k)
    | none => viaModule
  else viaModule

/-- the `Class` keys named `name` of every FileIr, target first, with the position of their file -/
def classCands (env : PEnv) (name : Str) : List (Nat × Sym) :=
  (List.range env.length).flatMap fun j =>
    ((fileAt env j).fir.filter fun p => p.1.kind == .cls && p.1.name == name).map fun p => (j, p.1)

/-- `__resolve_real_class_target` for a target found in file `i`: the candidate defined in the same
file as the call's target, else the target itself (a class without initialiser has no key: it must
not take the initialiser of a same-named class of another file). -/
def realClassP (env : PEnv) (i : Nat) (t : Sym) : Nat × Sym :=
  match (classCands env t.name).find? (fun c => samePath env c.1 i) with
  | some c => c
  | none => (i, t)

inductive FoundP where
  | target (file : Nat) (k : Key)
  | nothing
  | crash (exc : Str)
  deriving DecidableEq, Repr

/-- `resolve_import(target)` for an Import symbol `(name, qual)`; one unit of fuel per call
(`RecursionError` when a re-export cycle never ends). -/
def resolveImportP (pf : PFacts) (env : PEnv) : Nat → Str → Str → FoundP
  | 0, _, _ => .crash "RecursionError".toList
  | fuel + 1, name, qual =>
    match Resolve.moduleNameOf pf.existing qual with
    | none => .crash "ImportError".toList                 -- `target.module_name is None`
    | some mn =>
      if pf.ignored.contains mn then .nothing
      else
        match importIdx env mn with
        | none => .crash "ImportError".toList             -- `import_irs.get(module_name) is None`
        | some j =>
          let ln := Resolve.localNameOf name mn
          match Context.get? (fileAt env j).ctx ln with
          | none => .nothing
          | some s =>
            if s.kind == .func || s.kind == .cls then
              match keyOf (fileAt env j).fir s with       -- `module_ir.get(new_target)`
              | some k => .target j k
              | none => .nothing
            else if s.kind == .import_ then resolveImportP pf env fuel s.name s.qual
            else .nothing

def importFuel : Nat := 64

/-- `find_call_target_and_ir(call, environment)` for a Call symbol found in the FileIr of file `i`. -/
def resolveAt (pf : PFacts) (env : PEnv) (i : Nat) (c : CallSym) : FoundP :=
  match c.target with
  | none => .nothing
  | some t =>
    match t.kind with
    | .builtin => .nothing
    | .name => .nothing
    | .func =>
      if pf.excluded.contains t.name then .nothing
      else
        match locate env i t with
        | some (j, k) => .target j k
        | none => .nothing
    | .cls =>
      let (j, s) := realClassP env i t
      match locate env j s with
      | some (j', k) => .target j' k
      | none => .nothing
    | .import_ => resolveImportP pf env importFuel t.name t.qual

/-! ### the adapter: environment → `Prog` + `Store`

`make_target_ir_call_tree` keys its `seen` set on `(call.symbol, call.symbol.location.defined_in)`:
the Call symbol (compared WITHOUT the location of its target) and the file the call is made in. So
the equality class of a call (`cid`) is the position of the pair (path of the calling file, Call
symbol) among the distinct pairs of the project; `find_call_target_and_ir` depends on nothing else
(`resolveAt` looks at the calling file only through its path: `samePath`, `derived`). -/

/-- (path identity of the file the call is made in, the Call symbol) -/
abbrev Occ := Nat × CallSym

def addOcc (l : List Occ) (o : Occ) : List Occ := if l.contains o then l else l ++ [o]

def fileOccs (e : FileE) : List Occ := (e.fir.flatMap (·.2.calls)).map fun c => (e.pathId, c)

/-- the distinct calls of the project, in first-occurrence order; `cid` = position. -/
def allOcc (env : PEnv) : List Occ := (env.flatMap fileOccs).foldl addOcc []

def occId (all : List Occ) (o : Occ) : Nat := (indexOf? o all).getD all.length

def callRecP (all : List Occ) (pid : Nat) (c : CallSym) : CallRec :=
  { cid := occId all (pid, c), name := c.name, args := ⟨c.args, c.kwargs⟩ }

def fnInfoP (ord : List CallSym → List CallSym) (all : List Occ) (pid : Nat) (p : Sym × IR) : FnInfo :=
  { iface := p.1.iface.getD emptyIface, calls := (ord p.2.calls).map (callRecP all pid) }

def firstWithPath : List FileE → Nat → Nat → Nat
  | [], _, _ => 0
  | e :: r, pid, i => if e.pathId == pid then i else firstWithPath r pid (i + 1)

/-- the position of the first file with path identity `pid` -/
def fileOfPath (env : PEnv) (pid : Nat) : Nat := firstWithPath env pid 0

def resolveCidP (pf : PFacts) (env : PEnv) (all : List Occ) (cid : Nat) : Option Key :=
  match all[cid]? with
  | none => none
  | some (pid, c) =>
    match resolveAt pf env (fileOfPath env pid) c with
    | .target j k => some (gkey env j k)
    | _ => none

def toProgP (ord : List CallSym → List CallSym) (pf : PFacts) (env : PEnv) : Prog :=
  let all := allOcc env
  { fns := env.flatMap fun e => e.fir.map (fnInfoP ord all e.pathId), resolve := resolveCidP pf env all }

/-- resolving a call raises (`ImportError` of `resolve_import`, `RecursionError`) -/
def crashCtx (pf : PFacts) (env : PEnv) : DiagCtx :=
  let all := allOcc env
  { onResolve := fun _ _ => [],
    crashes := fun c =>
      match all[c.cid]? with
      | some (pid, cs) => (match resolveAt pf env (fileOfPath env pid) cs with | .crash e => some e | _ => none)
      | none => none,
    onSwaps := fun _ _ => [] }

open FileA (Outcome)

/-- stage S6 on an analysed project: the document of the target's functions and the store (every
file's sets) as result generation leaves it. -/
def results (ord : List CallSym → List CallSym) (pf : PFacts) (env : PEnv) :
    Outcome (ResultsDoc × List IrSets) :=
  let g := gfir env
  let P := toProgP ord pf env
  match genLoop P (crashCtx pf env) (List.range (fileAt env 0).fir.length) (toStore g) with
  | .ok (rs, σ, _) => .ok (mkDoc g rs, (List.range g.length).map σ)
  | .fatal ds d => .fatal ds d
  | .crash e => .crash e

/-! ### the file stages of every file -/

structure FileIn where
  modName : Str
  derived : Option Str
  pathId : Nat
  env : FnA.Env
  mn : Str
  facts : Facts
  builtins : List Str
  body : List Top

/-- a followed module: `compile_root_context(ast).expand_starred_imports()` then
`FileAnalyser(ast, context).analyse()`, inside `enter_file(spec.origin)`. -/
def analyseOne (p : FileIn) : Outcome FileE :=
  match RootCtx.compile p.facts p.builtins p.body with
  | .fatal r d => .fatal r.diags d
  | .crash _ e => .crash e
  | .ok r =>
    if hasStarred r.ctx then .crash "Outside:starred-import".toList
    else
      match FileA.analyseWith p.env p.mn p.facts r.ctx p.body with
      | .fatal s d => .fatal (r.diags ++ s.diags) d
      | .crash _ e => .crash e
      | .ok s => .ok ⟨p.modName, p.derived, p.pathId, s.ir, s.ctx⟩

def analyseImports : List FileIn → Outcome (List FileE)
  | [] => .ok []
  | p :: r =>
    match analyseOne p with
    | .fatal ds d => .fatal ds d
    | .crash e => .crash e
    | .ok e =>
      match analyseImports r with
      | .ok es => .ok (e :: es)
      | .fatal ds d => .fatal ds d
      | .crash x => .crash x

/-- `parse_and_analyse_file`: the target's root context FIRST, then the followed modules, then the
target's file walk. -/
def analyseAll (t : FileIn) (imports : List FileIn) : Outcome PEnv :=
  match RootCtx.compile t.facts t.builtins t.body with
  | .fatal r d => .fatal r.diags d
  | .crash _ e => .crash e
  | .ok r =>
    if hasStarred r.ctx then .crash "Outside:starred-import".toList
    else
      match analyseImports imports with
      | .fatal ds d => .fatal ds d
      | .crash e => .crash e
      | .ok es =>
        match FileA.analyseWith t.env t.mn t.facts r.ctx t.body with
        | .fatal s d => .fatal (r.diags ++ s.diags) d
        | .crash _ e => .crash e
        | .ok s => .ok (⟨t.modName, t.derived, t.pathId, s.ir, s.ctx⟩ :: es)

/-- the whole pipeline on a project -/
def runWith (ord : List CallSym → List CallSym) (pf : PFacts) (t : FileIn) (imports : List FileIn) :
    Outcome (ResultsDoc × List IrSets) :=
  match analyseAll t imports with
  | .fatal ds d => .fatal ds d
  | .crash e => .crash e
  | .ok env => results ord pf env

/-- `python -m rattr -o results --follow-imports 1 <file>`: the printed document. -/
def run (pf : PFacts) (t : FileIn) (imports : List FileIn) : Outcome (ResultsDoc × List IrSets) :=
  runWith id pf t imports

end Project
end Rattr

/-
  RattrModel.Pipeline — ONE executable model of the whole single-file pipeline
  (`python -m rattr -o results --follow-imports 0 file.py`):

      rattr/__main__.py::main
        parse_and_analyse_file            rattr/analyser/file.py
          compile_root_context(ast)         → `RootCtx.compile`           (RootContext.lean)
          .expand_starred_imports()         → outside (explicit outcome, see `hasStarred`)
          plugins.assertors                 → none registered by default (`Plugins(assertors=[])`)
          follow_imports == 0               → `import_irs = {}`
          FileAnalyser(ast, ctx).analyse()  → `FileA.analyseWith`         (FileAnalyser.lean)
        generate_results_from_ir          rattr/results/util.py
          find_call_target_and_ir           → `resolveCall` / `resolveDiags`   (this file: the adapter)
          make_target_ir_call_tree          → `Results.callTree`          (Results.lean, unchanged)
          destructively_simplify_…          → `Results.runRoot`           (Results.lean, unchanged)
          construct_call_swaps diagnostics  → `Swaps.construct … |>.2`    (Swaps.lean, unchanged)
        is_within_badness_threshold        → threshold 0 (= ∞), not strict: never fatal here
        show_results                       → `mkDoc` (name ↦ sorted, duplicate-free spellings)

  `run` returns the document and EVERY diagnostic of the three stages in emission order (root
  context, file walk, result generation: per root the call-tree diagnostics, then those of
  `construct_call_swaps` in fold order); `resultsStore` also returns the FileIr's sets as result
  generation leaves them (C14's subject).

  The adapter turns FileA's `(Sym × IR)` list into the `Prog` / `Store` that `Results.lean` takes:
  `Key` = position in the FileIr, `cid` = position of the Call symbol among the distinct Call
  symbols of the file (Python `==` on `Call` is structural: `DecidableEq CallSym`),
  `resolve cid` = `find_call_target_and_ir` on that symbol with `import_irs = {}`.

  Per-case parameters (computed by the real locator functions, C12 / C13 model those):
    * `Facts` as for the file stage; `Facts.excluded` must also list the call-target names an
      exclusion pattern matches (`is_excluded_name(call.symbol.target.name)`);
    * `ImpFacts`: for the qualified name of an Import call target, whether `Import.module_name`
      is found and whether that module is on the import blacklist.

  Fragment notes:
    * `sorted(ir["calls"], key=lambda c: c.id)` is a stable sort of a SET: Call symbols with equal
      names come in hash order. The model iterates a function's calls in `ord calls` (insertion
      order for `run`); the harness compares a module only if the document does not depend on it.
    * a starred import in the root context makes `expand_starred_imports` parse other files:
      explicit outcome `crash "Outside:starred-import"`.
-/
import RattrModel.FileAnalyser

namespace Rattr
open Rattr.Strs Rattr.FnA Rattr.RootCtx

namespace Pipeline

structure ImpFact where
  /-- `Import.module_name is not None` -/
  found : Bool := false
  /-- `is_in_import_blacklist(module_name)` -/
  blacklisted : Bool := false
  deriving DecidableEq, Repr

abbrev ImpFacts := List (Str × ImpFact)

/-- `FileIr._file_ir`: insertion-ordered dict symbol ↦ FunctionIr -/
abbrev FileIr := List (Sym × IR)

/-! ### the adapter: FileIr → `Prog` + `Store` -/

def indexOf? {α : Type} [DecidableEq α] (a : α) : List α → Option Nat
  | [] => none
  | b :: r => if b = a then some 0 else (indexOf? a r).map (· + 1)

/-- the distinct Call symbols of the file, in first-occurrence order; `cid` = position. -/
def allCalls (fir : FileIr) : List CallSym := (fir.flatMap (·.2.calls)).foldl addCall []

def cidOf (all : List CallSym) (c : CallSym) : Nat := (indexOf? c all).getD all.length

/-- `symbol in environment.target_ir` / `environment.target_ir[symbol]` -/
def keyOf (fir : FileIr) (s : Sym) : Option Key := indexOf? s (fir.map (·.1))

/-- `__resolve_real_class_target` with no import IRs: the first `Class` key of the FileIr with the
target's name (the class analyser re-registers the class with its initialiser's interface, so the
symbol a call recorded earlier may differ from the key), else the target itself. -/
def realClass (fir : FileIr) (t : Sym) : Sym :=
  match fir.find? (fun p => p.1.kind == .cls && p.1.name == t.name) with
  | some p => p.1
  | none => t

inductive Found where
  | target (k : Key)
  | nothing
  | crash (exc : Str)
  deriving DecidableEq, Repr

/-- `find_call_target_and_ir(call, environment)` with `import_irs = {}` and follow-imports 0:
what it returns / raises. -/
def resolveCall (f : Facts) (imp : ImpFacts) (fir : FileIr) (c : CallSym) : Found :=
  match c.target with
  | none => .nothing
  | some t =>
    match t.kind with
    | .builtin => .nothing
    | .name => .nothing
    | .func =>
      -- resolve_function
      if FileA.excluded f t.name then .nothing
      else match keyOf fir t with
        | some k => .target k
        | none => .nothing          -- ImportError (module of the defining file has no IR), caught
    | .cls =>
      -- resolve_class_init
      match keyOf fir (realClass fir t) with
      | some k => .target k
      | none => .nothing
    | .import_ =>
      -- resolve_import
      match Dict.get? imp t.qual with
      | none => .crash "NoImportFact".toList       -- the harness forgot a fact (machinery error)
      | some fact =>
        if !fact.found then .crash "ImportError".toList     -- `raise ImportError`, not caught
        else .nothing

def isMember (name : Str) : Bool := name.contains '.'

def pairArg (a b : Str) : Str := a ++ '|' :: b

/-- the diagnostics `find_call_target_and_ir` emits for this call made from `caller`. -/
def resolveDiags (f : Facts) (imp : ImpFacts) (fir : FileIr) (caller : Str) (c : CallSym) : List Diag :=
  match c.target with
  | none => []
  | some t =>
    match t.kind with
    | .builtin => []
    | .name => []
    | .func =>
      if FileA.excluded f t.name then [mkDiag .error "call-excluded" (pairArg t.name caller)]
      else match keyOf fir t with
        | some _ => []
        | none =>
          if isMember c.name then [mkDiag .info "call-unresolved-member" (pairArg t.name caller)]
          else [mkDiag .error "call-unresolved-nested" (pairArg t.name caller)]
    | .cls =>
      match keyOf fir (realClass fir t) with
      | some _ => []
      | none => [mkDiag .error "init-unresolved" t.name]
    | .import_ =>
      match Dict.get? imp t.qual with
      | none => []
      | some fact =>
        if !fact.found then []
        else if fact.blacklisted then []
        else [mkDiag .info "import-ignored-local" t.name]

def emptyIface : Iface Str := ⟨[], [], none, [], none⟩

def callRec (all : List CallSym) (c : CallSym) : CallRec :=
  { cid := cidOf all c, name := c.name, args := ⟨c.args, c.kwargs⟩ }

/-- `AnyCallInterface` consumes as the empty interface in `construct_call_swaps`. -/
def fnInfo (ord : List CallSym → List CallSym) (all : List CallSym) (p : Sym × IR) : FnInfo :=
  { iface := p.1.iface.getD emptyIface, calls := (ord p.2.calls).map (callRec all) }

def resolveCid (f : Facts) (imp : ImpFacts) (fir : FileIr) (all : List CallSym) (cid : Nat) : Option Key :=
  match all[cid]? with
  | none => none
  | some c =>
    match resolveCall f imp fir c with
    | .target k => some k
    | _ => none

def toProg (ord : List CallSym → List CallSym) (f : Facts) (imp : ImpFacts) (fir : FileIr) : Prog :=
  let all := allCalls fir
  { fns := fir.map (fnInfo ord all), resolve := resolveCid f imp fir all }

def irSets (ir : IR) : IrSets := ⟨ir.gets, ir.sets, ir.dels⟩

/-- the store result generation starts from: the sets of the FileIr themselves. -/
def toStore (fir : FileIr) : Store := fun k =>
  match fir[k]? with
  | some p => irSets p.2
  | none => IrSets.empty

/-! ### diagnostics of result generation (same traversal as `Results.bfs` / `Results.foldTree`) -/

structure DiagCtx where
  /-- diagnostics of resolving call `c` found in the function with key `caller` -/
  onResolve : Key → CallRec → List Diag
  /-- resolving the call raises -/
  crashes : CallRec → Option Str
  /-- diagnostics of `construct_call_swaps(callee, call)` -/
  onSwaps : Key → CallRec → List Diag

/-- the diagnostics emitted while `Results.expand` walks the same call list with the same `seen`. -/
def expandD (P : Prog) (D : DiagCtx) (caller : Key) : List CallRec → List Nat → List Diag
  | [], _ => []
  | c :: r, seen =>
    if seen.contains c.cid then expandD P D caller r seen
    else
      D.onResolve caller c ++
        (match P.resolve c.cid with
         | none => expandD P D caller r seen
         | some _ => expandD P D caller r (c.cid :: seen))

/-- the BFS loop once more, for its diagnostics; the STATE is advanced by `Results.expand` itself. -/
def bfsD (P : Prog) (D : DiagCtx) : Nat → Nat → Results.BfsState → List Diag
  | 0, _, _ => []
  | fuel + 1, i, st =>
    match st.nodes[i]? with
    | none => []
    | some n =>
      let cs := Results.sortCalls (Results.fnAt P n.key).calls
      expandD P D n.key cs st.seen ++ bfsD P D fuel (i + 1) (Results.expand P i cs st)

def treeDiags (P : Prog) (D : DiagCtx) (root : Key) : List Diag :=
  bfsD P D (Results.totalCalls P + 1) 0 { nodes := [{ key := root, edgeIn := none, parent := none }], seen := [] }

/-- a call whose resolution raises is never `seen`, so it raises as soon as its node is expanded:
the first exception of the tree construction, if any (in BFS order, calls in sorted order). -/
def treeCrash (P : Prog) (D : DiagCtx) (nodes : List Results.Node) : Option Str :=
  nodes.findSome? fun n => (Results.sortCalls (Results.fnAt P n.key).calls).findSome? D.crashes

def childDiags (D : DiagCtx) (ch : Results.Node) : List Diag :=
  match ch.edgeIn with
  | none => []
  | some c => D.onSwaps ch.key c

/-- `destructively_simplify_ir_call_tree`: nodes in reversed BFS order, children in creation order. -/
def foldDiags (D : DiagCtx) (nodes : List Results.Node) : List Diag :=
  (List.range nodes.length).reverse.flatMap fun i => (Results.childrenOf nodes i).flatMap (childDiags D)

def strList (l : List Str) : Str := joinDot l       -- canonical rendering of a list of identifiers

def swapDiag (fn : Str) : SwapDiag Str → Diag
  | .posonlyShort => mkDiag .error "swaps-posonly-short" fn
  | .tooManyPositional => mkDiag .error "swaps-too-many-positional" fn
  | .unexpectedKeywords ks => mkDiag .error "swaps-unexpected-keywords" (pairArg fn (strList ks))
  | .byPositionAndName ks => mkDiag .error "swaps-by-position-and-name" (pairArg fn (strList ks))

def diagCtx (f : Facts) (imp : ImpFacts) (fir : FileIr) (P : Prog) : DiagCtx :=
  let all := allCalls fir
  let nameOf (k : Key) : Str := match fir[k]? with | some p => p.1.name | none => []
  { onResolve := fun caller c =>
      match all[c.cid]? with
      | some cs => resolveDiags f imp fir (nameOf caller) cs
      | none => [],
    crashes := fun c =>
      match all[c.cid]? with
      | some cs => (match resolveCall f imp fir cs with | .crash e => some e | _ => none)
      | none => none,
    onSwaps := fun g c =>
      ((Swaps.construct (Results.si P) (Results.fnAt P g).iface c.args).2).map (swapDiag (nameOf g)) }

/-! ### `generate_results_from_ir` with outcomes and diagnostics -/

open FileA (Outcome)

/-- roots in order over ONE shared store (`Results.runRoot` per root); an exception ends the run. -/
def genLoop (P : Prog) (D : DiagCtx) : List Key → Store → Outcome (List (Key × IrSets) × Store × List Diag)
  | [], σ => .ok ([], σ, [])
  | root :: r, σ =>
    match Results.callTree P root with
    | none => .crash "OutOfFuel".toList          -- unreachable (`Results.callTree_terminates`)
    | some nodes =>
      match treeCrash P D nodes with
      | some e => .crash e
      | none =>
        match Results.runRoot P σ root with
        | .outOfFuel => .crash "OutOfFuel".toList
        | .never => .crash "ValueError".toList     -- `raise ValueError("never")` in unbind_name
        | .ok (res, σ') =>
          match genLoop P D r σ' with
          | .ok (rs, σ'', ds) => .ok ((root, res) :: rs, σ'', treeDiags P D root ++ foldDiags D nodes ++ ds)
          | .fatal ds d => .fatal ds d
          | .crash e => .crash e

/-! ### the results document -/

structure FnResults where
  gets : List Str
  sets : List Str
  dels : List Str
  calls : List Str
  deriving DecidableEq, Repr

/-- `FileResults`: insertion-ordered dict function name ↦ results -/
abbrev ResultsDoc := Dict Str FnResults

/-- insert into a sorted duplicate-free list (code-point order, as Python's `sorted` on `str`). -/
def insertStr (s : Str) : List Str → List Str
  | [] => [s]
  | t :: r => if s = t then t :: r else if Results.strLt s t then s :: t :: r else t :: insertStr s r

/-- `sorted(set(l))` -/
def sortStrs (l : List Str) : List Str := l.foldr insertStr []

def fulls (l : List NameS) : List Str := l.map (·.full)

/-- `Call.name_of_call` -/
def nameOfCall (c : CallSym) : Str := c.name ++ "()".toList

/-- `results[symbol.id] = {"gets": {s.id …}, …, "calls": {s.name_of_call …}}` (the calls are the
function's own: result generation never touches `ir["calls"]`). -/
def entry (ir : IR) (res : IrSets) : FnResults :=
  { gets := sortStrs (fulls res.gets), sets := sortStrs (fulls res.sets), dels := sortStrs (fulls res.dels),
    calls := sortStrs (ir.calls.map nameOfCall) }

def docStep (fir : FileIr) (d : ResultsDoc) (p : Key × IrSets) : ResultsDoc :=
  match fir[p.1]? with
  | some (sym, ir) => Dict.set d sym.name (entry ir p.2)
  | none => d

def mkDoc (fir : FileIr) (rs : List (Key × IrSets)) : ResultsDoc := rs.foldl (docStep fir) []

/-! ### the pipeline -/

/-- a starred import is stored under `<qualified name>.*` (no other symbol name ends in `*`). -/
def hasStarred (c : Context) : Bool :=
  (scopeSyms c).any fun s => s.kind == .import_ && s.name.getLast? == some '*'

/-- stage S6 on a FileIr, keeping the store it leaves behind (the FileIr's sets ARE that store). -/
def resultsStore (ord : List CallSym → List CallSym) (f : Facts) (imp : ImpFacts) (fir : FileIr) :
    Outcome (ResultsDoc × List Diag × List IrSets) :=
  let P := toProg ord f imp fir
  match genLoop P (diagCtx f imp fir P) (List.range fir.length) (toStore fir) with
  | .ok (rs, σ, ds) => .ok (mkDoc fir rs, ds, (List.range fir.length).map σ)
  | .fatal ds d => .fatal ds d
  | .crash e => .crash e

/-- stage S6 on a FileIr. -/
def results (ord : List CallSym → List CallSym) (f : Facts) (imp : ImpFacts) (fir : FileIr) :
    Outcome (ResultsDoc × List Diag) :=
  match resultsStore ord f imp fir with
  | .ok (doc, ds, _) => .ok (doc, ds)
  | .fatal ds d => .fatal ds d
  | .crash e => .crash e

/-- the whole pipeline, calls of one function iterated in `ord calls` where the code iterates a set. -/
def runWith (ord : List CallSym → List CallSym) (env : Env) (mn : Str) (f : Facts) (builtins : List Str)
    (body : List Top) (imp : ImpFacts := []) : Outcome (ResultsDoc × List Diag) :=
  match RootCtx.compile f builtins body with
  | .fatal r d => .fatal r.diags d
  | .crash _ e => .crash e
  | .ok r =>
    if hasStarred r.ctx then .crash "Outside:starred-import".toList
    else
      match FileA.analyseWith env mn f r.ctx body with
      | .fatal s d => .fatal (r.diags ++ s.diags) d
      | .crash _ e => .crash e
      | .ok s =>
        match results ord f imp s.ir with
        | .ok (doc, ds) => .ok (doc, r.diags ++ s.diags ++ ds)
        | .fatal ds d => .fatal (r.diags ++ s.diags ++ ds) d
        | .crash e => .crash e

/-- `python -m rattr -o results --follow-imports 0 <file>`: the printed document (function name ↦
sorted names) and every diagnostic of the three stages, in emission order. -/
def run (env : Env) (mn : Str) (f : Facts) (builtins : List Str) (body : List Top) (imp : ImpFacts := []) :
    Outcome (ResultsDoc × List Diag) :=
  runWith id env mn f builtins body imp

end Pipeline
end Rattr

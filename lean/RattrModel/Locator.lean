/-
  RattrModel.Locator — model of `rattr/module_locator/{util,_locate}.py` (stage S3, property C13).

  Dotted names.  rattr handles module names as strings and repeatedly does `s.split(".")` /
  `".".join(parts)`.  The model keeps a name as the list `s.split(".")` (`Dotted`): a non-empty list
  of dot-free components, where the empty string is `[""]` (Python: `"".split(".") == [""]`) and a
  string starting with "." has an empty first component (`".x".split(".") == ["", "x"]`).
  `joinSplit parts` is `".".join(parts).split(".")` for dot-free parts: the only place where the
  two views differ is `parts = []` (`"".split(".") = [""]`).

  File system.  An ordered list of search roots; each root is the finite set of the *files* below
  it, as relative paths (lists of segments).  A directory exists iff some file lies strictly below
  it (the root directory itself always exists).  The listing is the logical view (symbolic links
  followed, as `is_dir()` / `exists()` do); what links change — the value of `Path.resolve()` — is the
  last section of this file.  Namespace packages and directories named `x.py` are not represented.

  The stdlib classification (`isort.place_module`) and the stdlib finder (`importlib.util.
  find_spec`) are NOT modelled: they enter as the per-case table `Env.stdlib` supplied by the
  harness from the real functions (`name ↦ what __find_stdlib_module_spec_impl returned`), a name
  being classified stdlib iff it has a row.
-/
import RattrModel.Basic

namespace Rattr.Locator

/-- `s.split(".")` of a module name. -/
abbrev Dotted := List Str
/-- path segments -/
abbrev Path := List Str

def initPy : Str := "__init__.py".toList
def dotPy : Str := ".py".toList
def sInit : Str := "__init__".toList
def sPy : Str := "py".toList

/-- `".".join(parts).split(".")` for dot-free `parts`. -/
def joinSplit (parts : List Str) : Dotted := if parts = [] then [[]] else parts

/-- `ModuleSpec.origin`: a file below one of the modelled roots, or an opaque string that came out
of the stdlib finder (`'built-in'`, `'frozen'`, a path outside the modelled roots). -/
inductive Origin where
  | file (root : Nat) (path : Path)
  | ext (s : Str)
  deriving Repr, DecidableEq

/-- `rattr.module_locator.models.ModuleSpec` -/
structure ModSpec where
  name   : Dotted
  origin : Option Origin
  deriving Repr, DecidableEq

abbrev Files := List Path
abbrev FS := List Files

structure Env where
  fs     : FS
  /-- rows = the names `is_in_stdlib` accepts, with the result of the stdlib finder -/
  stdlib : Dict Dotted (Option ModSpec)

/-! ### `_locate.py` -/

/-- `Path.is_dir()` on `root / d`. -/
def dirExists (files : Files) (d : Path) : Bool :=
  d = [] || files.any (fun f => d.length < f.length && d.isPrefixOf f)

/-- `Path.with_suffix(".py")` for a path whose last segment has no dot. -/
def withSuffixPy : Path → Path
  | [] => []
  | [x] => [x ++ dotPy]
  | x :: r => x :: withSuffixPy r

/-- `find_module_in_path(python_path, modulename)`, result relative to the root.
`install_location /= part` is a no-op for an empty `part`. -/
def findModuleInPath (files : Files) (name : Dotted) : Option Path :=
  if name = [[]] then none
  else
    let parts := name.filter (fun c => c ≠ [])
    if dirExists files parts then
      (if files.contains (parts ++ [initPy]) then some (parts ++ [initPy]) else none)
    else
      (if files.contains (withSuffixPy parts) then some (withSuffixPy parts) else none)

/-- `locate_module_in_python_path`: every root's match, in the order of `iter_python_path_dirs`
(cwd / `sys.path[0]`, rattr's root, `sys.path[1:]`; the harness passes the roots in that order,
Tie A pins it). -/
def locateFrom (i : Nat) : FS → Dotted → List (Nat × Path)
  | [], _ => []
  | files :: rest, name =>
    match findModuleInPath files name with
    | some p => (i, p) :: locateFrom (i + 1) rest name
    | none => locateFrom (i + 1) rest name

def locate (fs : FS) (name : Dotted) : List (Nat × Path) := locateFrom 0 fs name

/-! ### `util.py` -/

def isStdlib (env : Env) (name : Dotted) : Bool := Dict.contains env.stdlib name

/-- `find_module_spec_fast` -/
def findModuleSpecFast (env : Env) (name : Dotted) : Option ModSpec :=
  match Dict.get? env.stdlib name with
  | some r => r
  | none =>
    match locate env.fs name with
    | [] => none
    | (i, p) :: _ => some { name := name, origin := some (.file i p) }

def moduleExists (env : Env) (name : Dotted) : Bool := (findModuleSpecFast env name).isSome

/-- `iter_module_names_right(parts)` as the list of yielded names (each a joined string, kept as
its split): `".".join(parts)`, then `parts[:-k]` for `k = 1 .. len-1`. -/
def iterModuleNamesRight (parts : List Str) : List Dotted :=
  if parts = [] then [[[]]]
  else (List.range parts.length).map (fun k => parts.take (parts.length - k))

/-- `iter_module_names_left(parts)`: `parts[k:]` for `k = 0 .. len-1`. -/
def iterModuleNamesLeft (parts : List Str) : List Dotted :=
  (List.range parts.length).map (fun k => parts.drop k)

/-- `target.startswith(".")` on the split view. -/
def startsWithDot : Dotted → Bool
  | [] :: _ :: _ => true
  | _ => false

/-- `find_module_name_and_spec(target)`; `none` = `(None, None)`. -/
def findModuleNameAndSpec (env : Env) (target : Dotted) : Option (Dotted × ModSpec) :=
  if startsWithDot target then none
  else (iterModuleNamesRight target).findSome? (fun n => (findModuleSpecFast env n).map (fun s => (n, s)))

/-- `xs` ends with `suf` and is strictly longer: `removesuffix("." + ".".join(suf))` applies. -/
def removeSuffix (suf : List Str) (c : List Str) : List Str :=
  if suf.length < c.length && c.drop (c.length - suf.length) = suf then c.take (c.length - suf.length)
  else c

def dropEmptyFront : List Str → List Str
  | [] :: r => dropEmptyFront r
  | l => l

/-- `.strip(".")` then `.split(".")` on the split view. -/
def stripDots (c : List Str) : Dotted :=
  joinSplit (dropEmptyFront (dropEmptyFront c).reverse).reverse

/-- `dotted.endswith("." + ".".join(suf))` on the split view -/
def hasSuffix (suf : List Str) (c : List Str) : Bool :=
  suf.length < c.length && c.drop (c.length - suf.length) = suf

/-- The longest module name a path can have (since c729543: ONE suffix is removed):

    dotted = str(path).replace("/", ".").replace("\\", ".")
    if dotted.endswith(".__init__.py"): dotted = dotted.removesuffix(".__init__.py")
    else:                               dotted = dotted.removesuffix(".py")
    dotted.strip(".").split(".")

input = `str(path).replace("/", ".").split(".")`. -/
def longestName (pathComps : List Str) : Dotted :=
  stripDots (if hasSuffix [sInit, sPy] pathComps then removeSuffix [sInit, sPy] pathComps
             else removeSuffix [sPy] pathComps)

/-- the rule before c729543: `.removesuffix(".__init__.py").removesuffix(".py")` — both, in a row
(`a/py/__init__.py` ↦ `"a.py"` ↦ `"a"`; Props/C13 `C13_package_named_py`) -/
def longestNameBefore_c729543 (pathComps : List Str) : Dotted :=
  stripDots (removeSuffix [sPy] (removeSuffix [sInit, sPy] pathComps))

/-- `derive_module_name_from_path` -/
def deriveModuleNameFromPath (env : Env) (pathComps : List Str) : Option Dotted :=
  (iterModuleNamesLeft (longestName pathComps)).find? (moduleExists env)

/-- Body of `derive_absolute_module_name` (what runs on a cache miss). `isInit` is
`Config().state.current_file.name == "__init__.py"` — read by the body, absent from the cache key.
`level - 1` may become `-1`/`0`, both of which skip the stripping, as truncated subtraction does. -/
def deriveAbs (isInit : Bool) (base : Dotted) (target : Option Dotted) (level : Nat) : Dotted :=
  let eff := if isInit then level - 1 else level
  let base' := if eff > 0 then joinSplit (base.take (base.length - eff)) else base
  match target with
  | none => base'
  | some t => base' ++ t

abbrev MemoKey := Dotted × Option Dotted × Nat
/-- the `functools.cache` of `derive_absolute_module_name` -/
abbrev Memo := Dict MemoKey Dotted

/-- `derive_absolute_module_name` as called: cache lookup on `(base, target, level)` first. -/
def deriveAbsM (memo : Memo) (isInit : Bool) (base : Dotted) (target : Option Dotted) (level : Nat) :
    Dotted × Memo :=
  match Dict.get? memo (base, target, level) with
  | some r => (r, memo)
  | none =>
    let r := deriveAbs isInit base target level
    (r, Dict.set memo (base, target, level) r)

/-- One relative import as `RootContext.visit_relative_import` processes it. -/
structure RelCall where
  isInit : Bool
  base   : Dotted
  target : Option Dotted
  level  : Nat
  deriving Repr, DecidableEq

def RelCall.key (c : RelCall) : MemoKey := (c.base, c.target, c.level)
/-- what a cache-free call computes -/
def RelCall.pure (c : RelCall) : Dotted := deriveAbs c.isInit c.base c.target c.level

/-- A whole run: calls in order through one cache. -/
def runCalls : Memo → List RelCall → List Dotted
  | _, [] => []
  | m, c :: cs =>
    let (r, m') := deriveAbsM m c.isInit c.base c.target c.level
    r :: runCalls m' cs

/-! ### Symbolic links: what `Path.resolve()` is applied to

  The files of a root (`Files`) are the LOGICAL view below the search directory: what `is_dir()` /
  `exists()` see, both of which follow symbolic links — a package directory that is a link to a
  directory elsewhere contributes its files under the link's name.  What a link changes is the VALUE
  of a path once `Path.resolve()` (`os.path.realpath`) has been applied to it.  `find_module_in_path`
  applies it to the search directory only and appends the module's parts as spelled:

      install_location = python_path.resolve()
      for part in module_parts: install_location /= part

  so the origin of a located module is `resolve(search dir) ++ <path as spelled below it>` whatever
  links lie below the search directory.  `Import.origin` (models/symbol/_symbols.py) resolves once
  more, the whole path: `Path(self.module_spec.origin).resolve()` — used for reading the file and for
  the `seen` sets; since 58a9012 no file is ENTERED under it.

  `.resolve()` enters the model as a parameter `rv : Path → Path` on absolute paths (lists of
  segments); the theorems hold for every such function.  The driver instantiates it with
  `resolveLinks` (a table of links), which the harness validates against `os.path.realpath`. -/

/-- where `find_module_in_path` applies `.resolve()` -/
inductive ResolveSite where
  /-- `python_path.resolve()`, then `/= part` (the pinned code; Tie A `tieA_resolve_site`) -/
  | searchDir
  /-- `(python_path / parts…).resolve()`: the located file itself -/
  | location
  deriving Repr, DecidableEq

/-- the pinned code -/
def resolveSite : ResolveSite := .searchDir

/-- the value `find_module_in_path` returns for the match `rel` below the search directory `dir`
(both as spelled) -/
def originAbs (rv : Path → Path) (site : ResolveSite) (dir rel : Path) : Path :=
  match site with
  | .searchDir => rv dir ++ rel
  | .location => rv (dir ++ rel)

/-- `find_module_in_path(python_path, modulename)` as the absolute path it returns -/
def findModuleInPathAbs (rv : Path → Path) (site : ResolveSite) (dir : Path) (files : Files)
    (name : Dotted) : Option Path :=
  (findModuleInPath files name).map (originAbs rv site dir)

/-- the search directories as spelled (`iter_python_path_dirs`, same order as `Env.fs`), the
resolver, and where it is applied -/
structure Mounts where
  rv   : Path → Path
  site : ResolveSite
  dirs : List Path

/-- `ModuleSpec.origin` of a spec located on the search path, as an absolute path -/
def specAbs (M : Mounts) (s : ModSpec) : Option Path :=
  match s.origin with
  | some (.file i rel) => (M.dirs[i]?).map fun d => originAbs M.rv M.site d rel
  | _ => none

/-- `Import.origin`: `Path(self.module_spec.origin).resolve()` -/
def importOriginAbs (M : Mounts) (s : ModSpec) : Option Path := (specAbs M s).map M.rv

/-- `seg.split(".")` of one path segment -/
def splitSeg : Str → List Str
  | [] => [[]]
  | c :: r =>
    if c = '.' then [] :: splitSeg r
    else
      match splitSeg r with
      | [] => [[c]]
      | h :: t => (c :: h) :: t

/-- `str(p).replace("/", ".").split(".")` for the absolute POSIX path `/seg₁/…/segₙ` (no empty
segment, `n ≥ 1`) -/
def pathComps (p : Path) : List Str := [] :: p.flatMap splitSeg

/-- `derive_module_name_from_path(p)` for an absolute path: the module name a file gets that is
entered as `enter_file(p)` -/
def nameOfAbs (env : Env) (p : Path) : Option Dotted := deriveModuleNameFromPath env (pathComps p)

/-- the module name under which the file of the followed import `name` is analysed
(`parse_and_analyse_imports`: `with enter_file(spec.origin)`) -/
def followBase (env : Env) (M : Mounts) (name : Dotted) : Option Dotted :=
  (findModuleSpecFast env name).bind fun s => (specAbs M s).bind (nameOfAbs env)

/-- … and of the star-imported module `name` (`Context.expand_starred_imports`; since 58a9012:
`with enter_file(Path(starred.module_spec.origin))` — the origin as located, like a followed import) -/
def starBase (env : Env) (M : Mounts) (name : Dotted) : Option Dotted :=
  (findModuleSpecFast env name).bind fun s => (specAbs M s).bind (nameOfAbs env)

/-- before 58a9012: `with enter_file(starred.origin)`, an `Import.origin` — the fully resolved path -/
def starBaseBefore_58a9012 (env : Env) (M : Mounts) (name : Dotted) : Option Dotted :=
  (findModuleSpecFast env name).bind fun s => (importOriginAbs M s).bind (nameOfAbs env)

/-- a table of symbolic links: absolute path of the link ↦ absolute path it points to -/
abbrev Links := Dict Path Path

/-- one step of `os.path.realpath`'s left-to-right scan: the shortest prefix that is a link is
replaced by its target -/
def stepLink (links : Links) (p : Path) : Option Path :=
  (List.range (p.length + 1)).findSome? fun k => (Dict.get? links (p.take k)).map (· ++ p.drop k)

/-- `os.path.realpath` for a link table (no loops within the fuel; the harness checks every value
used against the real function) -/
def resolveLinks (links : Links) : Nat → Path → Path
  | 0, p => p
  | n + 1, p =>
    match stepLink links p with
    | none => p
    | some q => resolveLinks links n q

end Rattr.Locator

/-
  RattrModel.RelBase — C07 / K23: the guard at the head of `RootContextBuilder.visit_relative_import` and
  `visit_starred_relative_import` (rattr/models/context/_root_context.py):

      base = derive_module_name_from_path(config.state.current_file)
      if base is None:
          error.fatal("unable to resolve relative imports in …, the file is not in the module search path", culprit=node)

  Before fix c5833ef the body of that `if` was `raise ValueError  # only when the file can't be a module, so never
  here` — reachable for every target outside the module search path, below a directory whose name is no identifier,
  or without a `.py` suffix (known finding K23, round 3). `fixed = false` is that tree, kept for the counterexample.

  `derive_module_name_from_path` is `Locator.deriveModuleNameFromPath`; here the verdicts of `module_exists` are a
  parameter `ex` (per case: the real function's answers), so the guard is tied to the implementation on paths the
  file-system model of `Locator` does not represent (`..`, absolute paths elsewhere, links).
-/
import RattrModel.Locator

namespace Rattr.RelBase
open Rattr Rattr.Locator

/-- `derive_module_name_from_path` over the verdicts of `module_exists`. -/
def deriveWith (ex : Dotted → Bool) (comps : List Str) : Option Dotted :=
  (iterModuleNamesLeft (longestName comps)).find? ex

inductive Out where
  | crash (exc : String)
  | fatal
  | base (b : Dotted)
  deriving Repr, DecidableEq

/-- the guard; `comps` = `str(current_file).replace("/", ".").split(".")`. -/
def relBase (fixed : Bool) (ex : Dotted → Bool) (comps : List Str) : Out :=
  match deriveWith ex comps with
  | some b => .base b
  | none => if fixed then .fatal else .crash "ValueError"

end Rattr.RelBase

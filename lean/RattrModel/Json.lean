/-
  RattrModel.Json — JSON values as the serialisation hooks of rattr see them (stage S8, C18).

  `cattrs` and `json` are trusted (DESIGN §6): a registered hook maps a Python object to a tree of
  `None | bool | int | str | list | dict` and `json.dumps` prints that tree; `json.loads` gives the
  tree back. `JVal` is that tree. Objects are *ordered* key lists because Python dicts keep
  insertion order and `json.dumps` prints in that order: the order is part of the bytes.
-/
import RattrModel.Basic

namespace Rattr

inductive JVal where
  | null
  | bool (b : Bool)
  | num (n : Int)
  | str (s : Str)
  | arr (xs : List JVal)
  | obj (kvs : List (Str × JVal))
  deriving Repr, Inhabited

namespace JVal

/-! ### Decidable equality (the nested inductive has no derive handler) -/

mutual
def beq : JVal → JVal → Bool
  | .null, .null => true
  | .bool a, .bool b => a == b
  | .num a, .num b => a == b
  | .str a, .str b => a == b
  | .arr a, .arr b => beqList a b
  | .obj a, .obj b => beqKvs a b
  | _, _ => false
def beqList : List JVal → List JVal → Bool
  | [], [] => true
  | a :: as, b :: bs => beq a b && beqList as bs
  | _, _ => false
def beqKvs : List (Str × JVal) → List (Str × JVal) → Bool
  | [], [] => true
  | (k, a) :: as, (l, b) :: bs => k == l && beq a b && beqKvs as bs
  | _, _ => false
end

mutual
theorem beq_refl : ∀ a : JVal, beq a a = true
  | .null => rfl
  | .bool b => by simp [beq]
  | .num n => by simp [beq]
  | .str s => by simp [beq]
  | .arr xs => by simp [beq, beqList_refl xs]
  | .obj kvs => by simp [beq, beqKvs_refl kvs]
theorem beqList_refl : ∀ a : List JVal, beqList a a = true
  | [] => rfl
  | a :: as => by simp [beqList, beq_refl a, beqList_refl as]
theorem beqKvs_refl : ∀ a : List (Str × JVal), beqKvs a a = true
  | [] => rfl
  | (k, a) :: as => by simp [beqKvs, beq_refl a, beqKvs_refl as]
end

mutual
theorem eq_of_beq : ∀ a b : JVal, beq a b = true → a = b
  | .null, .null, _ => rfl
  | .bool a, .bool b, h => by simp [beq] at h; rw [h]
  | .num a, .num b, h => by simp [beq] at h; rw [h]
  | .str a, .str b, h => by simp [beq] at h; rw [h]
  | .arr a, .arr b, h => by simp only [beq] at h; rw [eqList_of_beq a b h]
  | .obj a, .obj b, h => by simp only [beq] at h; rw [eqKvs_of_beq a b h]
  | .null, .bool _, h | .null, .num _, h | .null, .str _, h | .null, .arr _, h | .null, .obj _, h
  | .bool _, .null, h | .bool _, .num _, h | .bool _, .str _, h | .bool _, .arr _, h | .bool _, .obj _, h
  | .num _, .null, h | .num _, .bool _, h | .num _, .str _, h | .num _, .arr _, h | .num _, .obj _, h
  | .str _, .null, h | .str _, .bool _, h | .str _, .num _, h | .str _, .arr _, h | .str _, .obj _, h
  | .arr _, .null, h | .arr _, .bool _, h | .arr _, .num _, h | .arr _, .str _, h | .arr _, .obj _, h
  | .obj _, .null, h | .obj _, .bool _, h | .obj _, .num _, h | .obj _, .str _, h | .obj _, .arr _, h => by
    simp [beq] at h
theorem eqList_of_beq : ∀ a b : List JVal, beqList a b = true → a = b
  | [], [], _ => rfl
  | a :: as, b :: bs, h => by
    simp only [beqList, Bool.and_eq_true] at h
    rw [eq_of_beq a b h.1, eqList_of_beq as bs h.2]
  | [], _ :: _, h | _ :: _, [], h => by simp [beqList] at h
theorem eqKvs_of_beq : ∀ a b : List (Str × JVal), beqKvs a b = true → a = b
  | [], [], _ => rfl
  | (k, a) :: as, (l, b) :: bs, h => by
    simp only [beqKvs, Bool.and_eq_true, beq_iff_eq] at h
    rw [h.1.1, eq_of_beq a b h.1.2, eqKvs_of_beq as bs h.2]
  | [], _ :: _, h | _ :: _, [], h => by simp [beqKvs] at h
end

instance : DecidableEq JVal := fun a b =>
  if h : beq a b = true then isTrue (eq_of_beq a b h)
  else isFalse (fun e => h (e ▸ beq_refl a))

/-! ### Access -/

/-- `d[k]` / `d.get(k)` on a JSON object's key list (keys are unique after `json.loads`). -/
def get? : List (Str × JVal) → Str → Option JVal
  | [], _ => none
  | (k, v) :: r, x => if k = x then some v else get? r x

def ofOptStr : Option Str → JVal
  | none => .null
  | some s => .str s

def ofOptInt : Option Int → JVal
  | none => .null
  | some n => .num n

def ofStrList (l : List Str) : JVal := .arr (l.map .str)

/-! ### Printer (compact separators, keys in stored order; ASCII escapes as `json.dumps`) -/

def hexDigit (n : Nat) : Char :=
  if n < 10 then Char.ofNat (48 + n) else Char.ofNat (87 + n)

def hex4 (n : Nat) : Str :=
  ['\\', 'u', hexDigit (n / 4096 % 16), hexDigit (n / 256 % 16), hexDigit (n / 16 % 16), hexDigit (n % 16)]

/-- `json.encoder.py_encode_basestring_ascii`: `"` `\\` and the five short control escapes; every
other character outside `' '..'~'` as `\uXXXX` (a surrogate pair above the BMP). -/
def escapeChar (c : Char) : Str :=
  if c = '"' then ['\\', '"']
  else if c = '\\' then ['\\', '\\']
  else if c = '\n' then ['\\', 'n']
  else if c = '\t' then ['\\', 't']
  else if c = '\r' then ['\\', 'r']
  else if c.toNat = 8 then ['\\', 'b']
  else if c.toNat = 12 then ['\\', 'f']
  else if c.toNat < 32 ∨ 126 < c.toNat then
    let n := c.toNat
    if n < 65536 then hex4 n
    else hex4 (55296 + (n - 65536) / 1024) ++ hex4 (56320 + (n - 65536) % 1024)
  else [c]

def renderStr (s : Str) : Str := '"' :: (s.flatMap escapeChar ++ ['"'])

def renderNat (n : Nat) : Str := (Nat.repr n).toList

def renderInt : Int → Str
  | .ofNat n => renderNat n
  | .negSucc n => '-' :: renderNat (n + 1)

mutual
def render : JVal → Str
  | .null => ['n', 'u', 'l', 'l']
  | .bool true => ['t', 'r', 'u', 'e']
  | .bool false => ['f', 'a', 'l', 's', 'e']
  | .num n => renderInt n
  | .str s => renderStr s
  | .arr xs => '[' :: (renderList xs ++ [']'])
  | .obj kvs => '{' :: (renderKvs kvs ++ ['}'])
def renderList : List JVal → Str
  | [] => []
  | [a] => render a
  | a :: b :: r => render a ++ (',' :: renderList (b :: r))
def renderKvs : List (Str × JVal) → Str
  | [] => []
  | [(k, a)] => renderStr k ++ (':' :: render a)
  | (k, a) :: b :: r => renderStr k ++ (':' :: render a) ++ (',' :: renderKvs (b :: r))
end

/-! ### `json.dumps` with its default separators `", "` / `": "` (keys in stored order) -/

mutual
def renderSp : JVal → Str
  | .null => ['n', 'u', 'l', 'l']
  | .bool true => ['t', 'r', 'u', 'e']
  | .bool false => ['f', 'a', 'l', 's', 'e']
  | .num n => renderInt n
  | .str s => renderStr s
  | .arr xs => '[' :: (renderSpList xs ++ [']'])
  | .obj kvs => '{' :: (renderSpKvs kvs ++ ['}'])
def renderSpList : List JVal → Str
  | [] => []
  | [a] => renderSp a
  | a :: b :: r => renderSp a ++ (',' :: ' ' :: renderSpList (b :: r))
def renderSpKvs : List (Str × JVal) → Str
  | [] => []
  | [(k, a)] => renderStr k ++ (':' :: ' ' :: renderSp a)
  | (k, a) :: b :: r => renderStr k ++ (':' :: ' ' :: renderSp a) ++ (',' :: ' ' :: renderSpKvs (b :: r))
end

end JVal
end Rattr

/-
  RattrModel.RootContext — model of `rattr/models/context/_root_context.py` (stage S2):
  `compile_root_context` + `RootContextBuilder` + `make_import_symbol`.

  Module-level statements are `Top` (expressions and function bodies stay `Node`).  The state is the
  visitor state `FnA.St` (only `ctx` and `diags` are used): `error.fatal` is `Res.fatal`, a raised
  Python exception is `Res.crash <class>`.

  NOT modelled here (per-case parameters, computed by the real functions; C12 / C13 model them):
    * `Facts.mods`       : for a dotted name, `is_in_import_blacklist`, `Import(..).origin is not None`,
                           `module_exists` (a name that is not listed counts as "all false");
    * `Top.importFrom`'s `abs / specFound / confirmedOk`: `derive_absolute_module_name`,
                           `find_module_name_and_spec` of a relative import;
    * `Facts.isInit`     : the analysed file is an `__init__.py`.
-/
import RattrModel.FnAnalyser
import RattrModel.Annotations

namespace Rattr
open Rattr.Strs Rattr.FnA

/-- `ast.alias` -/
structure Alias where
  name : Str
  asname : Option Str
  deriving DecidableEq, Repr

/-- a module-level statement (or a statement / expression nested in a module-level compound
statement). `compound kind kids`: every statement without a constructor of its own; `kids` are its
children in `generic_visit` order, expression children wrapped in `expr`. -/
inductive Top where
  | importStmt (aliases : List Alias)
  | importFrom (module : Option Str) (level : Nat) (aliases : List Alias)
      (abs : Str) (specFound confirmedOk : Bool)
  | funcDef (name : Str) (ps : Params) (body : List Node) (decos : List Ann.Deco) (isAsync : Bool)
  | classDef (name : Str) (bases : List Node) (body : List Top) (decos : List Ann.Deco)
  | assign (targets : List Node) (extra : List Node) (value : Option Node)  -- Assign / AnnAssign / AugAssign
  | delete (targets : List Node)
  | exprStmt (v : Node)                                  -- ast.Expr
  | expr (n : Node)                                      -- an expression child of a compound statement
  | tryStmt (body handlers orelse finalbody : List Top)  -- Try / TryStar; handlers: `compound "ExceptHandler" …`
  | compound (kind : Str) (kids : List Top)

structure ModFact where
  blacklisted : Bool := false
  originFound : Bool := false
  modExists : Bool := false
  deriving DecidableEq, Repr

structure Facts where
  mods : List (Str × ModFact) := []
  isInit : Bool := false
  /-- names for which some `--exclude` pattern fullmatches (`is_excluded_name`) -/
  excluded : List Str := []
  deriving Repr

namespace RootCtx

def fact (f : Facts) (n : Str) : ModFact := (Dict.get? f.mods n).getD {}

/-- `MODULE_LEVEL_DUNDER_ATTRS` (tied to the source by `Generated.RC.moduleDunders`). -/
def moduleDunders : List Str :=
  ["__annotations__", "__builtins__", "__cached__", "__doc__", "__file__", "__loader__", "__name__",
   "__package__", "__spec__"].map String.toList

def builtinSym (n : Str) : Sym := { kind := .builtin, name := n, callable := true, iface := none }

/-- the context `compile_root_context` starts from: dunder names, then the builtins. -/
def initial (builtins : List Str) : Context :=
  [(moduleDunders.map fun n => (n, Context.nameSym n)) ++ (builtins.map fun n => (n, builtinSym n))]

/-- `Context.__setitem__` + `SymbolTable.add`: assignment under the symbol's id. -/
def setSym (c : Context) (s : Sym) : Context :=
  match c with
  | [] => [[(s.name, s)]]
  | sc :: r => Dict.set sc s.name s :: r

/-! ### imports -/

/-- the symbol `make_import_symbol` builds; a starred import is stored under its id `<qual>.*`. -/
def importSym (f : Facts) (name qual : Str) : Sym :=
  { kind := .import_, name := if name = ['*'] then qual ++ ".*".toList else name, callable := true,
    iface := none, qual := qual, modExists := (fact f qual).modExists }

/-- `make_import_symbol` followed by `context.add`: a starred import (`name == "*"`, never `in`
the context under that key) is always (re)assigned; any other name only when not yet visible. -/
def addImport (f : Facts) (s : St) (name qual moduleName : Str) : Res :=
  if !(fact f moduleName).blacklisted && !(fact f qual).originFound then
    let d := mkDiag .fatal "unable-to-find-module" moduleName
    .fatal (St.diag s d) d
  else
    let sym := importSym f name qual
    .ok { s with ctx := if name = ['*'] then setSym s.ctx sym else Context.add s.ctx sym }

def aliasLocal (a : Alias) : Str := a.asname.getD a.name

/-- `visit_Import`'s generator: `Import(name = asname or name, qualified_name = name)`. -/
def addPlainImports (f : Facts) : List Alias → St → Res
  | [], s => .ok s
  | a :: r, s => addImport f s (aliasLocal a) a.name a.name >>>= fun s => addPlainImports f r s

/-- `visit_named_import` / `visit_relative_import`: `Import(asname or name, f"{module}.{name}")`. -/
def addFromImports (f : Facts) (moduleName : Str) : List Alias → St → Res
  | [], s => .ok s
  | a :: r, s =>
    addImport f s (aliasLocal a) (moduleName ++ '.' :: a.name) moduleName >>>= fun s => addFromImports f moduleName r s

/-- `is_starred_import` -/
def isStarred : List Alias → Bool
  | [a] => a.name = ['*']
  | _ => false

def visitImportFrom (f : Facts) (module : Option Str) (level : Nat) (aliases : List Alias)
    (abs : Str) (specFound confirmedOk : Bool) (s : St) : Res :=
  let star := isStarred aliases
  -- `error_starred_import_outside_init(node, node.module or node.names[0].name)`: the text of the
  -- warning is built by `gen_import_from_stmt`, which raises on a module that is no identifier
  let shown := module.getD ((aliases.head?.map (·.name)).getD [])
  if star && !f.isInit && !isIdentifier shown then .crash s "ValueError".toList else
  let s := if star && !f.isInit then St.diag s (mkDiag .warning "star-outside-init" shown) else s
  if level != 0 then
    -- visit_starred_relative_import / visit_relative_import
    let s := if !specFound then
        St.diag s (mkDiag .error (if star then "unresolved-rel-star" else "unresolved-rel")) else s
    if !confirmedOk then .crash s "AssertionError".toList
    else if star then addImport f s ['*'] abs abs
    else addFromImports f abs aliases s
  else
    match module with
    | none => let d := mkDiag .fatal "no-module"; .fatal (St.diag s d) d
    | some m => if star then addImport f s ['*'] m m else addFromImports f m aliases s

/-! ### assignments -/

/-- `attrs.evolve(symbol, name=…)`: `Func` / `Class` strip call brackets from the name. -/
def evolveName (inner : Sym) (name : Str) : Sym :=
  { inner with name := if inner.kind == .func || inner.kind == .cls then withoutCallBrackets name else name }

def scopeSyms (c : Context) : List Sym := (c.head?.getD []).map Prod.snd

/-- `DictChanges(symbol_table, values).added`: the symbols of the table afterwards that were not
there before (as a set). -/
def addedSyms (before after : Context) : List Sym :=
  ((scopeSyms after).filter fun x => !(scopeSyms before).contains x).eraseDups

def lambdaBranch (targets : List Node) (value : Node) (s : St) : Res :=
  if !oneToOne targets value then .ok (St.diag s (mkDiag .error "lambda-one-to-one"))
  else
    match targets, value with
    | t :: _, .lam ps _ =>
      liftName s (namesOf false t) fun _ name => .ok { s with ctx := Context.add s.ctx (funcSym name ps.iface) }
    | _, _ => .crash s "AttributeError".toList     -- unreachable: one-to-one with a lambda on the right

def namedtupleBranch (targets : List Node) (value : Node) (s : St) : Res :=
  if !oneToOne targets value then .ok (St.diag s (mkDiag .error "namedtuple-one-to-one"))
  else
    match targets, value with
    | t :: _, .call _ args _ _ =>
      liftName s (namesOf false t) fun _ name =>
        match namedtupleSignature args with
        | .error e => .ok (St.diag s ⟨.error, e, []⟩)
        | .ok attrs => .ok { s with ctx := Context.add s.ctx (clsSym name ⟨[], attrs, none, [], none⟩) }
    | _, _ => .crash s "TypeError".toList          -- unreachable

mutual
/-- `visit_assignment(node)` for a node with a value. -/
def assignV (targets : List Node) : Node → St → Res
  | .walrus t v, s =>
    -- neither a lambda nor a namedtuple call; `walruses_in_rhs = [node.value]`
    (assignV [t] v s >>>= fun s1 =>
      if lambdaInRhs v then
        match addedSyms s.ctx s1.ctx with
        | [inner] =>
          (match targets with
           | t0 :: _ =>
             liftName s1 (namesOf false t0) fun _ name =>
               .ok { s1 with ctx := Context.add s1.ctx (evolveName inner name) }
           | [] => .crash s1 "IndexError".toList)
        | [] => .ok s1
        | _ => .ok (St.diag s1 (mkDiag .error "multi-walrus"))
      else .ok s1) >>>= fun s => addIdentifiersL s targets
  | .seq k elts c, s =>
    let value := Node.seq k elts c
    if lambdaInRhs value then lambdaBranch targets value s
    else if namedtupleInRhs value then namedtupleBranch targets value s
    else if isTupleOrList value then walrusElts elts s >>>= fun s => addIdentifiersL s targets
    else addIdentifiersL s targets
  | value, s =>
    if lambdaInRhs value then lambdaBranch targets value s
    else if namedtupleInRhs value then namedtupleBranch targets value s
    else addIdentifiersL s targets

/-- the walrus loop over the elements of a tuple / list value (`node.value == walrus` is false). -/
def walrusElts : List Node → St → Res
  | [], s => .ok s
  | .walrus t v :: r, s =>
    assignV [t] v s >>>= fun s1 =>
      let s1 := if lambdaInRhs v && (addedSyms s.ctx s1.ctx).length > 1
        then St.diag s1 (mkDiag .error "multi-walrus") else s1
      walrusElts r s1
  | _ :: r, s => walrusElts r s
end

def visitAssignment (targets : List Node) (value : Option Node) (s : St) : Res :=
  match value with
  | none => addIdentifiersL s targets        -- `x: T` (every *_in_rhs helper is False on `None`)
  | some v => assignV targets v s

/-! ### the builder -/

/-- the statement kinds whose bodies `RootContextBuilder` descends into (by `register_stmts` on
the child statements in order). `Try` / `TryStar` (`visit_TryStar` delegates to `visit_Try`) have a
constructor of their own (different order). `Match` since 6e8e4cc. -/
def blockKindNames : List String := ["If", "For", "AsyncFor", "While", "With", "AsyncWith", "Match"]
/-- clause nodes (no statement, no visitor of their own) whose `body` a block visitor hands to `register_stmts`:
since 6e8e4cc `visit_Match` registers `case.body` of every `match_case` in order (the pattern and the guard
are `Top.expr` kids: ignored). An `ExceptHandler` stays with `tryStmt` / `registerHandlers` (different order). -/
def clauseKindNames : List String := ["match_case"]
def blockKinds : List Str := (blockKindNames ++ clauseKindNames).map String.toList

/-- the model's dispatch: which `ast` classes each `Top` constructor stands for in `register`
(every other class is `compound` with a kind outside `blockKinds`, or `expr`: ignored). Tied to
`dir(RootContextBuilder)` by `Generated.RC.rootBuilderVisitors`. -/
def dispatch : List (String × List String) :=
  [("importStmt", ["Import"]), ("importFrom", ["ImportFrom"]),
   ("funcDef", ["FunctionDef", "AsyncFunctionDef"]), ("classDef", ["ClassDef"]),
   ("assign", ["Assign", "AnnAssign", "AugAssign"]), ("assignV on a walrus", ["NamedExpr"]),
   ("delete", ["Delete"]), ("exprStmt", ["Expr"]), ("tryStmt", ["Try", "TryStar"]), ("compound", blockKindNames)]

/-- the non-AST helper methods named `visit_*` (modelled by `visitAssignment` / `visitImportFrom`). -/
def helperVisitors : List String :=
  ["assignment", "named_import", "relative_import", "starred_import", "starred_relative_import"]

def visitorNames : List String := ((dispatch.flatMap (·.2)) ++ helperVisitors).map ("visit_" ++ ·)

/-- `Class.from_class_def`: the interface of the LAST `__init__` in the body, if any. -/
def lastInit : List Top → Option (Iface Str)
  | [] => none
  | .funcDef name ps _ _ _ :: r =>
    (match lastInit r with
     | some i => some i
     | none => if name = "__init__".toList then some ps.iface else none)
  | _ :: r => lastInit r

def classSym (name : Str) (body : List Top) : Sym :=
  { kind := .cls, name := withoutCallBrackets name, callable := true, iface := lastInit body }

def visitExpr (v : Node) (s : St) : Res :=
  match v with
  | .const | .strConst _ => .ok s
  | .call .. => .ok s
  | .lam .. => .ok (St.diag s (mkDiag .error "top-level-lambda"))
  | _ => .ok (St.diag s (mkDiag .error "unexpected-top-level" "Expr".toList))

mutual
/-- `RootContextBuilder.register(node)` -/
def register (f : Facts) : Top → St → Res
  | .importStmt aliases, s =>
    let s := if aliases.length > 1 then St.diag s (mkDiag .info "multi-import") else s
    addPlainImports f aliases s
  | .importFrom m lvl aliases abs sf co, s => visitImportFrom f m lvl aliases abs sf co s
  | .funcDef name ps _ _ _, s => .ok { s with ctx := Context.add s.ctx (funcSym name ps.iface) }
  | .classDef name _ body _, s => .ok { s with ctx := Context.add s.ctx (classSym name body) }
  | .assign targets _ value, s => visitAssignment targets value s
  | .delete targets, s =>
    removeIdentifiersL s targets >>>= fun s => .ok (St.diag s (mkDiag .warning "module-del"))
  | .exprStmt v, s => visitExpr v s
  | .expr _, s => .ok s
  | .tryStmt body handlers orelse finalbody, s =>
    registerL f body s >>>= fun s => registerL f orelse s >>>= fun s =>
    registerL f finalbody s >>>= fun s => registerHandlers f handlers s
  | .compound kind kids, s => if blockKinds.contains kind then registerL f kids s else .ok s

/-- `register_stmts(*stmts)` -/
def registerL (f : Facts) : List Top → St → Res
  | [], s => .ok s
  | t :: r, s => register f t s >>>= fun s => registerL f r s

/-- `*(stmt for handler in node.handlers for stmt in handler.body)` -/
def registerHandlers (f : Facts) : List Top → St → Res
  | [], s => .ok s
  | .compound _ kids :: r, s => registerL f kids s >>>= fun s => registerHandlers f r s
  | _ :: r, s => registerHandlers f r s
end

/-! ### what the builder depends on (Tie A: `Generated.C17`)

`register` reads `Facts.mods` and `Facts.isInit` and nothing else; in particular the exclusion verdicts
(`Facts.excluded`, i.e. `-x` (`--exclude`)) and the decorators of a `def` / `class` play no role in what is
registered. That is a transcription of the following facts about the source, each regenerated from
the working tree on every run. -/

/-- every read off `Config()` in rattr/models/context/*.py and rattr/models/symbol/*.py: the
current file (for relative imports: `Top.importFrom`'s `abs`) and the literal prefix — no option. -/
def configReads : List (String × String × String) :=
  [("rattr/models/context/_root_context.py", "RootContextBuilder.visit_relative_import", "state.current_file"),
   ("rattr/models/context/_root_context.py", "RootContextBuilder.visit_starred_relative_import", "state.current_file"),
   ("rattr/models/context/_util.py", "is_direct_call_to_method_on_constant", "LITERAL_VALUE_PREFIX"),
   ("rattr/models/context/_util.py", "is_direct_call_to_method_on_literal", "LITERAL_VALUE_PREFIX")]

/-- what `_root_context.py` imports from rattr at run time: AST helpers, symbols, the locator
functions behind `Facts.mods` / `importFrom`'s parameters — nothing of `rattr.analyser` (where
`is_excluded_name` and the annotation readers live). -/
def importedHelpers : List (String × String) :=
  [("rattr", "error"),
   ("rattr.ast.util", "assignment_is_one_to_one"), ("rattr.ast.util", "assignment_targets"),
   ("rattr.ast.util", "fullname_of"), ("rattr.ast.util", "has_lambda_in_rhs"),
   ("rattr.ast.util", "has_namedtuple_declaration_in_rhs"), ("rattr.ast.util", "is_relative_import"),
   ("rattr.ast.util", "is_starred_import"), ("rattr.ast.util", "namedtuple_init_signature_from_declaration"),
   ("rattr.ast.util", "walruses_in_rhs"), ("rattr.codegen", "gen_import_from_stmt"), ("rattr.config", "Config"),
   ("rattr.extra", "DictChanges"), ("rattr.models.context._context", "Context"),
   ("rattr.models.context._symbol_table", "SymbolTable"), ("rattr.models.symbol._symbols", "Builtin"),
   ("rattr.models.symbol._symbols", "CallInterface"), ("rattr.models.symbol._symbols", "Class"),
   ("rattr.models.symbol._symbols", "Func"), ("rattr.models.symbol._symbols", "Import"),
   ("rattr.models.symbol._symbols", "Name"), ("rattr.models.symbol._symbols", "PYTHON_BUILTINS"),
   ("rattr.module_locator.util", "derive_absolute_module_name"),
   ("rattr.module_locator.util", "derive_module_name_from_path"),
   ("rattr.module_locator.util", "find_module_name_and_spec"),
   ("rattr.module_locator.util", "is_in_import_blacklist")]

/-- every function / method defined in `_root_context.py` (the builder's `visit_*` methods are
`visitorNames`; a new helper would show up here). -/
def sourceFunctions : List String :=
  (["__init__", "register", "register_stmts"] ++ visitorNames).map ("RootContextBuilder." ++ ·) ++
  ["__dummy_token", "__module_level_builtin", "__module_level_name", "compile_root_context",
   "error_starred_import_outside_init", "make_import_symbol"]

/-- the bodies (`ast.unparse` per statement, docstring dropped) of the builder methods that `register`
/ `registerL` transcribe one-to-one: a definition is ONE unconditional `context.add`, a block statement
ONE `register_stmts` over its blocks in this order. -/
def builderBodies : List (String × List String) :=
  [("visit_FunctionDef", ["self.context.add(Func.from_fn_def(node))"]),
   ("visit_AsyncFunctionDef", ["self.context.add(Func.from_fn_def(node))"]),
   ("visit_ClassDef", ["self.context.add(Class.from_class_def(node))"]),
   ("visit_If", ["self.register_stmts(*node.body, *node.orelse)"]),
   ("visit_For", ["self.register_stmts(*node.body, *node.orelse)"]),
   ("visit_AsyncFor", ["self.register_stmts(*node.body, *node.orelse)"]),
   ("visit_While", ["self.register_stmts(*node.body, *node.orelse)"]),
   ("visit_Try", ["self.register_stmts(*node.body, *node.orelse, *node.finalbody, *(stmt for handler in node.handlers for stmt in handler.body))"]),
   ("visit_TryStar", ["self.visit_Try(node)"]),
   ("visit_Match", ["self.register_stmts(*(stmt for case in node.cases for stmt in case.body))"]),
   ("visit_With", ["self.register_stmts(*node.body)"]),
   ("visit_AsyncWith", ["self.register_stmts(*node.body)"]),
   ("register_stmts", ["for stmt in stmts: ;     self.register(stmt)"])]

/-- `compile_root_context(module)` -/
def compile (f : Facts) (builtins : List Str) (body : List Top) : Res :=
  registerL f body { ctx := initial builtins }

/-- the symbol table of a successfully compiled root context, in insertion order -/
def symbols (r : Res) : List Sym :=
  match r with
  | .ok s => scopeSyms s.ctx
  | _ => []

end RootCtx
end Rattr

/-
  RattrModel.SrcCall — the call AS WRITTEN and what reaches `construct_call_swaps` / the user (C04).

  Code modelled:

  rattr/models/symbol/_symbol.py   CallArguments.from_call(call, self=…):
      args   = [arg_name(arg) for arg in call.args]                 -- `*iterable` is spelled `*<name>`
      kwargs = {kw.arg: kwarg_name(kw) for kw in call.keywords      --   and costs one error.error each
                if kw.arg is not None}                              -- `**mapping` entries are SKIPPED,
      if self is not None: args = [self, *args]                     --   wherever they are written
  rattr/results/_simplify_utils.py construct_call_swaps: every arity diagnostic is
      `error.error(message, culprit=call)` (default badness 5), raised during result simplification,
      i.e. with `state.current_file is None`
  rattr/error/error.py             error: count the badness; strict ⇒ fatal; otherwise `__log(error)` —
                                   no look at the warning level, no look at the current file

  Spellings are opaque (`α`): the namer has already been applied (RattrModel.FnAnalyser.argNames /
  kwargNames are the same two loops over AST nodes, with the namer inside).
-/
import RattrModel.Swaps
import RattrModel.Diag

namespace Rattr

/-- `ast.Call` after naming: positionals in order (`true` = written `*iterable`), keywords in order
(`none` = written `**mapping`, `ast.keyword.arg is None`). -/
structure SrcCall (α : Type) where
  pos : List (Bool × α)
  kws : List (Option α × α)
  deriving Repr, DecidableEq

namespace SrcCall
variable {α : Type} [DecidableEq α]

/-- the dict comprehension of `from_call`, from left to right into `d` -/
def kwargsInto : List (Option α × α) → Dict α α → Dict α α
  | [], d => d
  | (some k, v) :: r, d => kwargsInto r (Dict.set d k v)
  | (none, _) :: r, d => kwargsInto r d

/-- `CallArguments.from_call(call, self=self)` -/
def toArgs (self : Option α) (c : SrcCall α) : CallArgs α :=
  { args := self.toList ++ c.pos.map Prod.snd, kwargs := kwargsInto c.kws [] }

/-- the explicit `name=value` keywords, in the order written -/
def explicit (kws : List (Option α × α)) : List (α × α) :=
  kws.filterMap fun kv => kv.1.map fun k => (k, kv.2)

/-- how many "iterable unpacking not supported in function calls" errors `arg_name` raises while the
call is recorded (in the file the call is written in) -/
def starredErrors (c : SrcCall α) : Nat := (c.pos.filter Prod.fst).length

/-- the arity diagnostics of a call as diagnostic events: `error.error`, badness 5, no current file -/
def arityEvents (ds : List (SwapDiag α)) : List Diag.Event :=
  ds.map fun _ => ⟨.error, 5, .none⟩

/-- what the user gets to see (stderr) of the arity diagnostics of `callee(<call as written>)` under a
configuration, starting from badness state `st`: `construct_call_swaps` on the recorded call, every
diagnostic through `error.error`. -/
def arityShown (cfg : Diag.Cfg) (st : Diag.State) (si : StandIns α) (f : Iface α) (self : Option α)
    (c : SrcCall α) : Diag.Out :=
  Diag.runEvents cfg st (arityEvents (Swaps.construct si f (toArgs self c)).2)

end SrcCall
end Rattr

/-
  RattrModel.Context — model of `rattr/models/context/_context.py` (+ `_util.py`): the chain of
  symbol tables, `add` / `remove`, and the `get_call_target` decision ladder.
-/
import RattrModel.Strs
import RattrModel.Swaps

namespace Rattr
open Rattr.Strs

inductive SymKind where
  | name | builtin | import_ | func | cls
  deriving DecidableEq, Repr

/-- A symbol as the context stores it. `callable` = `interface is not None`; `iface = none` means
the `AnyCallInterface` (or no interface). For imports `qual` = qualified_name and `modExists` =
`module_exists(qualified_name)` (supplied per case by the harness from the real function). -/
structure Sym where
  kind : SymKind
  name : Str
  callable : Bool := false
  iface : Option (Iface Str) := none
  qual : Str := []
  modExists : Bool := false
  deriving DecidableEq, Repr

abbrev Scope := Dict Str Sym
/-- innermost scope first; the last element is the root context. -/
abbrev Context := List Scope

namespace Context

def get? : Context → Str → Option Sym
  | [], _ => none
  | sc :: r, x => match Dict.get? sc x with
    | some s => some s
    | none => get? r x

def contains (c : Context) (x : Str) : Bool := (get? c x).isSome

/-- `Context.add(symbol, is_argument=…)`: plain add never re-adds a name visible in this scope or
an ancestor; `is_argument` always (re)binds in the current scope. -/
def add (c : Context) (s : Sym) (isArgument : Bool := false) : Context :=
  if isArgument || !contains c s.name then
    match c with
    | [] => [[(s.name, s)]]
    | sc :: r => Dict.set sc s.name s :: r
  else c

def eraseKey : Scope → Str → Scope
  | [], _ => []
  | (k, v) :: r, x => if k = x then r else (k, v) :: eraseKey r x

/-- `Context.remove(id)`: pops from the CURRENT scope's table only. -/
def remove (c : Context) (x : Str) : Context :=
  match c with
  | [] => []
  | sc :: r => eraseKey sc x :: r

/-- `declares(id)`: defined in this scope, not an ancestor. -/
def declares (c : Context) (x : Str) : Bool :=
  match c with
  | [] => false
  | sc :: _ => Dict.contains sc x

def push (c : Context) : Context := [] :: c
def pop (c : Context) : Context := c.drop 1

def nameSym (n : Str) : Sym := { kind := .name, name := n }

end Context

/-! ### diagnostics -/

inductive Level where
  | info | warning | error | fatal
  deriving DecidableEq, Repr

structure Diag where
  lvl  : Level
  tmpl : Str         -- short template id, see py/props/visitlib.py TEMPLATES
  arg  : Str := []   -- the variable part (a name), canonicalised
  deriving DecidableEq, Repr

def mkDiag (l : Level) (t : String) (a : Str := []) : Diag := ⟨l, t.toList, a⟩

/-! ### get_call_target -/

namespace Context

/-- `derive_module_names_right(name)`: the name itself, then ever shorter dotted prefixes. -/
def namesRightAux : List Str → Nat → List Str
  | _, 0 => []
  | parts, n + 1 => joinDot (parts.take (n + 1)) :: namesRightAux parts n

def namesRight (name : Str) : List Str :=
  let parts := splitDot name
  namesRightAux parts parts.length

def firstSome {α β : Type} (f : α → Option β) : List α → Option β
  | [] => none
  | a :: r => match f a with
    | some b => some b
    | none => firstSome f r

/-- `_get_target_in_imported_module(name)` -/
def targetInImportedModule (c : Context) (name : Str) : Option Sym :=
  match firstSome (get? c) (namesRight name) with
  | none => none
  | some m =>
    if m.kind != .import_ then none
    else if !m.modExists then none
    else
      let localName := replaceAll name (m.name ++ ['.']) []
      some { kind := .import_, name := localName, callable := true, iface := none,
             qual := m.qual ++ '.' :: localName, modExists := false }

/-- `is_call_to_method_on_primitive_from_call(name)`; `prims` = builtins whose first character is
alphabetic minus the non-primitive-returning ones (generated table). -/
def onPrimitiveFromCall (prims : List Str) (name : Str) : Bool :=
  prims.any (fun b => startsWith name (b ++ ['.']) || startsWith name (b ++ lit "()."))

/-- `is_call_to_method_on_py_type(name)`; the two `@`-prefixed cases are listed for fidelity but
are unreachable from `get_call_target` (a name starting with `@` returns earlier). -/
def onPyType (prims : List Str) (literals : List Str) (name : Str) : Bool :=
  startsWith name (lit "@Constant.") ||
  literals.any (fun l => startsWith name ('@' :: l ++ ['.'])) ||
  onPrimitiveFromCall prims name

structure Env where
  prims    : List Str      -- see `onPrimitiveFromCall`
  literals : List Str      -- AstLiterals class names
  deriving Repr

/-- `Context.get_call_target(callee, culprit, warn=…)`. `culpritIsCallOnCall` =
`is_call_to_call_result(culprit)`. Returns the target and the diagnostics (empty when `warn` is
false). -/
def getCallTarget (env : Env) (c : Context) (callee : Str) (culpritIsCallOnCall : Bool)
    (warn : Bool) : Option Sym × List Diag :=
  let canonical := withCallBrackets callee
  let name := removeChar (withoutCallBrackets callee) '*'
  let lhsName := ((splitDot name).head?).getD []
  let w (d : Diag) : List Diag := if warn then [d] else []
  if startsWith name ['@'] then
    (none, w (mkDiag .info "call-literal" canonical))
  else if containsSub name (lit "[]") then
    (none, w (if name.contains '.' then mkDiag .info "call-subscript-lhs" canonical
              else mkDiag .error "call-subscript" canonical))
  else
    let target := get? c name
    let lhsTarget := get? c lhsName
    let lhsIsImport := match lhsTarget with | some s => s.kind == .import_ | none => false
    if name != lhsName && target.isNone && !lhsIsImport then
      (none, if onPyType env.prims env.literals name then [] else w (mkDiag .info "call-method" canonical))
    else
      let target := if name.contains '.' && target.isNone then targetInImportedModule c name else target
      match target with
      | none =>
        let lhsModExists := match lhsTarget with | some s => s.modExists | none => false
        if name != lhsName && lhsIsImport && !lhsModExists then (none, [])
        else (none, w (mkDiag .warning "call-undefined" canonical))
      | some t =>
        if culpritIsCallOnCall then (some t, w (mkDiag .error "call-on-call" canonical))
        else if !t.callable then
          (some t,
            w (if !name.contains '.' && declares c t.name then mkDiag .error "call-procedural" canonical
               else if t.name.contains '.' then mkDiag .info "call-method" canonical
               else mkDiag .error "call-not-callable" canonical))
        else (some t, [])

end Context
end Rattr

/-
  RattrModel.Strs — the string operations rattr performs on names, on `Str = List Char`.
-/
import RattrModel.Basic

namespace Rattr.Strs

def lit (s : String) : Str := s.toList

/-- `s.startswith(p)` -/
def startsWith (s p : Str) : Bool := p.isPrefixOf s

/-- `s.endswith(p)` -/
def endsWith (s p : Str) : Bool := p.reverse.isPrefixOf s.reverse

/-- helper on the REVERSED string: strip every trailing "()" . -/
def dropCallBracketsRev : List Char → List Char
  | ')' :: '(' :: r => dropCallBracketsRev r
  | l => l

/-- `without_call_brackets(s)`: remove every trailing "()" -/
def withoutCallBrackets (s : Str) : Str := (dropCallBracketsRev s.reverse).reverse

/-- `with_call_brackets(s)` -/
def withCallBrackets (s : Str) : Str := if endsWith s (lit "()") then s else s ++ lit "()"

/-- `s.split(".")` (always at least one component) -/
def splitDotAux : List Char → Str → List Str
  | [], cur => [cur.reverse]
  | c :: r, cur => if c = '.' then cur.reverse :: splitDotAux r [] else splitDotAux r (c :: cur)

def splitDot (s : Str) : List Str := splitDotAux s []

/-- `".".join(parts)` -/
def joinDot : List Str → Str
  | [] => []
  | [a] => a
  | a :: r => a ++ '.' :: joinDot r

/-- `s.replace(old, new)` for non-empty `old` (all occurrences, left to right); identity for
empty `old` (never used by rattr with an empty pattern). -/
def replaceAllAux (old new : Str) : Nat → Str → Str
  | 0, s => s
  | _ + 1, [] => []
  | fuel + 1, c :: r =>
    if old.isPrefixOf (c :: r) then new ++ replaceAllAux old new fuel ((c :: r).drop old.length)
    else c :: replaceAllAux old new fuel r

def replaceAll (s old new : Str) : Str :=
  if old = [] then s else replaceAllAux old new (s.length + 1) s

/-- `sub in s` -/
def containsSub : Str → Str → Bool
  | [], sub => sub.isEmpty
  | c :: r, sub => sub.isPrefixOf (c :: r) || containsSub r sub

def removeChar (s : Str) (c : Char) : Str := s.filter (· != c)

/-- `s.removeprefix(p)` -/
def removePrefix (s p : Str) : Str := if p.isPrefixOf s then s.drop p.length else s

/-- `get_basename_from_name(name)`: `without_call_brackets(name).replace("*","").split(".",1)[0]` -/
def basenameFromName (s : Str) : Str :=
  ((splitDot (removeChar (withoutCallBrackets s) '*')).head?).getD []

end Rattr.Strs

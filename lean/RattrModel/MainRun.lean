/-
  RattrModel.MainRun — `rattr.__main__.main` on a single file, under EVERY configuration: the
  composition of the whole-pipeline model (`Pipeline.runWith`: root context → file / class /
  function analysers → result generation → the results document) with the diagnostics model
  (`Diag.run`: badness buckets, `-w` filter, strict promotion, threshold gate).

      main(config):
        file_ir, import_irs, _ = parse_and_analyse_file()     -- inside `enter_file(target)`
        results = generate_results_from_ir(...)                -- no current file
        if not config.is_within_badness_threshold: error.fatal("exceeded allowed badness …")
        show_results(results)                                  -- stdout
        return 0

  `Pipeline.runWith` runs the analysis as if nothing exited and returns every diagnostic in
  emission order; `staged` keeps the two phases apart because `increment_badness` and the `-w`
  filter look at `state.current_file`: diagnostics of the root context and of the file walk arise
  in the target (`Where.target`), those of result generation with no current file (`Where.none`).
  Every diagnostic of these stages uses its level's default weight (Tie A:
  `Generated.C15.diagOverrides` lists `parse_and_analyse_imports` only, which `--follow-imports 0`
  never enters).

  `mainOf cfg` then replays the diagnostics through `Diag.run cfg` — which stops at the first one
  that exits (a fatal; a weighted error under `--strict`) and applies the gate — and prints the
  document exactly when `Diag.run` says the run reaches the output.

  Nothing here takes the warning level or the path format as an input except `Diag.run`'s filter
  (`Diag.shown`) — that is the content of C16 for this model (theorems `C16_main_*`).

  Second half of the file: `mainOut` — the same run for EVERY output mode (`-o stats | ir | results |
  cacheable | silent`) with the target as it was spelled on the command line; the printed documents
  carry their path fields (`IrDoc.filename`, `CacheDoc.filepath`, …), all equal to that spelling.

  Fragment: as `Pipeline` (follow-imports 0, no starred import); an uncaught exception of the
  pipeline is `Except.error` whatever the configuration (under `--strict` the real run may exit at
  an earlier error before it gets there: the harness does not compare such cases).
-/
import RattrModel.Pipeline
import RattrModel.Diag

namespace Rattr.MainRun
open Rattr Rattr.Pipeline Rattr.FnA Rattr.RootCtx
open Rattr.FileA (Outcome)

def levelOf : Rattr.Level → Diag.Level
  | .info => .info | .warning => .warning | .error => .error | .fatal => .fatal

/-- the default `badness` of the level functions (`Generated.C15.diagDefaults`). -/
def weight : Diag.Level → Nat
  | .info => 0 | .warning => 1 | .error => 5 | .fatal => 0

def weightTable : List (String × Nat) :=
  [("info", weight .info), ("warning", weight .warning), ("error", weight .error), ("fatal", weight .fatal)]

def eventOf (loc : Diag.Where) (d : Rattr.Diag) : Diag.Event :=
  ⟨levelOf d.lvl, weight (levelOf d.lvl), loc⟩

/-- what the analysis would emit and print if nothing exited. -/
structure Staged where
  /-- root context + file walk: `state.current_file` is the target -/
  analysis : List Rattr.Diag
  /-- result generation: no current file -/
  simpl : List Rattr.Diag
  /-- the document `show_results` prints (`none`: a fatal diagnostic ended the pipeline) -/
  doc : Option ResultsDoc
  /-- names of the keys of the target's `FileIr` (insertion order) as the file walk left them: the
  entries of `"target_ir"."ir"."symbols"` of the `-o ir` document (`[]` when the walk did not finish) -/
  keys : List Str
  deriving Repr

/-- `Pipeline.runWith`, the phases kept apart. `Except.error`: an uncaught exception. -/
def stagedWith (ord : List CallSym → List CallSym) (env : Env) (mn : Str) (f : Facts) (builtins : List Str)
    (body : List Top) (imp : ImpFacts := []) : Except Str Staged :=
  match RootCtx.compile f builtins body with
  | .fatal r _ => .ok ⟨r.diags, [], none, []⟩
  | .crash _ e => .error e
  | .ok r =>
    if hasStarred r.ctx then .error "Outside:starred-import".toList
    else
      match FileA.analyseWith env mn f r.ctx body with
      | .fatal s _ => .ok ⟨r.diags ++ s.diags, [], none, []⟩
      | .crash _ e => .error e
      | .ok s =>
        match results ord f imp s.ir with
        | .ok (doc, ds) => .ok ⟨r.diags ++ s.diags, ds, some doc, s.ir.map (·.1.name)⟩
        | .fatal ds _ => .ok ⟨r.diags ++ s.diags, ds, none, s.ir.map (·.1.name)⟩
        | .crash e => .error e

def staged (env : Env) (mn : Str) (f : Facts) (builtins : List Str) (body : List Top) (imp : ImpFacts := []) :
    Except Str Staged :=
  stagedWith id env mn f builtins body imp

/-- the event list `main` hands to the diagnostics machinery, in emission order. -/
def events (st : Staged) : List Diag.Event :=
  st.analysis.map (eventOf .target) ++ st.simpl.map (eventOf .none)

structure Result where
  /-- buckets, printed (level, place) lines, exit status, "reaches the output" -/
  diag : Diag.Result
  /-- stdout: the results document, iff the run reaches `show_results` -/
  stdout : Option ResultsDoc
  deriving Repr

def mainOf (cfg : Diag.Cfg) (st : Staged) : Result :=
  let r := Diag.run cfg (events st)
  ⟨r, if r.output then st.doc else none⟩

/-- `python -m rattr <options> --follow-imports 0 <file>` -/
def mainWith (cfg : Diag.Cfg) (ord : List CallSym → List CallSym) (env : Env) (mn : Str) (f : Facts)
    (builtins : List Str) (body : List Top) (imp : ImpFacts := []) : Except Str Result :=
  (stagedWith ord env mn f builtins body imp).map (mainOf cfg)

def main (cfg : Diag.Cfg) (env : Env) (mn : Str) (f : Facts) (builtins : List Str) (body : List Top)
    (imp : ImpFacts := []) : Except Str Result :=
  mainWith cfg id env mn f builtins body imp

/-! ### every output mode, and the target as it was spelled on the command line

    if config.arguments.stdout == Output.ir:        show_ir(config.arguments.target, file_ir, import_irs)
    if config.arguments.stdout == Output.results:   show_results(results)
    if config.arguments.stdout == Output.cacheable: show_cacheable_results(make_cacheable_results(…))
    if config.arguments.stdout == Output.stats:     show_stats(stats)

`target` is `str(config.arguments.target)`: the command-line argument as `pathlib.Path` prints it
(relative or absolute, short or deep — NOT resolved, NOT made project-relative, NOT passed through
`Config.get_formatted_path`). Every field of a printed document that names the target file carries
exactly this string: `"target_ir"."filename"` (`show_ir`), `"context"."file"` and every
`"location"."file"` of a symbol defined in the target (`state.current_file`, which `enter_file(target)`
sets to the same `Path`), `"filepath"` of the cacheable document (`target_ir.context.file`).
`-H` / `-T` (`Diag.render`) are for diagnostics only; nothing below takes them as an input. -/

/-- `-o` (`rattr.config.Output`). -/
inductive OutMode
  | stats | ir | results | cacheable | silent
  deriving DecidableEq, Repr

def OutMode.name : OutMode → String
  | .stats => "stats" | .ir => "ir" | .results => "results" | .cacheable => "cacheable" | .silent => "silent"

def OutMode.every : List OutMode := [.stats, .ir, .results, .cacheable, .silent]

/-- The `-o ir` document (`serialise_irs`), its path fields and keys:
`{"import_irs": {…}, "target_ir": {"filename": …, "ir": {"context": {"file": …}, "symbols": {name:
{"location": {"file": …}}}}}}`. -/
structure IrDoc where
  /-- `"target_ir"."filename"` -/
  filename : Str
  /-- `"target_ir"."ir"."context"."file"` -/
  contextFile : Str
  /-- `"target_ir"."ir"."symbols"`: one entry per `FileIr` key, (name, its `"location"."file"`) -/
  symbols : List (Str × Str)
  /-- keys of `"import_irs"` (`--follow-imports 0`: none) -/
  importIrs : List Str
  deriving DecidableEq, Repr

/-- The `-o cacheable` document (`make_cacheable_results`): `"filepath"` and `"results"` (the
hashes and the `imports` list are functions of file contents and of the module locator, no option
of this model enters them). -/
structure CacheDoc where
  filepath : Str
  results : ResultsDoc
  deriving DecidableEq, Repr

/-- The deterministic part of the `-o stats` tables: the badness rows and the `Threshold` row
(`0` is printed as `∞`). -/
structure StatsDoc where
  buckets : Diag.State
  threshold : Nat
  deriving DecidableEq, Repr

/-- What `main` writes on stdout. -/
inductive Printed
  | stats (d : StatsDoc)
  | ir (d : IrDoc)
  | results (d : ResultsDoc)
  | cacheable (d : CacheDoc)
  deriving DecidableEq, Repr

def Printed.mode : Printed → OutMode
  | .stats _ => .stats | .ir _ => .ir | .results _ => .results | .cacheable _ => .cacheable

/-- every field of a printed document that names the target file. -/
def Printed.paths : Printed → List Str
  | .ir d => d.filename :: d.contextFile :: d.symbols.map (·.2)
  | .cacheable d => [d.filepath]
  | .stats _ => []
  | .results _ => []

/-- the document of one output mode, for a run that reached the output stage with buckets `s`. -/
def printedOf (mode : OutMode) (target : Str) (threshold : Nat) (st : Staged) (s : Diag.State) : Option Printed :=
  match mode with
  | .silent => none
  | .stats => some (.stats ⟨s, threshold⟩)
  | .ir => st.doc.map fun _ => .ir ⟨target, target, st.keys.map fun k => (k, target), []⟩
  | .results => st.doc.map .results
  | .cacheable => st.doc.map fun d => .cacheable ⟨target, d⟩

structure OutResult where
  diag : Diag.Result
  /-- stdout: the selected document, iff the run reaches the output stage (`none`: nothing printed) -/
  stdout : Option Printed
  deriving Repr

/-- `python -m rattr <cfg> -o <mode> --follow-imports 0 <target>` on the staged pipeline result. -/
def mainOut (mode : OutMode) (target : Str) (cfg : Diag.Cfg) (st : Staged) : OutResult :=
  let r := Diag.run cfg (events st)
  ⟨r, if r.output then printedOf mode target cfg.threshold st r.state else none⟩

def mainOutWith (mode : OutMode) (target : Str) (cfg : Diag.Cfg) (ord : List CallSym → List CallSym) (env : Env)
    (mn : Str) (f : Facts) (builtins : List Str) (body : List Top) (imp : ImpFacts := []) : Except Str OutResult :=
  (stagedWith ord env mn f builtins body imp).map (mainOut mode target cfg)

end Rattr.MainRun

/-
  RattrModel.MainRun — `rattr.__main__.main` on a single file, under EVERY configuration: the
  composition of the whole-pipeline model (`Pipeline.runWith`: root context → file / class /
  function analysers → result generation → the results document) with the diagnostics model
  (`Diag.run`: badness buckets, `-w` filter, strict promotion, threshold gate).

      main(config):
        file_ir, import_irs, _ = parse_and_analyse_file()     -- inside `enter_file(target)`
        results = generate_results_from_ir(...)                -- no current file
        if not config.is_within_badness_threshold: error.fatal("exceeded allowed badness …")
        show_results(results)                                  -- stdout
        return 0

  `Pipeline.runWith` runs the analysis as if nothing exited and returns every diagnostic in
  emission order; `staged` keeps the two phases apart because `increment_badness` and the `-w`
  filter look at `state.current_file`: diagnostics of the root context and of the file walk arise
  in the target (`Where.target`), those of result generation with no current file (`Where.none`).
  Every diagnostic of these stages uses its level's default weight (Tie A:
  `Generated.C15.diagOverrides` lists `parse_and_analyse_imports` only, which `--follow-imports 0`
  never enters).

  `mainOf cfg` then replays the diagnostics through `Diag.run cfg` — which stops at the first one
  that exits (a fatal; a weighted error under `--strict`) and applies the gate — and prints the
  document exactly when `Diag.run` says the run reaches the output.

  Nothing here takes the warning level or the path format as an input except `Diag.run`'s filter
  (`Diag.shown`) — that is the content of C16 for this model (theorems `C16_main_*`).

  Fragment: as `Pipeline` (follow-imports 0, no starred import); an uncaught exception of the
  pipeline is `Except.error` whatever the configuration (under `--strict` the real run may exit at
  an earlier error before it gets there: the harness does not compare such cases).
-/
import RattrModel.Pipeline
import RattrModel.Diag

namespace Rattr.MainRun
open Rattr Rattr.Pipeline Rattr.FnA Rattr.RootCtx
open Rattr.FileA (Outcome)

def levelOf : Rattr.Level → Diag.Level
  | .info => .info | .warning => .warning | .error => .error | .fatal => .fatal

/-- the default `badness` of the level functions (`Generated.C15.diagDefaults`). -/
def weight : Diag.Level → Nat
  | .info => 0 | .warning => 1 | .error => 5 | .fatal => 0

def weightTable : List (String × Nat) :=
  [("info", weight .info), ("warning", weight .warning), ("error", weight .error), ("fatal", weight .fatal)]

def eventOf (loc : Diag.Where) (d : Rattr.Diag) : Diag.Event :=
  ⟨levelOf d.lvl, weight (levelOf d.lvl), loc⟩

/-- what the analysis would emit and print if nothing exited. -/
structure Staged where
  /-- root context + file walk: `state.current_file` is the target -/
  analysis : List Rattr.Diag
  /-- result generation: no current file -/
  simpl : List Rattr.Diag
  /-- the document `show_results` prints (`none`: a fatal diagnostic ended the pipeline) -/
  doc : Option ResultsDoc
  deriving Repr

/-- `Pipeline.runWith`, the phases kept apart. `Except.error`: an uncaught exception. -/
def stagedWith (ord : List CallSym → List CallSym) (env : Env) (mn : Str) (f : Facts) (builtins : List Str)
    (body : List Top) (imp : ImpFacts := []) : Except Str Staged :=
  match RootCtx.compile f builtins body with
  | .fatal r _ => .ok ⟨r.diags, [], none⟩
  | .crash _ e => .error e
  | .ok r =>
    if hasStarred r.ctx then .error "Outside:starred-import".toList
    else
      match FileA.analyseWith env mn f r.ctx body with
      | .fatal s _ => .ok ⟨r.diags ++ s.diags, [], none⟩
      | .crash _ e => .error e
      | .ok s =>
        match results ord f imp s.ir with
        | .ok (doc, ds) => .ok ⟨r.diags ++ s.diags, ds, some doc⟩
        | .fatal ds _ => .ok ⟨r.diags ++ s.diags, ds, none⟩
        | .crash e => .error e

def staged (env : Env) (mn : Str) (f : Facts) (builtins : List Str) (body : List Top) (imp : ImpFacts := []) :
    Except Str Staged :=
  stagedWith id env mn f builtins body imp

/-- the event list `main` hands to the diagnostics machinery, in emission order. -/
def events (st : Staged) : List Diag.Event :=
  st.analysis.map (eventOf .target) ++ st.simpl.map (eventOf .none)

structure Result where
  /-- buckets, printed (level, place) lines, exit status, "reaches the output" -/
  diag : Diag.Result
  /-- stdout: the results document, iff the run reaches `show_results` -/
  stdout : Option ResultsDoc
  deriving Repr

def mainOf (cfg : Diag.Cfg) (st : Staged) : Result :=
  let r := Diag.run cfg (events st)
  ⟨r, if r.output then st.doc else none⟩

/-- `python -m rattr <options> --follow-imports 0 <file>` -/
def mainWith (cfg : Diag.Cfg) (ord : List CallSym → List CallSym) (env : Env) (mn : Str) (f : Facts)
    (builtins : List Str) (body : List Top) (imp : ImpFacts := []) : Except Str Result :=
  (stagedWith ord env mn f builtins body imp).map (mainOf cfg)

def main (cfg : Diag.Cfg) (env : Env) (mn : Str) (f : Facts) (builtins : List Str) (body : List Top)
    (imp : ImpFacts := []) : Except Str Result :=
  mainWith cfg id env mn f builtins body imp

end Rattr.MainRun

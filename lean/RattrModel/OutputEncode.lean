/-
  RattrModel.OutputEncode — the last step of a successful run: a serialised document is handed to a
  text stream with an ENCODING (C07, round 4).

  `rattr/__main__.py`: `print(serialise(results, indent=4))` (`show_results`, `show_cacheable_results`),
  `print(serialised)` (`show_ir`), `cache_file.write_text(serialise(results, indent=4))` (`write_cache_file`;
  only `OSError` is turned into a `fatal:` — `UnicodeEncodeError` is a `ValueError`).
  `rattr/models/util/serialise.py::serialise(model, **kwargs)` is `converter.dumps(model, **kwargs)`, i.e.
  `json.dumps` with the caller's keywords; no caller passes `ensure_ascii`, so json's default `True`
  is in force (Tie A: `Generated.C07.serialiseSites = pinnedSerialiseSites`).

  A Python `str` is a list of CODE POINTS (`Nat`, `< 0x110000`): lone surrogates are legal in a `str`
  (`getattr(o, "\ud83d")` names the attribute `o.\ud83d`) and are exactly what no UTF codec encodes, so
  Lean's `Char` (scalar values only) cannot stand for them.
-/
import RattrModel.Basic

namespace Rattr.OutEnc

/-- a Python `str` as code points -/
abbrev PyStr := List Nat

def isSurrogate (n : Nat) : Bool := 0xD800 ≤ n && n ≤ 0xDFFF

def hexDigit (n : Nat) : Nat := if n < 10 then 48 + n else 87 + n

/-- `'\\u{0:04x}'.format(n)` for `n < 65536` -/
def hex4 (n : Nat) : PyStr :=
  [92, 117, hexDigit (n / 4096 % 16), hexDigit (n / 256 % 16), hexDigit (n / 16 % 16), hexDigit (n % 16)]

/-- the short escapes shared by both encoders: `"` `\` `\n` `\r` `\t` `\b` `\f` -/
def shortEscape (n : Nat) : Option PyStr :=
  if n = 34 then some [92, 34]
  else if n = 92 then some [92, 92]
  else if n = 10 then some [92, 110]
  else if n = 13 then some [92, 114]
  else if n = 9 then some [92, 116]
  else if n = 8 then some [92, 98]
  else if n = 12 then some [92, 102]
  else none

/-- `json.encoder.py_encode_basestring_ascii` (`ensure_ascii=True`), one code point: everything outside
`' '..'~'` becomes `\uXXXX` (a surrogate PAIR of escapes above the BMP; a lone surrogate is `< 65536`
and is written as its own escape). -/
def escAscii (n : Nat) : PyStr :=
  match shortEscape n with
  | some e => e
  | none =>
    if n < 32 ∨ 126 < n then
      if n < 65536 then hex4 n
      else hex4 (55296 + (n - 65536) / 1024 % 1024) ++ hex4 (56320 + (n - 65536) % 1024)
    else [n]

/-- `json.encoder.py_encode_basestring` (`ensure_ascii=False`): the short escapes and `\u00XX` for the
other control characters; every other code point is copied. -/
def escRaw (n : Nat) : PyStr :=
  match shortEscape n with
  | some e => e
  | none => if n < 32 then hex4 n else [n]

/-- `json.dumps(s, ensure_ascii=ea)` of one `str` -/
def dumpStr (ea : Bool) (s : PyStr) : PyStr :=
  34 :: (s.flatMap (if ea then escAscii else escRaw) ++ [34])

/-- a serialised document, as the stream sees it: structural text produced by `json` itself (brackets, commas,
colons, the indentation, numbers, `true` / `false` / `null` — ASCII by construction) and dumped strings
(keys and values: names, file names, module names). -/
inductive Tok where
  | punct (ascii : PyStr)
  | str (s : PyStr)
  deriving Repr, DecidableEq

def PunctAscii : List Tok → Bool
  | [] => true
  | .punct p :: r => p.all (· < 128) && PunctAscii r
  | .str _ :: r => PunctAscii r

def render (ea : Bool) : List Tok → PyStr
  | [] => []
  | .punct p :: r => p ++ render ea r
  | .str s :: r => dumpStr ea s ++ render ea r

/-- the stream encodings of the environments exercised (`PYTHONIOENCODING`, locale) -/
inductive Codec where
  | ascii | latin1 | utf8
  deriving Repr, DecidableEq

/-- `chr(n).encode(codec)` succeeds (error handler `strict`, the one of stdout and of `write_text`) -/
def encodable : Codec → Nat → Bool
  | .ascii, n => n < 128
  | .latin1, n => n < 256
  | .utf8, n => n < 0x110000 && !isSurrogate n

def writable (c : Codec) (s : PyStr) : Bool := s.all (encodable c)

inductive Outcome where
  | written
  | raised (exc : String)
  deriving Repr, DecidableEq

/-- `print(text)` / `path.write_text(text)` on a stream with encoding `c` -/
def write (c : Codec) (text : PyStr) : Outcome :=
  if writable c text then .written else .raised "UnicodeEncodeError"

/-- `print(serialise(doc, …))` with json's `ensure_ascii = ea` -/
def emit (c : Codec) (ea : Bool) (doc : List Tok) : Outcome := write c (render ea doc)

/-- `ensure_ascii` as `serialise` passes it on: the callers' keywords are `indent=4` or nothing (Tie A), so the
default of `json.dumps`. -/
def pinnedEnsureAscii : Bool := true

/-- Tie A: `serialise` and everything between it and the stream, (site, `ast.unparse`), in source order: the body
of `serialise` / `serialise_irs`, every call of them and of `dumps` with its keywords, the `print` / `write_text`
statements of the four output functions. -/
def pinnedSerialiseSites : List (String × String) :=
  [("models.util.serialise.serialise:body", "return __json_converter.dumps(model, **kwargs)"),
   ("models.util.serialise.serialise_irs:body", "return serialise(OutputIrs(import_irs=import_irs, target_ir={'filename': target_name, 'ir': target_ir}), indent=4)"),
   ("models.util.serialise.serialise_irs:call", "serialise(<1 positional>, indent=)"),
   ("__main__.show_ir:body", "serialised = serialise_irs(target_name=str(file), target_ir=file_ir, import_irs=import_irs)"),
   ("__main__.show_ir:body", "print(serialised)"),
   ("__main__.show_ir:call", "serialise_irs(<0 positional>, target_name=, target_ir=, import_irs=)"),
   ("__main__.show_cacheable_results:body", "print(serialise(results, indent=4))"),
   ("__main__.show_cacheable_results:call", "serialise(<1 positional>, indent=)"),
   ("__main__.show_results:body", "print(serialise(results, indent=4))"),
   ("__main__.show_results:call", "serialise(<1 positional>, indent=)"),
   ("__main__.write_cache_file:call", "serialise(<1 positional>, indent=)")]

/-- the one non-ASCII character rattr itself prints on an analysis run: `threshold_or_inf` of `show_stats` (K26) -/
def statsInfinity : PyStr := [0x221E]

/-- Tie A: every non-ASCII string constant of rattr's code (docstrings excluded): `show_stats` (K26) and two
`--help` texts (argparse exits are outside the oracle). -/
def pinnedNonAsciiConstants : List (String × String) :=
  [("__main__.py::show_stats", "U+221E"),
   ("cli/_arguments.py::add_permissiveness_arguments", "U+221E"),
   ("cli/parser.py::make_cli_parser", "U+2764 U+FE0F")]

end Rattr.OutEnc

/-
  RattrModel.ResolveLocal — `find_call_target_and_ir` for a call whose target is a `Func` or a `Class`
  symbol, i.e. a LOCAL call (the callee is defined in the file the call is written in), over the whole
  environment of a multi-file analysis (`rattr/results/_find_call_target.py`):

      resolve_function / resolve_class_init  →  __resolve_target_and_ir(call, environment)
        symbol = __resolve_real_class_target(target) if target is a Class else target
        if __is_defined_in(symbol, environment.target_ir):  return target_ir[symbol]
        module = derive_module_name_from_path(symbol.location.defined_in)      (None → ModuleNotFoundError)
        module_ir = environment.import_irs.get(module)                          (None → ImportError)
        if symbol not in module_ir: raise ImportError
        return module_ir[symbol]

  This is the code path a call takes that sits INSIDE a followed module and calls that module's own
  helper / class (C06: "… chains across several modules": the callee's callees must be the ones the
  single-file version has).  The point of the model: equality of `Func` / `Class` symbols ignores the
  location (`location: … eq=False`), so "is this symbol a key of that FileIr" (`in`, `[...]`) is a
  lookup up to name + interface — a same-named, same-signature definition of ANOTHER file answers it
  too.  The code that exists compares `location.defined_in` in `__is_defined_in` and prefers the
  same-file candidate in `__resolve_real_class_target`.

  Every `raise` is an explicit outcome.  `derive_module_name_from_path` (C13) is data (`moduleOf`).
-/
import RattrModel.Basic

namespace Rattr.ResolveLocal

inductive DKind where
  | func
  | cls
  deriving DecidableEq, Repr

/-- A `Func` / `Class` symbol: what attrs' `__eq__` / `__hash__` see (`kind`, `name`, `iface`) and the
file of `location.defined_in` (excluded from equality). -/
structure DSym where
  kind : DKind
  name : Str
  /-- everything else `__eq__` compares (the call interface; `is_async` for a `Func`), as one key -/
  iface : Str
  /-- `location.defined_in` -/
  file : Str
  deriving DecidableEq, Repr

/-- `a == b` on the real symbols -/
def DSym.eqv (a b : DSym) : Bool := a.kind == b.kind && a.name == b.name && a.iface == b.iface

/-- the keys of a `FileIr`, in iteration (insertion) order -/
abbrev FileKeys := List DSym

structure Env where
  /-- `environment.target_ir` -/
  target : FileKeys
  /-- `environment.import_irs`, in insertion order: module name ↦ keys -/
  imports : Dict Str FileKeys
  /-- `derive_module_name_from_path(file)` (absent: `None`) -/
  moduleOf : Dict Str Str

/-- `__is_defined_in(symbol, file_ir)` -/
def isDefinedIn (sy : DSym) (ir : FileKeys) : Bool := ir.any fun o => sy.eqv o && sy.file == o.file

/-- `symbol in file_ir` / `file_ir[symbol]`: the key equal to the symbol (dict lookup by `__eq__`) -/
def lookup (ir : FileKeys) (sy : DSym) : Option DSym := ir.find? fun o => sy.eqv o

/-- every key of the environment, target first, then the imports in order -/
def allKeys (env : Env) : List DSym := env.target ++ env.imports.flatMap (·.2)

/-- `__resolve_real_class_target(target)` -/
def realClass (env : Env) (t : DSym) : DSym :=
  let candidates := (allKeys env).filter fun o => o.kind == .cls && o.name == t.name
  match candidates.find? (fun o => o.file == t.file) with
  | some o => o
  | none => t

inductive Err where
  /-- `ImportError` (module not analysed / symbol not a key of its module's IR) -/
  | importError
  /-- `ModuleNotFoundError` (no module name for the file) -/
  | moduleNotFound
  /-- `target_ir[symbol]` would raise (shown unreachable: `resolve_keyError_unreachable`) -/
  | keyError
  deriving DecidableEq, Repr

/-- which IR is returned: the target's or module `module`'s, under key `key` -/
structure Found where
  inTarget : Bool
  module : Str
  key : DSym
  deriving DecidableEq, Repr

/-- the symbol whose IR is looked up: the "real" class for a `Class` target, the target itself otherwise -/
def effective (env : Env) (t : DSym) : DSym := if t.kind = .cls then realClass env t else t

/-- the body of `__resolve_target_and_ir` after the symbol is fixed -/
def resolveSym (env : Env) (sy : DSym) : Except Err Found :=
  if isDefinedIn sy env.target then
    match lookup env.target sy with
    | some k => .ok { inTarget := true, module := [], key := k }
    | none => .error .keyError
  else
    match Dict.get? env.moduleOf sy.file with
    | none => .error .moduleNotFound
    | some m =>
      match Dict.get? env.imports m with
      | none => .error .importError
      | some ir =>
        match lookup ir sy with
        | none => .error .importError
        | some k => .ok { inTarget := false, module := m, key := k }

/-- `__resolve_target_and_ir` -/
def resolveTargetAndIr (env : Env) (t : DSym) : Except Err Found := resolveSym env (effective env t)

/-- Executable well-formedness of an environment (the hypotheses of the module-local theorem,
`Rattr.C06.LocalWF`): the target's keys are pairwise different under `==`; each key of module `m`'s
IR is defined in a file whose module is `m`; different files have different module names. -/
def localWFb (env : Env) : Bool :=
  (env.target.all fun a => env.target.all fun b => !(a.eqv b) || decide (a = b))
  && (env.imports.all fun e => e.2.all fun k => decide (Dict.get? env.moduleOf k.file = some e.1))
  && (env.moduleOf.all fun x => env.moduleOf.all fun y => decide (x.2 = y.2 → x.1 = y.1))

end Rattr.ResolveLocal

/-
  RattrModel.CacheRun — the parts of a run with a cache file (C19) that `RattrModel.Cache` /
  `RattrModel.CacheDeps` still took as parameters or left out, modelled from the code:

    * the DIAGNOSTICS of the gate (`target_cache_file_is_up_to_date`): each `return False` is preceded
      by one `error.<level>(…)` call, whose default `badness` is booked by `Config.increment_badness`
      — at that point `state.current_file is None`, so under `badness_from_simplification`, which IS
      part of `State.badness` — and `error.error` with positive badness is fatal at once under
      `--strict` (rattr/error/error.py);
    * the STRICTNESS options (`--strict`, `--threshold N`, un-hashed) and
      `Config.is_within_badness_threshold`, checked in `main` after the analysis and BEFORE
      `write_cache_file`: `Analysis.fails` is no longer a parameter but
      `stage fails ∨ ¬ within (gate badness + analysis badness) limit` (`AnalysisB.toAnalysis`);
    * a file system with SYMBOLIC LINKS (`LinkFs`): a module's origin is the path found on the search
      path (`find_module_in_path` resolves the search directory only), the analyser and
      `hash_file_content` both `open()` that path, i.e. read THROUGH the link; edits happen to real
      files (and are seen through every link to them), links are re-pointed;
    * whatever may happen to the cache file between two runs (`Damage`: removed, bytes that are not
      JSON, bytes on which `read_text` / `deserialise` raise);
    * `main` over histories of all of these (`OpX`, `stepX`).

  With the levels of the real code (`GateLevels.real`: `info` three times, badness 0) a run on a
  damaged cache file IS a run without one, under every strictness setting — a theorem
  (RattrProofs/Props/C19: `C19_damaged_as_absent`, `C19_damaged_then_hit`); with any level of positive
  badness it is not (`C19_cex_malformed_warning`).
-/
import RattrModel.CacheDeps

namespace Rattr.CacheRun
open Rattr Rattr.Cache Rattr.CacheDeps

/-! ## 1. Diagnostics and badness -/

/-- The non-fatal diagnostic functions of `rattr/error/error.py`. -/
inductive Level where
  | info | warning | error
  deriving DecidableEq, Repr

/-- Default of the `badness` parameter of `error.info` / `error.warning` / `error.error` (Tie A:
`Generated.C19.errorDefaultBadness`). -/
def Level.badness : Level → Nat
  | .info => 0
  | .warning => 1
  | .error => 5

def Level.name : Level → String
  | .info => "info"
  | .warning => "warning"
  | .error => "error"

/-- The table `Level.badness` stands for (Tie A). `fatal` takes a `badness` too, never used. -/
def defaultBadnessTable : List (String × Nat) :=
  [("info", 0), ("warning", 1), ("error", 5), ("fatal", 0)]

/-- `--strict` / `--threshold N` (mutually exclusive; neither = `--threshold 0`). -/
inductive Limit where
  | strict
  | threshold (n : Nat)
  deriving DecidableEq, Repr

/-- `Config.is_within_badness_threshold`: strict ⇒ `badness <= 0`; threshold 0 is infinite. -/
def within (b : Nat) : Limit → Bool
  | .strict => decide (b ≤ 0)
  | .threshold 0 => true
  | .threshold (n + 1) => decide (b ≤ n + 1)

/-- Statement-level shape of `is_within_badness_threshold`, of `State.badness` and of
`Config.increment_badness` (Tie A). -/
def withinShape : List String :=
  ["if self.arguments.is_strict:return self.state.badness <= 0",
   "if self.arguments.threshold == 0:return True",
   "return self.state.badness <= self.arguments.threshold"]

def badnessShape : List String :=
  ["badness:return self.badness_from_target_file + self.badness_from_simplification"]

def incrementShape : List String :=
  ["if badness < 0:raise ValueError(\"'badness' must be positive integer\")",
   "if not self.state.is_in_any_file:|    self.state.badness_from_simplification += badness|elif self.is_in_target_file:|    self.state.badness_from_target_file += badness|else:|    self.state.badness_from_imports += badness"]

/-- The statement of `error.error` that makes it fatal under `--strict` (Tie A). -/
def strictErrorShape : List String :=
  ["if badness > 0 and config.arguments.is_strict:fatal(message, culprit)"]

/-- `error.<level>(…)` with the default badness, under strictness `lim`: is it fatal at once? -/
def Level.fatalUnder (l : Level) (lim : Limit) : Bool :=
  match l, lim with
  | .error, .strict => decide (0 < Level.error.badness)
  | _, _ => false

/-- Which diagnostic function the gate calls before each `return False`. -/
structure GateLevels where
  /-- `if not isfile(target)` -/
  noTarget : Level
  /-- `if not isfile(cache_filepath)` -/
  noCache : Level
  /-- `except Exception` around `read_text` / `deserialise` -/
  malformed : Level
  deriving DecidableEq, Repr

/-- The gate as it is: `error.info` three times. -/
def GateLevels.real : GateLevels := { noTarget := .info, noCache := .info, malformed := .info }

/-- The `error.*` calls of the gate in source order: `<enclosing test>:<level>:<badness argument>`
(Tie A: `Generated.C19.gateDiagnostics`). -/
def gateDiagnosticsShape : List String :=
  ["if not isfile(target):info:default", "if not isfile(cache_filepath):info:default",
   "except Exception:info:default"]

/-- Where `main` checks the badness: after gate and analysis, before the write (Tie A). -/
def mainBadnessShape : List String :=
  ["call:target_cache_file_is_up_to_date", "call:parse_and_analyse_file",
   "if not config.is_within_badness_threshold:fatal", "call:write_cache_file"]

variable {P H O X R : Type}

/-- The diagnostic the gate emits on its way to `return False` (none on the way to the comparison). -/
def gateDiag [DecidableEq P] [DecidableEq H] [DecidableEq O] (G : GateLevels)
    (D : Dir P H) (w : World P H O X) (f : CacheFile P H O R) : Option Level :=
  if D.isFile w.target then
    match f with
    | .absent => some G.noCache
    | .malformed => some G.malformed
    | .crashing e => if isCaught caughtExceptions e then some G.malformed else none
    | .valid _ => none
  else some G.noTarget

def diagBadness : Option Level → Nat
  | none => 0
  | some l => l.badness

def diagFatal (lim : Limit) : Option Level → Bool
  | none => false
  | some l => l.fatalUnder lim

/-! ## 2. The analysis with its badness -/

/-- As `Cache.Analysis`, with `fails` taken apart: `stageFails w` = the run ends in `error.fatal`
(or a traceback) for a reason other than the badness check — the import stage does not complete;
`badness w` = `State.badness` the analysis of `w` itself accumulates (target + simplification
buckets; diagnostics arising in followed imports are not counted); `limit` = the strictness option
in force (part of the un-hashed options `X`). -/
structure AnalysisB (P H O X R : Type) where
  fresh : World P H O X → R
  recorded : World P H O X → List P
  readSet : World P H O X → List P
  stageFails : World P H O X → Bool
  badness : World P H O X → Nat
  limit : X → Limit

/-- The `Cache.Analysis` seen by `main` when `g` points of badness were booked before the analysis
started (by the gate's diagnostic). -/
def AnalysisB.toAnalysis (A : AnalysisB P H O X R) (g : Nat) : Analysis P H O X R :=
  { fresh := A.fresh
    recorded := A.recorded
    readSet := A.readSet
    fails := fun w => A.stageFails w || !within (g + A.badness w) (A.limit w.other) }

section run
variable [DecidableEq P] [DecidableEq H] [DecidableEq O]

/-- `main` with `--cache-file`, without `-r`: gate (with its diagnostic), analysis, badness check,
write. -/
def runB (G : GateLevels) (D : Dir P H) (A : AnalysisB P H O X R) (s : State P H O X R) :
    State P H O X R × Out :=
  match gate D s.world s.disk with
  | .fresh => (s, .hit)
  | .crash e => (s, .crash e)
  | .stale =>
    if diagFatal (A.limit s.world.other) (gateDiag G D s.world s.disk) then (s, .missFatal)
    else analyse D (A.toAnalysis (diagBadness (gateDiag G D s.world s.disk))) s

/-- `main` with `-r`: the file is unlinked, the gate is not consulted. -/
def refreshB (D : Dir P H) (A : AnalysisB P H O X R) (s : State P H O X R) :
    State P H O X R × Out :=
  analyse D (A.toAnalysis 0) { s with disk := .absent }

/-- `main` without `--cache-file` (the from-scratch run): no gate, nothing written. `true` = exit 0. -/
def plainRunOk (A : AnalysisB P H O X R) (w : World P H O X) : Bool :=
  !(A.toAnalysis 0).fails w

end run

/-! ## 3. Files behind symbolic links -/

/-- Regular files by their real path, and where every path leads (`resolve p = p` for a path that
is not, and does not go through, a symbolic link). -/
structure LinkFs (P H : Type) where
  files : P → H
  resolve : P → P

/-- What `open(p).read()` returns. -/
def LinkFs.view (fs : LinkFs P H) : P → H := fun p => fs.files (fs.resolve p)

/-- An editor writes the regular file with real path `q`. -/
def LinkFs.write [DecidableEq P] (fs : LinkFs P H) (q : P) (c : H) : LinkFs P H :=
  { fs with files := fun r => if r = q then c else fs.files r }

def lookupP [DecidableEq P] (p : P) : List (P × P) → Option P
  | [] => none
  | (a, b) :: r => if a = p then some b else lookupP p r

/-- Links are re-pointed (`ln -sfn`): every listed path now leads to the given real path. A
directory link is the list of the paths below it. -/
def LinkFs.relink [DecidableEq P] (fs : LinkFs P H) (ps : List (P × P)) : LinkFs P H :=
  { fs with resolve := fun p => (lookupP p ps).getD (fs.resolve p) }

/-! ## 4. `main` over histories with links, damage and strictness -/

/-- What can happen to the cache file behind rattr's back (a crash during the non-atomic
`write_text`, an editor, another tool): afterwards it does not read back as a document. -/
inductive Damage where
  | removed
  | notJson
  | raises (e : StructErr)
  deriving DecidableEq, Repr

def Damage.toFile : Damage → CacheFile P H O R
  | .removed => .absent
  | .notJson => .malformed
  | .raises e => .crashing e

inductive OpX (P H O X : Type) where
  /-- the regular file with REAL path `q` gets content `c` (seen through every link to it) -/
  | write (q : P) (c : H)
  | relink (ps : List (P × P))
  | setOptions (o : O) (x : X)
  | damage (d : Damage)
  | runWithCache
  | forceRefresh
  deriving DecidableEq, Repr

structure StateX (P H O X R : Type) where
  fs : LinkFs P H
  st : State P H O X R

section machineX
variable [DecidableEq P] [DecidableEq H] [DecidableEq O]
variable (G : GateLevels) (D : Dir P H) (A : AnalysisB P H O X R)

def StateX.withFs (s : StateX P H O X R) (fs : LinkFs P H) : StateX P H O X R :=
  { fs := fs, st := { s.st with world := { s.st.world with contents := fs.view } } }

def stepX (s : StateX P H O X R) : OpX P H O X → StateX P H O X R × Out
  | .write q c => (s.withFs (s.fs.write q c), .noRun)
  | .relink ps => (s.withFs (s.fs.relink ps), .noRun)
  | .setOptions o x =>
    ({ s with st := { s.st with world := { s.st.world with opts := o, other := x } } }, .noRun)
  | .damage d => ({ s with st := { s.st with disk := d.toFile } }, .noRun)
  | .runWithCache => ({ s with st := (runB G D A s.st).1 }, (runB G D A s.st).2)
  | .forceRefresh => ({ s with st := (refreshB D A s.st).1 }, (refreshB D A s.st).2)

def execX (s : StateX P H O X R) : List (OpX P H O X) → StateX P H O X R
  | [] => s
  | o :: os => execX (stepX G D A s o).1 os

def outsX (s : StateX P H O X R) : List (OpX P H O X) → List Out
  | [] => []
  | o :: os => (stepX G D A s o).2 :: outsX (stepX G D A s o).1 os

/-- Ghost state: the world of the last run that wrote the cache. -/
def lastWrittenX (init : Option (World P H O X)) (s : StateX P H O X R) :
    List (OpX P H O X) → Option (World P H O X)
  | [] => init
  | o :: os =>
    lastWrittenX (if (stepX G D A s o).2 = .missWritten then some s.st.world else init)
      (stepX G D A s o).1 os

end machineX

/-! ## 5. The instance with the modelled dependency computation -/

section deps
variable {ω : Type} [DecidableEq ω] [DecidableEq H]

/-- `CacheDeps.depsAnalysis` with the badness taken apart. -/
def depsAnalysisB (S : Static ω H) (D : Dir ω H) (freshP : W ω H X → R)
    (badnessP : W ω H X → Nat) (limitP : X → Limit) : AnalysisB ω H ArgsKey X R :=
  { fresh := freshP
    recorded := recorded S D
    readSet := readSet S D
    stageFails := fun w => !(run S D w).isDone
    badness := badnessP
    limit := limitP }

/-- A variant of `make_cacheable_import_info` that looks only at the contexts of the analysed
modules satisfying `keep` (NOT the code: `keep = fun _ => true` is; used to state what goes wrong
when a module's context is left out — e.g. because its `FileIr`, a mapping, is empty and thus
falsy). -/
def recordedKeep (keep : Str → Bool) (S : Static ω H) (D : Dir ω H) (w : W ω H X) : List ω :=
  recordedOf (graphOf S D w) S.builtins (symsOf S D w w.target)
    ((run S D w).state.analysed.filter keep)

end deps

end Rattr.CacheRun

/-
  RattrModel.Results — model of result generation (stage S6):
    rattr/results/util.py      generate_results_from_ir, make_target_ir_call_tree,
                               destructively_simplify_ir_call_tree, post_order_traversal_queue
    rattr/results/_types.py    IrCallTreeNode.new  (copies the IR *dict*, shares the four *sets*)
    rattr/results/_simplify_utils.py   unbind_ir_with_call_swaps, unbind_name

  Aliasing is modelled, not idealised: a tree node does not own an IR. It holds the key of a
  function and every `|=` goes to one global `Store : Key → IrSets`, because in the code the sets
  of a node ARE the sets of the FileIr. A later root reads whatever earlier roots left there.

  Parameters supplied per case by the harness (computed with the real code):
    * `P.resolve cid`  — what `find_call_target_and_ir` answers for each distinct Call symbol,
    * `cid`            — the equality class of a Call symbol under Python `==` (what `seen` holds),
    * the iteration order of every `calls` set (list order).
-/
import RattrModel.Basic
import RattrModel.Swaps

namespace Rattr

/-- rattr `Name`: equality and hash are on `(name, basename)`. -/
structure NameS where
  full : Str
  base : Str
  deriving DecidableEq, Repr

abbrev Key := Nat

structure CallRec where
  cid  : Nat            -- equality class of the Call symbol
  name : Str            -- `Call.id` (= name without call brackets): the sort key of edges_out
  args : CallArgs Str
  deriving DecidableEq, Repr

/-- The three mutable sets of a FunctionIr (lists standing for sets). `calls` is never mutated by
result generation, so it is not part of the store. -/
structure IrSets where
  gets : List NameS
  sets : List NameS
  dels : List NameS
  deriving DecidableEq, Repr

def IrSets.empty : IrSets := ⟨[], [], []⟩

structure FnInfo where
  iface : Iface Str
  calls : List CallRec      -- in the set's iteration order
  deriving Repr

/-- A program as result generation sees it. -/
structure Prog where
  fns     : List FnInfo               -- Key = index
  resolve : Nat → Option Key          -- by Call-symbol equality class
  tuple   : Str := ['@', 'T', 'u', 'p', 'l', 'e']
  dict    : Str := ['@', 'D', 'i', 'c', 't']

abbrev Store := Key → IrSets

def Store.update (σ : Store) (k : Key) (v : IrSets) : Store := fun j => if j = k then v else σ j

namespace Results

def si (P : Prog) : StandIns Str := { tuple := P.tuple, dict := P.dict }

def fnAt (P : Prog) (k : Key) : FnInfo :=
  (P.fns[k]?).getD { iface := ⟨[], [], none, [], none⟩, calls := [] }

/-- Python set union `a |= b`, as lists: keep `a`, append what is new. -/
def union (a b : List NameS) : List NameS := a ++ b.filter (fun x => !a.contains x)

/-! ### unbind -/

/-- `unbind_name(symbol, new_basename)`; `none` = `raise ValueError("never")`. -/
def unbindName (n : NameS) (newBase : Str) : Option NameS :=
  if n.base = newBase then some n
  else
    let starred := n.full.head? = some '*'
    let old := if starred then '*' :: n.base else n.base
    let new := if starred then '*' :: newBase else newBase
    if old.isPrefixOf n.full then some ⟨new ++ n.full.drop old.length, newBase⟩ else none

def unbindList (sw : Dict Str Str) : List NameS → Option (List NameS)
  | [] => some []
  | n :: r =>
    match unbindName n ((Dict.get? sw n.base).getD n.base), unbindList sw r with
    | some n', some r' => some (n' :: r')
    | _, _ => none

/-- `unbind_ir_with_call_swaps` on the three sets. -/
def unbindIr (sw : Dict Str Str) (ir : IrSets) : Option IrSets :=
  match unbindList sw ir.gets, unbindList sw ir.sets, unbindList sw ir.dels with
  | some g, some s, some d => some ⟨g, s, d⟩
  | _, _, _ => none

/-! ### call tree (BFS) -/

/-- Stable insertion sort by `name` (Python `sorted(..., key=lambda c: c.id)`; `<` on `str` is
lexicographic on code points). -/
def strLt : Str → Str → Bool
  | [], [] => false
  | [], _ :: _ => true
  | _ :: _, [] => false
  | a :: as, b :: bs => if a.toNat < b.toNat then true else if b.toNat < a.toNat then false else strLt as bs

/-- insert `c` in front of an already sorted list of LATER elements: it goes before the first
element whose key is not smaller, so equal keys keep their input order (stable). -/
def insertCall (c : CallRec) : List CallRec → List CallRec
  | [] => [c]
  | d :: r => if strLt d.name c.name then d :: insertCall c r else c :: d :: r

def sortCalls (cs : List CallRec) : List CallRec := cs.foldr insertCall []

structure Node where
  key    : Key
  edgeIn : Option CallRec
  parent : Option Nat       -- index in BFS (= creation) order
  deriving Repr

structure BfsState where
  nodes : List Node         -- creation order = BFS order (FIFO queue, children appended on creation)
  seen  : List Nat

/-- Process the out-edges of node `i`. -/
def expand (P : Prog) (i : Nat) : List CallRec → BfsState → BfsState
  | [], st => st
  | c :: r, st =>
    if st.seen.contains c.cid then expand P i r st
    else match P.resolve c.cid with
      | none => expand P i r st
      | some g =>
        expand P i r { nodes := st.nodes ++ [{ key := g, edgeIn := some c, parent := some i }],
                       seen := c.cid :: st.seen }

/-- BFS loop: process node `i`, `i+1`, … until the node list is exhausted or fuel runs out.
`none` = out of fuel. -/
def bfs (P : Prog) : Nat → Nat → BfsState → Option BfsState
  | 0, i, st => if i < st.nodes.length then none else some st
  | fuel + 1, i, st =>
    match st.nodes[i]? with
    | none => some st
    | some n => bfs P fuel (i + 1) (expand P i (sortCalls (fnAt P n.key).calls) st)

def totalCalls (P : Prog) : Nat := (P.fns.map (fun f => f.calls.length)).sum

/-- `make_target_ir_call_tree(root)`. -/
def callTree (P : Prog) (root : Key) : Option (List Node) :=
  (bfs P (totalCalls P + 1) 0 { nodes := [{ key := root, edgeIn := none, parent := none }], seen := [] }).map (·.nodes)

/-! ### destructive fold -/

/-- one `for child in node.children` step: parent store entry `|=` unbound child entry. -/
def foldChild (P : Prog) (parentKey : Key) (σ : Store) (child : Node) : Option Store :=
  match child.edgeIn with
  | none => some σ
  | some c =>
    let sw := (Swaps.construct (si P) (fnAt P child.key).iface c.args).1
    match unbindIr sw (σ child.key) with
    | none => none
    | some u =>
      let p := σ parentKey
      some (σ.update parentKey ⟨union p.gets u.gets, union p.sets u.sets, union p.dels u.dels⟩)

def foldChildren (P : Prog) (parentKey : Key) : List Node → Store → Option Store
  | [], σ => some σ
  | ch :: r, σ => match foldChild P parentKey σ ch with
    | none => none
    | some σ' => foldChildren P parentKey r σ'

def childrenOf (nodes : List Node) (i : Nat) : List Node :=
  nodes.filter (fun n => n.parent = some i)

/-- nodes in reversed BFS order; for each, its children in creation order. -/
def foldTree (P : Prog) (nodes : List Node) : List Nat → Store → Option Store
  | [], σ => some σ
  | i :: r, σ =>
    match nodes[i]? with
    | none => foldTree P nodes r σ
    | some n => match foldChildren P n.key (childrenOf nodes i) σ with
      | none => none
      | some σ' => foldTree P nodes r σ'

inductive Out (α : Type) where
  | ok (a : α)
  | outOfFuel
  | never          -- `raise ValueError("never")` in unbind_name
  deriving Repr

/-- one root: build the tree, fold it; result = the root's store entry afterwards. -/
def runRoot (P : Prog) (σ : Store) (root : Key) : Out (IrSets × Store) :=
  match callTree P root with
  | none => .outOfFuel
  | some nodes =>
    match foldTree P nodes (List.range nodes.length).reverse σ with
    | none => .never
    | some σ' => .ok (σ' root, σ')

/-- `generate_results_from_ir`: roots in `order` (iteration order of `target_ir`), one shared
store. Returns the per-root results (in order) and the final store. -/
def generate (P : Prog) : List Key → Store → Out (List (Key × IrSets) × Store)
  | [], σ => .ok ([], σ)
  | f :: r, σ =>
    match runRoot P σ f with
    | .outOfFuel => .outOfFuel
    | .never => .never
    | .ok (res, σ') =>
      match generate P r σ' with
      | .ok (rs, σ'') => .ok ((f, res) :: rs, σ'')
      | .outOfFuel => .outOfFuel
      | .never => .never

end Results
end Rattr

/-
  RattrModel.NodeNaming — both naming code paths on `Node`:
    * `namesOf safe`        = rattr/ast/_util.py   names_of (+ get_python_attr_access_fn_obj_attr_pair)
    * `oldNames safe`       = rattr/analyser/util.py get_basename_fullname_pair (+ get_xattr_obj_name_pair)
  Outcomes distinguish a value, `error.fatal` (SystemExit) and a raised Python exception.
-/
import RattrModel.Ast
import RattrModel.Context

namespace Rattr
open Rattr.Strs

inductive NameRes where
  | ok (base full : Str)
  | fatal (d : Diag)
  | crash (exc : Str)
  deriving DecidableEq, Repr

def xattrBuiltins : List Str := ["delattr".toList, "getattr".toList, "hasattr".toList, "setattr".toList]
def astLiterals : List Str :=
  ["JoinedStr".toList, "List".toList, "Tuple".toList, "Set".toList, "Dict".toList]
def astComprehensions : List Str :=
  ["ListComp".toList, "SetComp".toList, "GeneratorExp".toList, "DictComp".toList]

/-- `__specific_name_error(node)` / the error ladder of the old namer: exception class name. -/
def specificNameError (n : Node) : Str :=
  let k := n.className
  if k = "UnaryOp".toList then "RattrUnaryOpInNameable".toList
  else if k = "BinOp".toList then "RattrBinOpInNameable".toList
  else if k = "Constant".toList then "RattrConstantInNameable".toList
  else if astLiterals.contains k then "RattrLiteralInNameable".toList
  else if astComprehensions.contains k then "RattrComprehensionInNameable".toList
  else "TypeError".toList

def safeName (n : Node) : Str := '@' :: n.className

/-- `is_call_to_fn(node, target)` / `is_call_to(target, node)` for a node known to be a Call:
direct call to the bare name `fn`. -/
def isCallTo (fn : Str) : Node → Bool
  | .call (.name id _) _ _ _ => id = fn
  | _ => false

def isCall : Node → Bool
  | .call .. => true
  | _ => false

mutual
/-- `names_of(node, safe=safe)` with the default `unravel_attr_access_calls=True`. -/
def namesOf (safe : Bool) : Node → NameRes
  | .name id _ => .ok id id
  | .call f args _ _ =>
    match namesOf safe f with
    | .ok base lhs =>
      if xattrBuiltins.contains base then
        match xattrPairNew base args with
        | .ok obj attr => .ok base (obj ++ '.' :: attr)
        | .fatal d => .fatal d
        | .crash e => .crash e
      else .ok base (lhs ++ lit "()")
    | r => r
  | .attr v a _ =>
    match namesOf safe v with
    | .ok base lhs => .ok base (lhs ++ '.' :: a)
    | r => r
  | .sub v _ _ =>
    match namesOf safe v with
    | .ok base lhs => .ok base (lhs ++ lit "[]")
    | r => r
  | .starred v _ =>
    match namesOf safe v with
    | .ok base lhs => .ok base ('*' :: lhs)
    | r => r
  | n => if safe then .ok (safeName n) (safeName n) else .crash (specificNameError n)

/-- `get_python_attr_access_fn_obj_attr_pair(fn, call)` given the call's positional args; result
`ok obj attr`. -/
def xattrPairNew (fn : Str) : List Node → NameRes
  | obj :: nameArg :: _ =>
    -- `_, varname = names_of(name, safe=True)`
    match namesOf true nameArg with
    | .ok _ varname =>
      let attr : Str := match nameArg with
        | .strConst s => s
        | _ => '<' :: varname ++ ['>']
      match obj with
      | .call (.name id _) oargs _ _ =>
        if id = fn then
          match xattrPairNew fn oargs with
          | .ok o a => .ok (o ++ '.' :: a) attr
          | r => r
        else .fatal (mkDiag .fatal "xattr-nested" fn)
      | .call _ _ _ _ => .fatal (mkDiag .fatal "xattr-nested" fn)
      | o =>
        match namesOf false o with
        | .ok _ lhs => .ok lhs attr
        | r => r
    | r => r
  | _ => .fatal (mkDiag .fatal "xattr-too-few" fn)
end

def fullnameOf (safe : Bool) (n : Node) : NameRes := namesOf safe n

/-- `fullname_of(node, unravel_attr_access_calls=False, safe=True)` then `without_call_brackets`:
the flag only affects the OUTERMOST call (the recursive `names_of(node.func)` uses the default). -/
def targetNameNoUnravel (n : Node) : NameRes :=
  match n with
  | .call f _ _ _ =>
    match namesOf true f with
    | .ok base lhs => .ok base (withoutCallBrackets (lhs ++ lit "()"))
    | r => r
  | _ =>
    match namesOf true n with
    | .ok base full => .ok base (withoutCallBrackets full)
    | r => r

mutual
/-- `get_basename_fullname_pair(node, safe)` (deprecated namer; used for call-argument spellings). -/
def oldNames (safe : Bool) : Node → NameRes
  | .name id _ => .ok id id
  | .call f args kwn kwv =>
    match oldNames safe f with
    | .ok base sub =>
      if xattrBuiltins.any (fun x => isCallTo x (.call f args kwn kwv)) then
        match xattrPairOld base args with
        | .ok o a => .ok base (o ++ '.' :: a)
        | r => r
      else .ok base (sub ++ lit "()")
    | r => r
  | .attr v a _ =>
    match oldNames safe v with
    | .ok base sub => .ok base (sub ++ '.' :: a)
    | r => r
  | .sub v _ _ =>
    match oldNames safe v with
    | .ok base sub => .ok base (sub ++ lit "[]")
    | r => r
  | .starred v _ =>
    match oldNames safe v with
    | .ok base sub => .ok base ('*' :: sub)
    | r => r
  | n => if safe then .ok (safeName n) (safeName n) else .crash (specificNameError n)

/-- `get_xattr_obj_name_pair(xattr, call, warn=False)` on the call's positional args. -/
def xattrPairOld (xattr : Str) : List Node → NameRes
  | obj :: attrArg :: _ =>
    let attrName : NameRes := match attrArg with
      | .strConst s => .ok [] s
      | a => match oldNames true a with
        | .ok _ full => .ok [] ('<' :: full ++ ['>'])
        | r => r
    match attrName with
    | .ok _ an =>
      match obj with
      | .call (.name id _) oargs _ _ =>
        if id = xattr then
          match xattrPairOld xattr oargs with
          | .ok o a => .ok (o ++ '.' :: a) an
          | r => r
        else .fatal (mkDiag .fatal "xattr-nested-old" xattr)
      | .call _ _ _ _ => .fatal (mkDiag .fatal "xattr-nested-old" xattr)
      | o =>
        if o.isNameable then
          match oldNames false o with
          | .ok _ full => .ok full an
          | r => r
        else .crash "TypeError".toList
    | r => r
  | _ => .fatal (mkDiag .fatal "xattr-too-few-old" xattr)
end

end Rattr

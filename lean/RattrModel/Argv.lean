/-
  RattrModel.Argv — argparse's TOKENISER (CPython 3.12 `ArgumentParser._parse_known_args`), the part
  of `parse_args` that `RattrModel.Cli` trusted: every spelling argparse accepts for an option.

  What is modelled (as the code is):
    * `_parse_optional` (`parseOptional`): exact option string; `flag=value` split at the first `=`;
      `_get_option_tuples` (`optionTuples`): unambiguous long-option prefixes (`--conf`,
      `--conf=x`; `allow_abbrev`), a single-dash string as short option + attached rest (`-cFILE`,
      `-Hc`); several candidates = "ambiguous option" (raised in the pre-scan, before any action);
      negative-number-like strings and strings with a space are arguments; anything else that
      starts with `-` is an unknown optional (→ extras → "unrecognized arguments");
    * `--`: everything after it is an argument ('A'); the `--` itself is a '-' in the pattern, which
      the positional's `(-*A-*)` absorbs when it is adjacent, and which is an extra otherwise;
      an option never takes its value across a `--` (`(A)`);
    * `consume_optional` (`expandGo`, `runE`): an explicit argument on a zero-argument single-dash
      option continues as a cluster of short options (`-HTc FILE`, `-HcFILE`); on a double-dash
      zero-argument option, or when the next letter is no option, "ignored explicit argument";
      an explicit argument on a one-argument option IS its value, whatever it looks like
      (`--exclude=-x` works, `--exclude -x` does not); the value match of the last option of a
      cluster happens BEFORE the actions of the cluster are taken;
    * `-h --help` (not in the regenerated action table) takes part in prefix matching and clusters:
      `helpOpt`, a print-and-exit action like `-v --version`.
  `parseArgumentsX` is `Cli.parseArguments` with this tokeniser in all three parses.  On the
  canonical fragment of `Cli.lean` the two coincide (`RattrProofs.Props.C20`: `runE_canon`,
  `tokenise_canon`, `parseX_canon`).

  Still trusted: the codec between a token's text and an integer for non-canonical decimals
  (`+5`, `05`, `1_000`, ` 5`), non-ASCII digits in the negative-number test, `@file` arguments
  (`Generated.C20.noFromFile`), and argparse for MORE than one positional (`tieA_one_positional`).
-/
import RattrModel.Cli

namespace Rattr.Cli
open Rattr

/-! ### Text codec (canonical decimals) -/

def natOfDigits (s : Str) : Nat := s.foldl (fun n c => 10 * n + (c.toNat - 48)) 0

/-- `0`, or a digit string without a leading zero. -/
def canonNat (s : Str) : Bool := !s.isEmpty && s.all Char.isDigit && (s.length == 1 || s.head? != some '0')

/-- A piece of an argv string as a `Text`: the canonical decimal of an integer, or a word. -/
def Text.ofStr (s : Str) : Text :=
  match s with
  | '-' :: r => if canonNat r && r != ['0'] then .num (-(natOfDigits r : Int)) else .word s
  | _ => if canonNat s then .num (natOfDigits s : Int) else .word s

/-! ### `_parse_optional` -/

/-- `_option_string_actions.keys()` -/
def allFlags (p : Parser) : List Str := p.flatMap (·.flags)

/-- `s.split('=', 1)` when `'=' in s`. -/
def splitEq : Str → Option (Str × Str)
  | [] => none
  | c :: r =>
    if c = '=' then some ([], r)
    else match splitEq r with
      | some (a, b) => some (c :: a, b)
      | none => none

/-- `_negative_number_matcher` = `^-\d+$|^-\d*\.\d+$` (ASCII digits). -/
def negLike : Str → Bool
  | '-' :: r =>
    (!r.isEmpty && r.all Char.isDigit) ||
    (match r.dropWhile Char.isDigit with
     | '.' :: d => !d.isEmpty && d.all Char.isDigit
     | _ => false)
  | _ => false

/-- `_has_negative_number_optionals` -/
def hasNegLikeFlags (p : Parser) : Bool := (allFlags p).any negLike

/-- `_get_option_tuples`: (option string, explicit argument) candidates. -/
def optionTuples (p : Parser) (s : Str) : List (Str × Option Str) :=
  match s with
  | '-' :: '-' :: _ =>
    let pe : Str × Option Str := match splitEq s with
      | some (a, b) => (a, some b)
      | none => (s, none)
    (allFlags p).filterMap fun f => if pe.1.isPrefixOf f then some (f, pe.2) else none
  | '-' :: c :: rest =>
    (allFlags p).filterMap fun f =>
      if f = ['-', c] then some (f, some rest)
      else if s.isPrefixOf f then some (f, none)
      else none
  | _ => []

/-- The verdict of `_parse_optional` on one argv string. -/
inductive Cls where
  | arg                                                  -- `None`: 'A'
  | opt (o : Opt) (flag : Str) (explicit : Option Str)   -- (action, option_string, explicit_arg)
  | unknown                                              -- (None, arg_string, None): 'O', goes to extras
  | ambiguous                                            -- self.error("ambiguous option: …")
  deriving DecidableEq, Repr

def parseOptional (p : Parser) (s : Str) : Cls :=
  match s with
  | [] => .arg
  | c :: _ =>
    if c != '-' then .arg
    else match findFlag p s with
      | some o => .opt o s none
      | none =>
        if s.length == 1 then .arg
        else
          let viaEq : Option Cls := match splitEq s with
            | some (a, b) => (match findFlag p a with
                | some o => some (.opt o a (some b))
                | none => none)
            | none => none
          match viaEq with
          | some r => r
          | none =>
            match optionTuples p s with
            | _ :: _ :: _ => .ambiguous
            | [(f, ex)] => (match findFlag p f with
                | some o => .opt o f ex
                | none => .unknown)           -- unreachable: f ∈ allFlags p
            | [] =>
              if negLike s && !hasNegLikeFlags p then .arg
              else if s.contains ' ' then .arg
              else .unknown

/-! ### The pre-scan: `arg_strings_pattern` -/

inductive ETok where
  | opt (o : Opt) (flag : Str) (explicit : Option Str)   -- 'O', recognised
  | arg (t : Text)                                       -- 'A'
  | unknown                                              -- 'O', not recognised
  | dd                                                   -- '-': the `--`
  deriving DecidableEq, Repr

/-- One argv string before any `--`.  A canonical decimal is an argument: a non-negative one does
not start with `-`; a negative one is negative-number-like and no option string looks like a
negative number (`tieA_negative_numbers`; with such an option the model gives up: `unsupported`). -/
def classify (hp : Parser) : Text → Except ArgErr ETok
  | .num i => if hasNegLikeFlags hp then .error .unsupported else .ok (.arg (.num i))
  | .word s =>
    match parseOptional hp s with
    | .arg => .ok (.arg (.word s))
    | .opt o f ex => .ok (.opt o f ex)
    | .unknown => .ok .unknown
    | .ambiguous => .error .ambiguousOption

def tokenise (hp : Parser) : List Text → Except ArgErr (List ETok)
  | [] => .ok []
  | t :: rest =>
    if t = .word ['-', '-'] then .ok (.dd :: rest.map .arg)
    else
      match classify hp t with
      | .error e => .error e
      | .ok k =>
        match tokenise hp rest with
        | .error e => .error e
        | .ok ks => .ok (k :: ks)

/-! ### `consume_optional` -/

/-- nargs=None: exactly one argument. -/
def takesArg (o : Opt) : Bool := o.action == .store || o.action == .append

/-- The explicit-argument loop of `consume_optional`, entered with explicit argument `x`:
(zero-argument options of the cluster so far, the last option, its explicit argument). -/
def expandGo (hp : Parser) : List Opt → Opt → Str → Str → Except ArgErr (List Opt × Opt × Option Str)
  | pre, o, flag, x =>
    if o.action == .unsupported then .error .unsupported
    else if takesArg o then .ok (pre, o, some x)            -- arg_count == 1
    else
      match x with
      | [] => .error (.ignoredExplicitArgument o.dest)       -- `--strict=`, `-H=`
      | c :: x' =>
        if flag.getD 1 '-' != '-' then                       -- single-dash option: the rest is a cluster
          match findFlag hp ['-', c] with
          | some o' =>
            if x'.isEmpty then .ok (pre ++ [o], o', none)
            else expandGo hp (pre ++ [o]) o' ['-', c] x'
          | none => .error (.ignoredExplicitArgument o.dest)
        else .error (.ignoredExplicitArgument o.dest)        -- `--strict=1`

def expand (hp : Parser) (o : Opt) (flag : Str) : Option Str → Except ArgErr (List Opt × Opt × Option Str)
  | none => .ok ([], o, none)
  | some x => expandGo hp [] o flag x

/-- `take_action(action, [])` of a zero-argument action. -/
def zeroArg (p : Parser) (o : Opt) (st : St) : Except ArgErr St :=
  match o.action with
  | .storeTrue => takeAction p o none st
  | .version => .error .versionExit
  | _ => .error .unsupported

def zeroArgs (p : Parser) : List Opt → St → Except ArgErr St
  | [], st => .ok st
  | o :: os, st =>
    match zeroArg p o st with
    | .error e => .error e
    | .ok st' => zeroArgs p os st'

/-- `_parse_known_args`' main loop over the classified strings (one positional at most is consumed
per `consume_positionals`; `p` is the parser, `hp` the parser with its help action). -/
def runE (p hp : Parser) : (toks : List ETok) → St → Except ArgErr St
  | [], st => .ok st
  | .unknown :: rest, st => runE p hp rest { st with extras := true }
  | .arg t :: .dd :: rest, st =>
    match nextPositional p st.seen with
    | none => runE p hp rest { st with extras := true }   -- the argument and the `--` are both extras
    | some o =>
      match takeAction p o (some t) st with
      | .error e => .error e
      | .ok st' => runE p hp rest st'                  -- `(-*A-*)` absorbs the adjacent `--`
  | .arg t :: rest, st =>
    match nextPositional p st.seen with
    | none => runE p hp rest { st with extras := true }
    | some o =>
      match takeAction p o (some t) st with
      | .error e => .error e
      | .ok st' => runE p hp rest st'
  | .dd :: .arg t :: rest, st =>
    match nextPositional p st.seen with
    | none => runE p hp rest { st with extras := true }   -- the `--` and the argument are both extras
    | some o =>                                          -- `(-*A-*)` on `-A`
      match takeAction p o (some t) st with
      | .error e => .error e
      | .ok st' => runE p hp rest st'
  | .dd :: rest, st => runE p hp rest { st with extras := true }
  | .opt o flag ex :: rest, st =>
    match expand hp o flag ex with
    | .error e => .error e
    | .ok (pre, o', ex') =>
      match o'.action with
      | .storeTrue =>
        match zeroArgs p pre st with
        | .error e => .error e
        | .ok st₁ =>
          match takeAction p o' none st₁ with
          | .error e => .error e
          | .ok st' => runE p hp rest st'
      | .version =>
        match zeroArgs p pre st with
        | .error e => .error e
        | .ok _ => .error .versionExit
      | .unsupported => .error .unsupported
      | _ =>
        match ex' with
        | some x =>
          match zeroArgs p pre st with
          | .error e => .error e
          | .ok st₁ =>
            match takeAction p o' (some (Text.ofStr x)) st₁ with
            | .error e => .error e
            | .ok st' => runE p hp rest st'
        | none =>
          match rest with
          | .arg t :: rest' =>
            match zeroArgs p pre st with
            | .error e => .error e
            | .ok st₁ =>
              match takeAction p o' (some t) st₁ with
              | .error e => .error e
              | .ok st' => runE p hp rest' st'
          | _ => .error (.expectedOneArgument o'.dest)
termination_by structural toks => toks

/-! ### The parsers with their help action, and `parse_arguments` over raw argv -/

/-- `-h --help`: prints and exits like `-v --version` (same observable outcome through
`rattr.cli._argparse.ArgumentParser.exit`). -/
def helpOpt (flags : List Str) : Opt :=
  { flags := flags, dest := str "help", action := .version, vtype := .noType, default := .suppress,
    choices := none, required := false, mutex := none }

def withHelp (p : Parser) (flags : List String) : Parser :=
  if flags.isEmpty then p else p ++ [helpOpt (flags.map str)]

def cliParserH : Parser := withHelp cliParser Generated.C20.cliHelpFlags
def tomlParserH : Parser := withHelp tomlParser Generated.C20.tomlHelpFlags

/-- `parser.parse_args(args=argv, namespace=ns)` with argparse's own tokeniser. -/
def parseX (p hp : Parser) (argv : List Text) (ns : Namespace) : Except ArgErr Namespace :=
  match tokenise hp argv with
  | .error e => .error e
  | .ok toks =>
    match runE p hp toks { ns := applyDefaults p ns, seen := [], seenND := [], extras := false } with
    | .error e => .error e
    | .ok st => finish p st

/-- `parse_arguments(sys_args=argv, project_toml_conf=inputConf, exit_on_error=…)`, any spelling. -/
def parseArgumentsX (w : World) (inputConf : Option Toml) (argv : List Text) (exitOnError : Bool) : Outcome :=
  match parseX cliParser cliParserH argv [] with
  | .error e => .cliError e
  | .ok ns0 =>
    let raw : Except TomlFail Toml :=
      match inputConf with
      | some (kv :: c) => .ok (kv :: c)
      | _ =>
        match selectFile (getOverride w ns0) (findPyproject w) with
        | none => .ok []
        | some .decodeError => .error .decode
        | some (.table c) => .ok c
    match raw with
    | .error e => tomlErr exitOnError e
    | .ok conf =>
      match validateToml tomlTypeMap conf with
      | .error e => tomlErr exitOnError e
      | .ok conf =>
        match parseX tomlParser tomlParserH (translate tomlNameMap conf) [] with
        | .error e => tomlErr exitOnError (.arg e)
        | .ok ns1 =>
          match parseX cliParser cliParserH argv ns1 with
          | .error e => .cliError e
          | .ok ns => .ok ns

/-! ### The normalised option list (what the command line SAYS, spelling removed) -/

/-- Occurrences in order: (dest, value) per option occurrence; `none` for a zero-argument option
and for a one-argument option whose value is missing.  Free arguments, unknown optionals and
`--` are not option occurrences.  Stops at a cluster error. -/
def occurrences (hp : Parser) : List ETok → List (Str × Option Text)
  | [] => []
  | .arg _ :: rest => occurrences hp rest
  | .unknown :: rest => occurrences hp rest
  | .dd :: rest => occurrences hp rest
  | .opt o flag ex :: rest =>
    match expand hp o flag ex with
    | .error _ => []
    | .ok (pre, o', ex') =>
      let head := pre.map fun a => (a.dest, (none : Option Text))
      if takesArg o' then
        match ex' with
        | some x => head ++ (o'.dest, some (Text.ofStr x)) :: occurrences hp rest
        | none =>
          match rest with
          | .arg t :: rest' => head ++ (o'.dest, some t) :: occurrences hp rest'
          | _ => head ++ [(o'.dest, none)]
      else head ++ (o'.dest, none) :: occurrences hp rest

end Rattr.Cli

/-
  RattrModel.Match — `match` statements (Python ≥ 3.10) as `FunctionAnalyser` sees them.

  `FunctionAnalyser` has NO dedicated visitor for `Match`, `match_case` or any of the eight pattern
  node classes (Tie A: `Generated.C01.functionAnalyserVisitors`, theorem `tieA_no_match_visitor`), so
  every one of them goes through `ast.NodeVisitor.generic_visit`: children in `_fields` order, list
  items in order, `None` and non-AST fields (capture names, `kwd_attrs`, `rest`, the value of a
  `MatchSingleton`) skipped.  The typed layer below says exactly which `Node.other` tree a pattern
  is (`Match.node`), which expressions a pattern evaluates (`Match.loads`: value patterns, the class
  of a class pattern, the keys of a mapping pattern) and which names it binds (`Match.captures`).

  Consequences of the code that exists (proved in RattrProofs/Props/C01.lean):
    * visiting a pattern = visiting its `loads`, in order, whatever capture / `as` / star / or /
      sequence / mapping / class structure is wrapped around them;
    * the names a pattern binds are never added to the context (a use of a captured name in the
      guard or the body is diagnosed "potentially undefined").
-/
import RattrModel.Ast

namespace Rattr

/-- `ast.pattern`. An optional sub-pattern is `[]` / `[p]` (as `annAssign`'s optional value). -/
inductive Pat where
  | value (e : Node)                                                    -- MatchValue(value)
  | singleton                                                           -- MatchSingleton(None | True | False)
  | sequence (ps : List Pat)                                            -- MatchSequence(patterns)
  | mapping (keys : List Node) (ps : List Pat) (rest : Option Str)      -- MatchMapping(keys, patterns, rest)
  | cls (c : Node) (ps : List Pat) (kwAttrs : List Str) (kwPs : List Pat) -- MatchClass(cls, patterns, kwd_attrs, kwd_patterns)
  | star (name : Option Str)                                            -- MatchStar(name)
  | as_ (p : List Pat) (name : Option Str)                              -- MatchAs(pattern, name): capture / wildcard / `p as n`
  | or_ (ps : List Pat)                                                 -- MatchOr(patterns)
  deriving Repr

/-- `ast.match_case(pattern, guard, body)`; `guard` is `[]` / `[g]`. -/
structure MatchCase where
  pat   : Pat
  guard : List Node
  body  : List Node
  deriving Repr

namespace Match

/-- the node classes of a `match` statement (none has a visitor in `FunctionAnalyser`). -/
def kinds : List String :=
  ["Match", "match_case", "MatchValue", "MatchSingleton", "MatchSequence", "MatchMapping", "MatchClass",
   "MatchStar", "MatchAs", "MatchOr"]

mutual
/-- the pattern as `generic_visit` walks it. -/
def node : Pat → Node
  | .value e => .other "MatchValue".toList [e]
  | .singleton => .other "MatchSingleton".toList []
  | .sequence ps => .other "MatchSequence".toList (nodes ps)
  | .mapping keys ps _ => .other "MatchMapping".toList (keys ++ nodes ps)
  | .cls c ps _ kwPs => .other "MatchClass".toList (c :: (nodes ps ++ nodes kwPs))
  | .star _ => .other "MatchStar".toList []
  | .as_ p _ => .other "MatchAs".toList (nodes p)
  | .or_ ps => .other "MatchOr".toList (nodes ps)
def nodes : List Pat → List Node
  | [] => []
  | p :: r => node p :: nodes r
end

def caseNode (c : MatchCase) : Node := .other "match_case".toList (node c.pat :: (c.guard ++ c.body))

def caseNodes : List MatchCase → List Node
  | [] => []
  | c :: r => caseNode c :: caseNodes r

/-- `match <subject>: <cases>` -/
def stmt (subject : Node) (cases : List MatchCase) : Node :=
  .other "Match".toList (subject :: caseNodes cases)

mutual
/-- SPEC: the expressions a pattern evaluates, in source order. -/
def loads : Pat → List Node
  | .value e => [e]
  | .singleton => []
  | .sequence ps => loadsL ps
  | .mapping keys ps _ => keys ++ loadsL ps
  | .cls c ps _ kwPs => c :: (loadsL ps ++ loadsL kwPs)
  | .star _ => []
  | .as_ p _ => loadsL p
  | .or_ ps => loadsL ps
def loadsL : List Pat → List Node
  | [] => []
  | p :: r => loads p ++ loadsL r
end

mutual
/-- SPEC: the names a pattern binds (captures, star captures, `as` names, `**rest`). -/
def captures : Pat → List Str
  | .value _ => []
  | .singleton => []
  | .sequence ps => capturesL ps
  | .mapping _ ps rest => capturesL ps ++ rest.toList
  | .cls _ ps _ kwPs => capturesL ps ++ capturesL kwPs
  | .star name => name.toList
  | .as_ p name => capturesL p ++ name.toList
  | .or_ ps => capturesL ps
def capturesL : List Pat → List Str
  | [] => []
  | p :: r => captures p ++ capturesL r
end

/-- everything one case evaluates: pattern loads, guard, body. -/
def caseParts (c : MatchCase) : List Node := loads c.pat ++ (c.guard ++ c.body)

def casesParts : List MatchCase → List Node
  | [] => []
  | c :: r => caseParts c ++ casesParts r

/-- every `visit_*` attribute of `FunctionAnalyser` (`dir()`, so `ast.NodeVisitor.visit_Constant` is in
it): the node classes `RattrModel/FnAnalyser.lean::visit` has a dedicated case for, plus the helper
visitors those cases call. Everything else — all of `kinds` above — is `Node.other`. Tie A:
`Generated.C01.functionAnalyserVisitors`. -/
def dedicatedVisitors : List String :=
  ["visit_AnnAssign", "visit_AnyAssign", "visit_AnyFunctionDef", "visit_Assign", "visit_AsyncFor",
   "visit_AsyncFunctionDef", "visit_AsyncWith", "visit_Attribute", "visit_AugAssign", "visit_Call",
   "visit_ClassAssign", "visit_ClassDef", "visit_Constant", "visit_Delete", "visit_DictComp", "visit_For",
   "visit_FunctionDef", "visit_GeneratorExp", "visit_Global", "visit_Import", "visit_ImportFrom",
   "visit_Lambda", "visit_LambdaAssign", "visit_ListComp", "visit_Name", "visit_NamedExpr",
   "visit_NamedTupleAssign", "visit_Nonlocal", "visit_Return", "visit_ReturnValue", "visit_SetComp",
   "visit_Starred", "visit_Subscript", "visit_With", "visit_call_to_target_with_custom_analyser",
   "visit_compound_name", "visit_comprehension"]

/-- `"visit_" + classname`: the method `ast.NodeVisitor.visit` dispatches a node to. -/
def visitorOf (kind : String) : String := "visit_" ++ kind

end Match
end Rattr

/-
  RattrModel.DiagSites — where diagnostics come from, and who may look at the verbosity options.

  Two hand-written tables about the SOURCE of rattr, both tied to the code on every run (Tie A:
  `Generated.C16.verbosityReaders`, `Generated.C16.diagSites`; theorems in Props/C16.lean):

  * `allowedReaders`  the code locations that may observe `-w / -H / -T` (the filter, the renderer,
                      the option definitions). Anything else reading them makes the analysis depend
                      on the verbosity.
  * `classOf`         for every call of a level function (`error.info|warning|error|fatal(…)`): in
                      which phase of `main` it runs, hence what `state.current_file` — the `Where`
                      of the model's `Event` — can be when it fires (`SiteClass.wheres`).

  The harness taps every diagnostic with its call site and demands `where ∈ (classOf site).wheres`
  (correspondence), uses `programReachable` as the denominator of its coverage report and searches
  the programs that reach a function that newly reads a verbosity option.
-/
import RattrModel.Diag

namespace Rattr.DiagSites
open Rattr.Diag

/-- Code locations allowed to observe the verbosity / path-format options: the error module's
logging functions (filter + renderer), the `Arguments` / `Config` properties that define the
options, the CLI argument definitions, and the re-export in `rattr/error/__init__.py`. -/
def allowedReaders : List (String × String) :=
  [ ("rattr/error/error.py", "info"), ("rattr/error/error.py", "warning"),
    ("rattr/error/error.py", "error"), ("rattr/error/error.py", "fatal"),
    ("rattr/error/error.py", "rattr"),
    ("rattr/error/error.py", "get_file_and_line_info"),
    ("rattr/error/error.py", "__file_info"), ("rattr/error/error.py", "__line_info"),
    ("rattr/error/error.py", "__log"),
    ("rattr/error/__init__.py", "<module>"),
    ("rattr/config/_types.py", "Arguments.show_warnings"),
    ("rattr/config/_types.py", "Arguments.format_path"),
    ("rattr/config/_types.py", "Config.do_not_show_warnings"),
    ("rattr/config/_types.py", "Config.use_full_path"),
    ("rattr/config/_types.py", "Config.get_formatted_path"),
    ("rattr/config/_types.py", "Config.formatted_current_file_path"),
    ("rattr/config/_types.py", "Config.formatted_target_path"),
    ("rattr/cli/_arguments.py", "add_warning_level_argument"),
    ("rattr/cli/_arguments.py", "add_format_path_arguments") ]

/-- The phase of `main` a diagnostic call site belongs to. -/
inductive SiteClass
  /-- argument / configuration validation: before `main`, no file entered -/
  | configuration
  /-- cache-file handling at the start of `main` -/
  | cache
  /-- inside `with enter_file(f)`: root context, starred-import expansion, file / class / function
  analysers (of the target and of every followed import) -/
  | analysis
  /-- `parse_and_analyse_imports`' own loop: runs inside the target's `enter_file` -/
  | importLoop
  /-- `generate_results_from_ir`: no current file -/
  | simplification
  /-- the threshold gate of `main`: no current file -/
  | gate
  /-- behind a condition the callers never satisfy -/
  | dead
  deriving DecidableEq, Repr

def SiteClass.name : SiteClass → String
  | .configuration => "configuration" | .cache => "cache" | .analysis => "analysis"
  | .importLoop => "importLoop" | .simplification => "simplification" | .gate => "gate"
  | .dead => "dead"

/-- What `increment_badness` / the filter can see as the place of a diagnostic of this class. -/
def SiteClass.wheres : SiteClass → List Where
  | .configuration => [.none]
  | .cache => [.none]
  | .analysis => [.target, .import_]
  | .importLoop => [.target]
  | .simplification => [.none]
  | .gate => [.none]
  | .dead => []

/-- Classes an analysed program (rather than the command line) makes fire. -/
def SiteClass.programReachable : SiteClass → Bool
  | .analysis | .simplification | .gate => true
  | _ => false

abbrev Site := String × String × String × Nat     -- file, enclosing function, level, k-th such call

/-- the class of every function that contains a diagnostic call site -/
def fnClass : List (String × String × SiteClass) :=
  [ ("rattr/__main__.py", "main", .gate),
    ("rattr/__main__.py", "write_cache_file", .gate),          -- since bcdf6de: an unwritable -C path is a fatal
    ("rattr/analyser/cls.py", "init_method_or_none", .analysis),
    ("rattr/analyser/file.py", "parse_and_analyse_imports", .importLoop),
    ("rattr/analyser/file.py", "FileAnalyser.visit_AnyFunctionDef", .analysis),
    ("rattr/analyser/file.py", "FileAnalyser.visit_LambdaAssign", .analysis),
    ("rattr/analyser/file.py", "FileAnalyser.visit_NamedTupleAssign", .analysis),
    ("rattr/analyser/file.py", "FileAnalyser.visit_Lambda", .analysis),
    ("rattr/analyser/function.py", "FunctionAnalyser.get_and_verify_name", .analysis),
    ("rattr/analyser/function.py", "FunctionAnalyser.visit_Call", .analysis),
    ("rattr/analyser/function.py", "FunctionAnalyser.visit_LambdaAssign", .analysis),
    ("rattr/analyser/function.py", "FunctionAnalyser.visit_NamedTupleAssign", .analysis),
    ("rattr/analyser/function.py", "FunctionAnalyser.visit_ClassAssign", .analysis),
    ("rattr/analyser/function.py", "FunctionAnalyser.visit_AnyFunctionDef", .analysis),
    ("rattr/analyser/function.py", "FunctionAnalyser.visit_ClassDef", .analysis),
    ("rattr/analyser/function.py", "FunctionAnalyser.visit_Global", .analysis),
    ("rattr/analyser/function.py", "FunctionAnalyser.visit_Nonlocal", .analysis),
    ("rattr/analyser/function.py", "FunctionAnalyser.visit_Import", .analysis),
    ("rattr/analyser/function.py", "FunctionAnalyser.visit_ImportFrom", .analysis),
    ("rattr/analyser/util.py", "get_xattr_obj_name_pair", .analysis),
    ("rattr/analyser/util.py", "get_annotation", .analysis),
    ("rattr/analyser/util.py", "safe_eval", .analysis),
    ("rattr/analyser/util.py", "parse_rattr_results_from_annotation_args_impl", .analysis),
    ("rattr/analyser/util.py", "parse_rattr_results_from_annotation", .analysis),
    ("rattr/analyser/util.py", "get_namedtuple_attrs_from_call", .dead),     -- deprecated, no caller
    ("rattr/ast/_util.py", "get_python_attr_access_fn_obj_attr_pair", .analysis),
    ("rattr/cli/_validate.py", "validate_arguments", .configuration),
    ("rattr/config/_util.py", "validate_arguments", .configuration),
    ("rattr/config/util.py", "find_xdg_cache_dir", .configuration),
    ("rattr/models/context/_context.py", "Context.get_call_target", .analysis),
    ("rattr/models/context/_context.py", "Context.expand_starred_imports", .analysis),
    ("rattr/models/context/_root_context.py", "RootContextBuilder.visit_Import", .analysis),
    ("rattr/models/context/_root_context.py", "RootContextBuilder.visit_starred_relative_import", .analysis),
    ("rattr/models/context/_root_context.py", "RootContextBuilder.visit_relative_import", .analysis),
    -- a non-relative `from … import` always has a module: `node.module is None` cannot hold
    ("rattr/models/context/_root_context.py", "RootContextBuilder.visit_starred_import", .dead),
    ("rattr/models/context/_root_context.py", "RootContextBuilder.visit_named_import", .dead),
    ("rattr/models/context/_root_context.py", "RootContextBuilder.visit_assignment", .analysis),
    ("rattr/models/context/_root_context.py", "RootContextBuilder.visit_Delete", .analysis),
    ("rattr/models/context/_root_context.py", "RootContextBuilder.visit_Expr", .analysis),
    ("rattr/models/context/_root_context.py", "make_import_symbol", .analysis),
    ("rattr/models/context/_root_context.py", "error_starred_import_outside_init", .analysis),
    ("rattr/models/results/util.py", "target_cache_file_is_up_to_date", .cache),
    ("rattr/models/symbol/_util.py", "arg_name", .analysis),
    ("rattr/models/symbol/_util.py", "kwarg_name", .dead),                   -- caller filters `kw.arg is None`
    ("rattr/results/_find_call_target.py", "resolve_function", .simplification),
    ("rattr/results/_find_call_target.py", "resolve_class_init", .simplification),
    ("rattr/results/_find_call_target.py", "resolve_import", .simplification),
    ("rattr/results/_simplify_utils.py", "construct_call_swaps", .simplification) ]

/-- single sites whose class differs from their function's -/
def siteOverride : List (Site × SiteClass) :=
  [ (("rattr/__main__.py", "main", "info", 0), .cache),                      -- "cache is up-to-date"
    -- `error.fatal("unable to find lambda in rhs")  # never`
    (("rattr/analyser/function.py", "FunctionAnalyser.visit_LambdaAssign", "fatal", 1), .dead),
    -- `warn` is never passed as True
    (("rattr/ast/_util.py", "get_python_attr_access_fn_obj_attr_pair", "error", 0), .dead),
    -- `target is None` has returned before
    (("rattr/models/context/_context.py", "Context.get_call_target", "error", 4), .dead) ]

def lookup2 (f fn : String) : List (String × String × SiteClass) → Option SiteClass
  | [] => none
  | (a, b, c) :: r => if a = f ∧ b = fn then some c else lookup2 f fn r

def lookupSite (s : Site) : List (Site × SiteClass) → Option SiteClass
  | [] => none
  | (t, c) :: r => if t = s then some c else lookupSite s r

def classOf (s : Site) : Option SiteClass :=
  match lookupSite s siteOverride with
  | some c => some c
  | none => lookup2 s.1 s.2.1 fnClass

end Rattr.DiagSites

/-
  RattrModel.FileAnalyser — model of `rattr/analyser/file.py::FileAnalyser` and
  `rattr/analyser/cls.py::ClassAnalyser` (stage S4).

  Both are `ast.NodeVisitor`s: a node kind without a dedicated `visit_*` is `generic_visit`ed
  (all children, in field order).  Every analysed body goes through `FnA.analyse` with the context
  AS IT IS AT THAT MOMENT (the context object is shared and mutated while the file is walked).

  Fragment notes (enforced by the harness encoder, see py/props/filelib.py):
    * `Func.is_async` is not part of `Sym`; two FileIr keys that differ only in it are outside;
    * a `def` / `class` nested inside a compound statement of a CLASS BODY is generic-visited by
      `ClassAnalyser` including its decorators / defaults / keywords, which `Top` / `Node` do not
      carry: outside;
    * `plugins.has_analyser(fn)` for a module-level `def` is true only in a module that is itself
      called like a plugin target (`collections.defaultdict`): explicit outcome `customOnDef`.
-/
import RattrModel.RootContext

namespace Rattr
open Rattr.Strs Rattr.FnA Rattr.RootCtx

/-- a `FunctionIr` (sets as duplicate-free lists in insertion order) -/
structure IR where
  gets : List NameS := []
  sets : List NameS := []
  dels : List NameS := []
  calls : List CallSym := []
  deriving DecidableEq, Repr

namespace FileA

def irOf (s : St) : IR := ⟨s.gets, s.sets, s.dels, s.calls⟩

/-- state of the file walk: the shared context, the `FileIr` (insertion-ordered dict keyed by the
symbol), the diagnostics so far. -/
structure FState where
  ctx : Context
  ir : Dict Sym IR := []
  diags : List Diag := []
  deriving Repr

inductive FOut where
  | ok (s : FState)
  | fatal (s : FState) (d : Diag)
  | crash (s : FState) (exc : Str)
  deriving Repr

def fbind (r : FOut) (f : FState → FOut) : FOut :=
  match r with
  | .ok s => f s
  | r => r

infixl:55 " >>>- " => fbind

def FState.diag (s : FState) (d : Diag) : FState := { s with diags := s.diags ++ [d] }

/-- run something written against the visitor state (`FnA.St`: context + diagnostics) on the file
state; `k` receives the visitor's final state. -/
def liftRes (s : FState) (r : Res) (k : St → FState → FOut) : FOut :=
  match r with
  | .ok t => k t { s with ctx := t.ctx, diags := s.diags ++ t.diags }
  | .fatal t d => .fatal { s with ctx := t.ctx, diags := s.diags ++ t.diags } d
  | .crash t e => .crash { s with ctx := t.ctx, diags := s.diags ++ t.diags } e

def fLiftName (s : FState) (r : NameRes) (k : Str → FOut) : FOut :=
  match r with
  | .ok _ f => k f
  | .fatal d => .fatal (FState.diag s d) d
  | .crash e => .crash s e

/-! ### annotations (`rattr/analyser/util.py`; model: `RattrModel/Annotations.lean`) -/

def annFatalId : Ann.Fatal → String
  | .unableToEvaluate => "unable-to-evaluate"
  | .likelyMissingComma => "likely-missing-comma"
  | .positionalArgs => "positional-args"
  | .unexpectedKeywords => "unexpected-keywords"
  | .expectsSetOfNames _ => "expects-set-of-names"
  | .expectsCallSpecs => "expects-call-specs"
  | .duplicatedAnnotation => "duplicated-annotation"

def annCrashId : Ann.Crash → String
  | .unhashable => "TypeError"
  | .noItemsAttr => "AttributeError"
  | .decoratorShape => "TypeError"
  | .buildRaised => "TypeError"

def liftAnn {α : Type} (s : FState) (o : Ann.Outcome α) (k : α → FOut) : FOut :=
  match o with
  | .ok a => k a
  | .fatal f => let d := mkDiag .fatal (annFatalId f); .fatal (FState.diag s d) d
  | .crash c => .crash s (annCrashId c).toList

/-- the `calls` comprehension of `parse_rattr_results_from_annotation`: each target is resolved by
`context.get_call_target(name, culprit=fn_def)` (warnings on). -/
def declaredCalls (env : Env) (c : Context) : List Ann.DeclCall → List CallSym × List Diag
  | [] => ([], [])
  | d :: r =>
    let (t, ds) := Context.getCallTarget env.ctxEnv c d.name false true
    let (cs, ds') := declaredCalls env c r
    ({ name := d.name, args := d.args, kwargs := d.kwargs, target := t } :: cs, ds ++ ds')

def dedupNames (l : List NameS) : List NameS := l.foldl addTo []

/-- `parse_rattr_results_from_annotation(node, context=…)` -/
def declaredIr (env : Env) (decos : List Ann.Deco) (s : FState) (k : IR → FState → FOut) : FOut :=
  liftAnn s (Ann.parseAnnotated decos) fun d =>
    let (cs, ds) := declaredCalls env s.ctx d.calls
    k ⟨dedupNames d.gets, dedupNames d.sets, dedupNames d.dels, cs.foldl addCall []⟩ { s with diags := s.diags ++ ds }

/-- `is_excluded_name(name)`: the `re.fullmatch` verdicts are a parameter. -/
def excluded (f : Facts) (name : Str) : Bool := f.excluded.contains name

/-! ### `FunctionAnalyser(node, context).analyse()` stored under a key -/

/-- run `FnA.analyse` in the current context and store the IR under `key` in `tbl`. -/
def analyseInto (env : Env) (mn : Str) (ps : Params) (body : List Node) (s : FState)
    (k : IR → FState → FOut) : FOut :=
  liftRes s (FnA.analyse env mn s.ctx ps body) fun t s => k (irOf t) s

def getFunc (c : Context) (name : Str) : Option Sym :=
  match Context.get? c name with
  | some sy => if sy.kind == .func then some sy else none
  | none => none

def getClass (c : Context) (name : Str) : Option Sym :=
  match Context.get? c name with
  | some sy => if sy.kind == .cls then some sy else none
  | none => none

/-- `FileAnalyser.visit_AnyFunctionDef` -/
def visitFuncDef (env : Env) (mn : Str) (f : Facts) (name : Str) (ps : Params) (body : List Node)
    (decos : List Ann.Deco) (s : FState) : FOut :=
  liftAnn s (Ann.hasAnnotation Ann.nIgnore decos) fun ignored =>
    if ignored then .ok s
    else if excluded f name then .ok s
    else
      match getFunc s.ctx name with
      | none => .ok (FState.diag s (mkDiag .error "func-undefined" name))
      | some fn =>
        liftAnn s (Ann.hasAnnotation Ann.nResults decos) fun declared =>
          if declared then
            declaredIr env decos s fun ir s => .ok { s with ir := Dict.set s.ir fn ir }
          else if (analyserFor env mn (some fn)).isSome then .crash s "customOnDef".toList
          else analyseInto env mn ps body s fun ir s => .ok { s with ir := Dict.set s.ir fn ir }

/-! ### module-level assignments (lambdas, namedtuples, walruses) -/

/-- `visit_LambdaAssign` -/
def lambdaAssign (env : Env) (mn : Str) (targets : List Node) (value : Node) (s : FState) : FOut :=
  if !oneToOne targets value then
    let d := mkDiag .fatal "lambda-one-to-one"; .fatal (FState.diag s d) d
  else
    match targets, value with
    | t :: _, .lam ps body =>
      fLiftName s (namesOf false t) fun name =>
        match getFunc s.ctx name with
        | none => .ok (FState.diag s (mkDiag .error "func-undefined" name))
        | some fn => analyseInto env mn ps [body] s fun ir s => .ok { s with ir := Dict.set s.ir fn ir }
    | _, _ => .crash s "RuntimeError".toList        -- unreachable

/-- `visit_NamedTupleAssign` -/
def namedtupleAssign (targets : List Node) (value : Node) (s : FState) : FOut :=
  if !oneToOne targets value then
    let d := mkDiag .fatal "namedtuple-one-to-one"; .fatal (FState.diag s d) d
  else
    match targets with
    | t :: _ =>
      fLiftName s (namesOf false t) fun name =>
        match getClass s.ctx name with
        | none => .ok (FState.diag s (mkDiag .error "class-undefined" name))
        | some c => .ok { s with ir := Dict.set s.ir c {} }
    | [] => .crash s "IndexError".toList             -- unreachable

/-- `DictChanges(self.file_ir).added` -/
def addedKeys (before after : Dict Sym IR) : List Sym :=
  ((Dict.keys after).filter fun k => !(Dict.keys before).contains k).eraseDups

mutual
/-- `FileAnalyser.visit_AnyAssign(node)` for a node with a value -/
def anyAssign (env : Env) (mn : Str) (targets : List Node) : Node → FState → FOut
  | .walrus t v, s =>
    -- neither lambda nor namedtuple in the rhs; `walruses_in_rhs = [node.value]`
    anyAssign env mn [t] v s >>>- fun s1 =>
      if lambdaInRhs v then
        match addedKeys s.ir s1.ir with
        | [inner] =>
          (match targets with
           | t0 :: _ =>
             fLiftName s1 (namesOf false t0) fun name =>
               .ok { s1 with ir := Dict.set s1.ir (evolveName inner name) ((Dict.get? s1.ir inner).getD {}) }
           | [] => .crash s1 "IndexError".toList)
        | [] => .ok s1
        | _ => .crash s1 "NotImplementedError".toList
      else .ok s1
  | .seq k elts c, s =>
    let value := Node.seq k elts c
    (if lambdaInRhs value then lambdaAssign env mn targets value s else .ok s) >>>- fun s =>
    (if namedtupleInRhs value then namedtupleAssign targets value s else .ok s) >>>- fun s =>
    if isTupleOrList value then walrusEltsF env mn elts s else .ok s
  | value, s =>
    (if lambdaInRhs value then lambdaAssign env mn targets value s else .ok s) >>>- fun s =>
    (if namedtupleInRhs value then namedtupleAssign targets value s else .ok s)

def walrusEltsF (env : Env) (mn : Str) : List Node → FState → FOut
  | [], s => .ok s
  | .walrus t v :: r, s =>
    anyAssign env mn [t] v s >>>- fun s1 =>
      if lambdaInRhs v && (addedKeys s.ir s1.ir).length > 1 then .crash s1 "NotImplementedError".toList
      else walrusEltsF env mn r s1
  | _ :: r, s => walrusEltsF env mn r s
end

/-! ### `generic_visit` below a module-level statement -/

mutual
/-- the nodes with a dedicated visitor met by a `generic_visit` walk of an expression, in visit
order. `stop`: the visitor does not continue below them (FileAnalyser: `visit_NamedExpr`,
`visit_Lambda`); `stop = false` is ClassAnalyser's walk (`visit_AnyAssign` ends in `generic_visit`,
there is no `visit_Lambda`). -/
def events (stop : Bool) : Node → List Node
  | .name .. => []
  | .attr v _ _ => events stop v
  | .sub v sl _ => events stop v ++ events stop sl
  | .starred v _ => events stop v
  | .call f args _ kwv => events stop f ++ eventsL stop args ++ eventsL stop kwv
  | .lam ps body => if stop then [.lam ps body] else events stop body
  | .comp _ elts gens => eventsL stop elts ++ eventsL stop gens
  | .gen t it ifs => events stop t ++ events stop it ++ eventsL stop ifs
  | .walrus t v => .walrus t v :: (if stop then [] else events stop t ++ events stop v)
  | .strConst _ => []
  | .const => []
  | .seq _ elts _ => eventsL stop elts
  | .dict ks vs => eventsL stop ks ++ eventsL stop vs
  | .assign ts v => .assign ts v :: (if stop then [] else eventsL stop ts ++ events stop v)
  | .annAssign t ann v =>
    .annAssign t ann v :: (if stop then [] else events stop t ++ events stop ann ++ eventsL stop v)
  | .augAssign t v => .augAssign t v :: (if stop then [] else events stop t ++ events stop v)
  | .delete ts => eventsL stop ts
  | .forLoop t it body orelse => events stop t ++ events stop it ++ eventsL stop body ++ eventsL stop orelse
  | .withStmt items body => eventsL stop items ++ eventsL stop body
  | .withitem ce vars => events stop ce ++ eventsL stop vars
  | .funcDef _ _ body => eventsL stop body
  | .classDef _ => []
  | .ret v => eventsL stop v
  | .forbidden _ => []
  | .other _ kids => eventsL stop kids
def eventsL (stop : Bool) : List Node → List Node
  | [] => []
  | n :: r => events stop n ++ eventsL stop r
end

/-- FileAnalyser meets one event node. -/
def fileEvent (env : Env) (mn : Str) (n : Node) (s : FState) : FOut :=
  match n with
  | .walrus t v => anyAssign env mn [t] v s
  | .assign ts v => anyAssign env mn ts v s
  | .annAssign t _ (v :: _) => anyAssign env mn [t] v s
  | .augAssign t v => anyAssign env mn [t] v s
  | .lam .. => let d := mkDiag .fatal "module-level-lambda"; .fatal (FState.diag s d) d
  | _ => .ok s

def fileEvents (env : Env) (mn : Str) : List Node → FState → FOut
  | [], s => .ok s
  | n :: r, s => fileEvent env mn n s >>>- fun s => fileEvents env mn r s

/-! ### ClassAnalyser -/

def classAttrSym (cls name : Str) : Sym := Context.nameSym (cls ++ '.' :: name)

/-- `ClassAnalyser.visit_AnyAssign`: register `Name("C.<base>", "C")` for every target. -/
def classRegister (cls : Str) (targets : List Node) (s : St) : Res :=
  match unravelNamesL targets with
  | .ok names => .ok { s with ctx := names.foldl (fun c n => Context.add c (classAttrSym cls n)) s.ctx }
  | .fatal d => .fatal (St.diag s d) d
  | .crash e => .crash s e

def classEvent (cls : Str) (n : Node) (s : St) : Res :=
  match n with
  | .walrus t _ => classRegister cls [t] s
  | .assign ts _ => classRegister cls ts s
  | .annAssign t _ _ => classRegister cls [t] s
  | .augAssign t _ => classRegister cls [t] s
  | _ => .ok s

def classEvents (cls : Str) : List Node → St → Res
  | [], s => .ok s
  | n :: r, s => classEvent cls n s >>>= fun s => classEvents cls r s

mutual
/-- `ClassAnalyser.visit(stmt)` on a non-method statement of the class body. -/
def classWalk (cls : Str) : Top → St → Res
  | .assign targets extra value, s =>
    classRegister cls targets s >>>= fun s =>
      classEvents cls (eventsL false (targets ++ extra ++ value.toList)) s
  | .exprStmt v, s => classEvents cls (events false v) s
  | .expr n, s => classEvents cls (events false n) s
  | .delete targets, s => classEvents cls (eventsL false targets) s
  | .importStmt _, s => .ok s
  | .importFrom .., s => .ok s
  | .funcDef _ _ body _ _, s => classEvents cls (eventsL false body) s      -- nested def: body only (see header)
  | .classDef _ bases body _, s =>
    classEvents cls (eventsL false bases) s >>>= fun s => classWalkL cls body s
  | .tryStmt b h o fb, s =>
    classWalkL cls b s >>>= fun s => classWalkL cls h s >>>= fun s =>
    classWalkL cls o s >>>= fun s => classWalkL cls fb s
  | .compound _ kids, s => classWalkL cls kids s
def classWalkL (cls : Str) : List Top → St → Res
  | [], s => .ok s
  | t :: r, s => classWalk cls t s >>>= fun s => classWalkL cls r s
end

def isMethod : Top → Bool
  | .funcDef .. => true
  | _ => false

structure Method where
  name : Str
  ps : Params
  body : List Node
  decos : List Ann.Deco
  isAsync : Bool

def methodsOf : List Top → List Method
  | [] => []
  | .funcDef n ps b d a :: r => ⟨n, ps, b, d, a⟩ :: methodsOf r
  | _ :: r => methodsOf r

/-- state of one class analysis: the file state plus the `class_ir` dict -/
abbrev ClassIr := Dict Sym IR

/-- `update_symbol`: pop the id, then assign it again (so it moves to the END of the table). -/
def updateSymbol (c : Context) (new : Sym) : Context := setSym (Context.remove c new.name) new

/-- `[fullname_of(b, safe=True) for b in cls.bases]` -/
def baseNames (s : FState) : List Node → (List Str → FOut) → FOut
  | [], k => k []
  | b :: r, k => fLiftName s (namesOf true b) fun n => baseNames s r fun ns => k (n :: ns)

def heuristic (suffix : String) (names : List Str) : Bool :=
  names.any fun b => b = suffix.toList || endsWith b ('.' :: suffix.toList)

/-- the `Name` symbols of the (current) table whose name starts with `C.` -/
def prefixed (c : Context) (cls : Str) : List Sym :=
  (scopeSyms c).filter fun sy => sy.kind == .name && startsWith sy.name (cls ++ ['.'])

/-- `ClassAnalyser.symbol` -/
def classSymbol (s : FState) (cls : Str) (k : Sym → FOut) : FOut :=
  match getClass s.ctx cls with
  | some sy => k sy
  | none => .crash s "ValueError".toList

/-- `init_method_or_none(methods)` -/
def initMethod (s : FState) (ms : List Method) (k : FState → Option Method → FOut) : FOut :=
  match ms.filter (fun m => m.name = "__init__".toList) with
  | [] => k s none
  | i :: rest =>
    let s := if rest.isEmpty then s else FState.diag s (mkDiag .error "multiple-init")
    if i.isAsync then let d := mkDiag .fatal "async-init"; .fatal (FState.diag s d) d
    else k s (some i)

/-- `visit_initialiser(init)` -/
def visitInitialiser (env : Env) (mn : Str) (cls : Str) (decos : List Ann.Deco) (init : Method)
    (s : FState) (cir : ClassIr) (k : FState → ClassIr → FOut) : FOut :=
  liftAnn s (Ann.hasAnnotation Ann.nIgnore decos) fun ignored =>
    if ignored then k s cir
    else
      classSymbol s cls fun sy =>
        let new : Sym := { sy with iface := some init.ps.iface, callable := true }
        let s := { s with ctx := updateSymbol s.ctx new }
        liftAnn s (Ann.hasAnnotation Ann.nResults decos) fun declared =>
          if declared then declaredIr env decos s fun ir s => k s (Dict.set cir new ir)
          else analyseInto env mn init.ps init.body s fun ir s => k s (Dict.set cir new ir)

/-- `visit_enum_initialiser()` -/
def visitEnum (cls : Str) (s : FState) (cir : ClassIr) (k : FState → ClassIr → FOut) : FOut :=
  classSymbol s cls fun sy =>
    let new : Sym := { sy with iface := some ⟨[], ["self".toList, "_id".toList], none, [], none⟩, callable := true }
    let s := { s with ctx := updateSymbol s.ctx new }
    let gets := (prefixed s.ctx cls).map fun sy => (⟨sy.name, basenameFromName sy.name⟩ : NameS)
    k s (Dict.set cir new { gets := dedupNames gets })

/-- `visit_named_tuple_initialiser()` -/
def visitNamedTuple (cls : Str) (s : FState) (cir : ClassIr) (k : FState → ClassIr → FOut) : FOut :=
  let items := (prefixed s.ctx cls).map fun sy => sy.name.drop (cls.length + 1)
  classSymbol s cls fun sy =>
    let new : Sym := { sy with iface := some ⟨[], "self".toList :: items, none, [], none⟩, callable := true }
    k { s with ctx := updateSymbol s.ctx new } (Dict.set cir new {})

/-- `visit_static_method(method)`: registered as `Func "C.m"` at this moment, then analysed. -/
def visitStatic (env : Env) (mn : Str) (cls : Str) (m : Method) (s : FState) (cir : ClassIr)
    (k : FState → ClassIr → FOut) : FOut :=
  let fn := funcSym (cls ++ '.' :: m.name) m.ps.iface
  let s := { s with ctx := Context.add s.ctx fn }
  analyseInto env mn m.ps m.body s fun ir s => k s (Dict.set cir fn ir)

/-- `for method in iter_static_methods(methods): self.visit_static_method(method)` (lazy). -/
def staticLoop (env : Env) (mn : Str) (cls : Str) : List Method → FState → ClassIr →
    (FState → ClassIr → FOut) → FOut
  | [], s, cir, k => k s cir
  | m :: r, s, cir, k =>
    liftAnn s (Ann.hasAnnotation Ann.nStatic m.decos) fun isStatic =>
      if isStatic then visitStatic env mn cls m s cir fun s cir => staticLoop env mn cls r s cir k
      else staticLoop env mn cls r s cir k

/-- `ClassAnalyser(node, context).analyse()`; `k` receives the `class_ir`. -/
def classAnalyse (env : Env) (mn : Str) (cls : Str) (bases : List Node) (body : List Top)
    (decos : List Ann.Deco) (s : FState) (k : FState → ClassIr → FOut) : FOut :=
  let statements := body.filter fun t => !isMethod t
  let methods := methodsOf body
  liftRes s (classWalkL cls statements { ctx := s.ctx }) fun _ s =>
    initMethod s methods fun s init =>
      match init with
      | some i =>
        visitInitialiser env mn cls decos i s [] fun s cir => staticLoop env mn cls methods s cir k
      | none =>
        baseNames s bases fun bn =>
          (fun (k' : FState → ClassIr → FOut) =>
            if heuristic "Enum" bn then visitEnum cls s [] k' else k' s []) fun s cir =>
          (fun (k' : FState → ClassIr → FOut) =>
            if heuristic "NamedTuple" bn then visitNamedTuple cls s cir k' else k' s cir) fun s cir =>
          staticLoop env mn cls methods s cir k

/-- `for foc, foc_ir in class_ir.items(): self.file_ir[foc] = foc_ir` -/
def mergeClassIr (ir : Dict Sym IR) (cir : ClassIr) : Dict Sym IR :=
  cir.foldl (fun acc (k, v) => Dict.set acc k v) ir

/-- `FileAnalyser.visit_ClassDef` -/
def visitClassDef (env : Env) (mn : Str) (f : Facts) (name : Str) (bases : List Node) (body : List Top)
    (decos : List Ann.Deco) (s : FState) : FOut :=
  liftAnn s (Ann.hasAnnotation Ann.nIgnore decos) fun ignored =>
    if ignored then .ok s
    else if excluded f name then .ok s
    else classAnalyse env mn name bases body decos s fun s cir => .ok { s with ir := mergeClassIr s.ir cir }

/-! ### the file walk -/

mutual
/-- `FileAnalyser.visit(node)` for a statement (dedicated visitor or `generic_visit`). -/
def visitTop (env : Env) (mn : Str) (f : Facts) : Top → FState → FOut
  | .funcDef name ps body decos _, s => visitFuncDef env mn f name ps body decos s
  | .classDef name bases body decos, s => visitClassDef env mn f name bases body decos s
  | .assign targets _ value, s =>
    (match value with
     | none => .ok s
     | some v => anyAssign env mn targets v s)
  | .exprStmt v, s => fileEvents env mn (events true v) s
  | .expr n, s => fileEvents env mn (events true n) s
  | .delete targets, s => fileEvents env mn (eventsL true targets) s
  | .importStmt _, s => .ok s
  | .importFrom .., s => .ok s
  | .tryStmt b h o fb, s =>
    visitTops env mn f b s >>>- fun s => visitTops env mn f h s >>>- fun s =>
    visitTops env mn f o s >>>- fun s => visitTops env mn f fb s
  | .compound _ kids, s => visitTops env mn f kids s
def visitTops (env : Env) (mn : Str) (f : Facts) : List Top → FState → FOut
  | [], s => .ok s
  | t :: r, s => visitTop env mn f t s >>>- fun s => visitTops env mn f r s
end

/-- the `visit_*` methods of `FileAnalyser` the model covers (`visitTop` / `fileEvent` dispatch +
helpers; `visit_Constant` is `ast.NodeVisitor`'s own and ends in `generic_visit`). Tied to
`dir(FileAnalyser)` by `Generated.RC.fileAnalyserVisitors`. -/
def fileVisitors : List String :=
  ["FunctionDef", "AsyncFunctionDef", "AnyFunctionDef", "function_with_rattr_results_annotation",
   "function_with_custom_analyser", "ClassDef", "Assign", "AnnAssign", "AugAssign", "NamedExpr", "AnyAssign",
   "LambdaAssign", "NamedTupleAssign", "Lambda", "Constant"].map ("visit_" ++ ·)

/-- likewise for `ClassAnalyser` (`classWalk` / `classEvent` + the four special visitors). -/
def classVisitors : List String :=
  ["Assign", "AnnAssign", "AugAssign", "NamedExpr", "AnyAssign", "initialiser", "enum_initialiser",
   "named_tuple_initialiser", "static_method", "Constant"].map ("visit_" ++ ·)

/-- `FileAnalyser(ast, context).analyse()` -/
def analyseWith (env : Env) (mn : Str) (f : Facts) (ctx : Context) (body : List Top) : FOut :=
  visitTops env mn f body { ctx := ctx }

inductive Outcome (α : Type) where
  | ok (a : α)
  | fatal (diags : List Diag) (d : Diag)
  | crash (exc : Str)
  deriving Repr

/-- stages S2 + S4 on one module: `FileAnalyser(ast, compile_root_context(ast)).analyse()`.
Result: the FileIr (keys in insertion order) and the diagnostics of the file stage. -/
def analyseFile (env : Env) (mn : Str) (f : Facts) (builtins : List Str) (body : List Top) :
    Outcome (List (Sym × IR) × List Diag) :=
  match RootCtx.compile f builtins body with
  | .ok r =>
    (match analyseWith env mn f r.ctx body with
     | .ok s => .ok (s.ir, s.diags)
     | .fatal s d => .fatal s.diags d
     | .crash _ e => .crash e)
  | .fatal r d => .fatal r.diags d
  | .crash _ e => .crash e

end FileA
end Rattr

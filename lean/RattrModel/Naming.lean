/-
  RattrModel.Naming — model of rattr's two expression namers (stage S5, property C10).

  * `namesOf unravel safe`  = `rattr/ast/_util.py::names_of(node, unravel_attr_access_calls, safe)`
    with `__ast_call_name`, `__ast_compound_name`, `__safe_name`, `__specific_name_error` and
    `get_python_attr_access_fn_obj_attr_pair` (`pairOf`).
  * `oldNames safe` = `rattr/analyser/util.py::get_basename_fullname_pair(node, safe)` with
    `get_xattr_obj_name_pair` (`xattrPair`) and `is_call_to`.

  The code that exists is modelled, not what it should do:
  * the recursive calls of `names_of` do not pass `unravel_attr_access_calls` on, so below the
    root it is always `True`;
  * the new namer decides "this is a getattr-family call" from the *basename of `node.func`*, the
    old one from `is_call_to` (func is a `Name`);
  * `get_python_attr_access_fn_obj_attr_pair` names the attribute argument with `safe=True` and the
    object with `safe=False`, whatever `safe` the caller asked for;
  * every `raise` is an outcome `raised <class>`, every `error.fatal` an outcome `fatal <why>`.

  Self-contained: the expression type keeps exactly what the namers look at (subscript slices and
  call keywords are never inspected by either namer).
-/
import RattrModel.Basic

namespace Rattr.Naming

/-- Expressions as the namers see them. `strConst` = `ast.Constant` whose value is a `str`;
`other kind` = any other node, `kind` = `node.__class__.__name__`. -/
inductive Expr where
  | name (id : Str)
  | attr (e : Expr) (a : Str)
  | sub (e : Expr)
  | starred (e : Expr)
  | call (f : Expr) (args : List Expr)
  | strConst (s : Str)
  | other (kind : Str)
  deriving Repr

/-- Exception classes the namers pick. -/
inductive Exc where
  | unaryOp         -- error.RattrUnaryOpInNameable
  | binOp           -- error.RattrBinOpInNameable
  | constant        -- error.RattrConstantInNameable
  | literal         -- error.RattrLiteralInNameable
  | comprehension   -- error.RattrComprehensionInNameable
  | typeError       -- TypeError
  deriving Repr, DecidableEq

/-- The two `error.fatal` sites of each xattr helper. -/
inductive FatalWhy where
  | tooFewArgs        -- "invalid call to 'getattr', too few args" / "... not enough args"
  | nestedOtherCall   -- "... may only be nested in other calls to ..." / "... object must be a name or a call to ..."
  deriving Repr, DecidableEq

/-- Outcome of a namer. For the pair helpers `ok obj attr` is the (object spelling, attribute). -/
inductive Out where
  | ok (base full : Str)
  | fatal (w : FatalWhy)
  | raised (e : Exc)
  deriving Repr, DecidableEq

def Out.isOk : Out → Bool
  | .ok _ _ => true
  | _ => false

/-- Rewrite the full name of a successful outcome; failures propagate. -/
def Out.mapFull (g : Str → Str) : Out → Out
  | .ok b l => .ok b (g l)
  | o => o

/-! ### Constants of the code (tied to the source by `RattrProofs.Props.C10.tieA_*`) -/

/-- `Config.LITERAL_VALUE_PREFIX` -/
def literalPrefix : Str := ['@']

/-- `PYTHON_ATTR_ACCESS_BUILTINS` -/
def attrAccessBuiltins : List Str :=
  [['d','e','l','a','t','t','r'], ['g','e','t','a','t','t','r'],
   ['h','a','s','a','t','t','r'], ['s','e','t','a','t','t','r']]

/-- `rattr.ast.types.AstLiterals` (class names) -/
def astLiterals : List Str :=
  [['J','o','i','n','e','d','S','t','r'], ['L','i','s','t'], ['T','u','p','l','e'], ['S','e','t'],
   ['D','i','c','t']]

/-- `rattr.ast.types.AstComprehensions` (class names) -/
def astComprehensions : List Str :=
  [['L','i','s','t','C','o','m','p'], ['S','e','t','C','o','m','p'],
   ['G','e','n','e','r','a','t','o','r','E','x','p'], ['D','i','c','t','C','o','m','p']]

/-- `rattr.ast.types.AstNodeWithName` (class names): the constructors `name attr sub starred call`. -/
def astNodeWithName : List Str :=
  [['N','a','m','e'], ['A','t','t','r','i','b','u','t','e'], ['S','u','b','s','c','r','i','p','t'],
   ['S','t','a','r','r','e','d'], ['C','a','l','l']]

def kUnaryOp : Str := ['U','n','a','r','y','O','p']
def kBinOp : Str := ['B','i','n','O','p']
def kConstant : Str := ['C','o','n','s','t','a','n','t']

def isXattr (b : Str) : Bool := attrAccessBuiltins.contains b

/-- `__specific_name_error` / the `_error_class` ladder of the old namer (same order in both). -/
def excOfKind (k : Str) : Exc :=
  if k = kUnaryOp then .unaryOp
  else if k = kBinOp then .binOp
  else if k = kConstant then .constant
  else if astLiterals.contains k then .literal
  else if astComprehensions.contains k then .comprehension
  else .typeError

/-- The tail of both namers: `safe` → `("@Kind", "@Kind")`, else raise the specific error. -/
def unnameable (safe : Bool) (kind : Str) : Out :=
  if safe then .ok (literalPrefix ++ kind) (literalPrefix ++ kind) else .raised (excOfKind kind)

/-- `is_call_to_fn(call(f, …), fn)` / `is_call_to(fn, call(f, …))`: `f` is a `Name` with that id. -/
def isCallTo (fn : Str) : Expr → Bool
  | .name g => g = fn
  | _ => false

def dot : Str := ['.']
def parens : Str := ['(', ')']
def brackets : Str := ['[', ']']
def star : Str := ['*']
def angle (s : Str) : Str := '<' :: (s ++ ['>'])

/-- `name.value if is_string_literal(name) else f"<{varname}>"` -/
def attrText (nm : Expr) (varname : Str) : Str :=
  match nm with
  | .strConst s => s
  | _ => angle varname

/-- `_, lhs = names_of(obj, safe=False); return lhs, attr` -/
def objOnly (o : Out) (attr : Str) : Out :=
  match o with
  | .ok _ l => .ok l attr
  | o => o

/-- The non-call object case: `nmOut` = `names_of(name, safe=True)` (evaluated first), `objOut` =
`names_of(obj, safe=False)`. -/
def pairPlain (nmOut : Out) (nm : Expr) (objOut : Out) : Out :=
  match nmOut with
  | .ok _ varname => objOnly objOut (attrText nm varname)
  | o => o

/-! ### The new namer: `names_of` -/

mutual
/-- `names_of(node, unravel_attr_access_calls=unravel, safe=safe)`. -/
def namesOf (unravel safe : Bool) : Expr → Out
  | .name id => .ok id id
  | .call f args =>
    -- __ast_call_name
    match namesOf true safe f with
    | .ok b lhs =>
      if unravel && isXattr b then
        match pairOf b args with
        | .ok obj attr => .ok b (obj ++ dot ++ attr)
        | o => o
      else .ok b (lhs ++ parens)
    | o => o
  -- __ast_compound_name
  | .attr e a => (namesOf true safe e).mapFull (· ++ dot ++ a)
  | .sub e => (namesOf true safe e).mapFull (· ++ brackets)
  | .starred e => (namesOf true safe e).mapFull (star ++ ·)
  | .strConst _ => unnameable safe kConstant
  | .other k => unnameable safe k

/-- `get_python_attr_access_fn_obj_attr_pair(fn, call(_, args))`, `warn=False`.
Python's order of evaluation: unpack `obj, name, *_` (fatal when fewer than two), name the attribute
argument (`safe=True`), then inspect the object: a call must be a direct call of the same builtin
(else fatal) and is unravelled recursively; anything else is named with `safe=False`.
(One equation per shape of the object so that Lean generates usable equation lemmas.) -/
def pairOf (fn : Str) : List Expr → Out
  | [] => .fatal .tooFewArgs
  | [_] => .fatal .tooFewArgs
  | .call f' args' :: nm :: _ =>
    match namesOf true true nm with
    | .ok _ varname =>
      if isCallTo fn f' then
        match pairOf fn args' with
        | .ok l a => .ok (l ++ dot ++ a) (attrText nm varname)
        | o => o
      else .fatal .nestedOtherCall
    | o => o
  | .name id :: nm :: _ => pairPlain (namesOf true true nm) nm (namesOf true false (.name id))
  | .attr e a :: nm :: _ => pairPlain (namesOf true true nm) nm (namesOf true false (.attr e a))
  | .sub e :: nm :: _ => pairPlain (namesOf true true nm) nm (namesOf true false (.sub e))
  | .starred e :: nm :: _ => pairPlain (namesOf true true nm) nm (namesOf true false (.starred e))
  | .strConst s :: nm :: _ => pairPlain (namesOf true true nm) nm (namesOf true false (.strConst s))
  | .other k :: nm :: _ => pairPlain (namesOf true true nm) nm (namesOf true false (.other k))
end

/-! ### The old namer: `get_basename_fullname_pair` -/

/-- `any(is_call_to(x, node) for x in PYTHON_ATTR_ACCESS_BUILTINS)` on `node = call(f, …)`. -/
def isDirectXattr : Expr → Bool
  | .name g => isXattr g
  | _ => false

/-- `attr.s if isinstance(attr, ast.Str) else f"<{get_fullname(attr, safe=True)}>"`; the first
argument is the (lazily needed) outcome of `get_fullname(attr, safe=True)`. -/
def oldAttrName (named : Out) (nm : Expr) : Out :=
  match nm with
  | .strConst s => .ok [] s
  | _ => named.mapFull angle

/-- The non-call object case of the old helper: `attrOut` first, then the object outcome. -/
def oldPlain (attrOut : Out) (objOut : Out) : Out :=
  match attrOut with
  | .ok _ attr => objOnly objOut attr
  | o => o

mutual
/-- `get_basename_fullname_pair(node, safe)`. -/
def oldNames (safe : Bool) : Expr → Out
  | .name id => .ok id id
  | .call f args =>
    match oldNames safe f with
    | .ok b sub =>
      if isDirectXattr f then
        match xattrPair b args with
        | .ok obj attr => .ok b (obj ++ dot ++ attr)
        | o => o
      else .ok b (sub ++ parens)
    | o => o
  | .attr e a => (oldNames safe e).mapFull (· ++ dot ++ a)
  | .sub e => (oldNames safe e).mapFull (· ++ brackets)
  | .starred e => (oldNames safe e).mapFull (star ++ ·)
  | .strConst _ => unnameable safe kConstant
  | .other k => unnameable safe k

/-- `get_xattr_obj_name_pair(xattr, call(_, args))`, `warn=False`: fewer than two arguments is
fatal; attribute text (`attr.s`, else `<get_fullname(attr, safe=True)>`); a call object must be a
direct call of the same builtin (else fatal) and is unravelled recursively; an `AstNodeWithName`
object is named with `get_fullname(obj)` (`safe=False`); anything else raises `TypeError`. -/
def xattrPair (x : Str) : List Expr → Out
  | [] => .fatal .tooFewArgs
  | [_] => .fatal .tooFewArgs
  | .call f' args' :: nm :: _ =>
    match oldAttrName (oldNames true nm) nm with
    | .ok _ attr =>
      if isCallTo x f' then
        match xattrPair x args' with
        | .ok l a => .ok (l ++ dot ++ a) attr
        | o => o
      else .fatal .nestedOtherCall
    | o => o
  | .name id :: nm :: _ => oldPlain (oldAttrName (oldNames true nm) nm) (oldNames false (.name id))
  | .attr e a :: nm :: _ => oldPlain (oldAttrName (oldNames true nm) nm) (oldNames false (.attr e a))
  | .sub e :: nm :: _ => oldPlain (oldAttrName (oldNames true nm) nm) (oldNames false (.sub e))
  | .starred e :: nm :: _ => oldPlain (oldAttrName (oldNames true nm) nm) (oldNames false (.starred e))
  | .strConst _ :: nm :: _ => oldPlain (oldAttrName (oldNames true nm) nm) (.raised .typeError)
  | .other _ :: nm :: _ => oldPlain (oldAttrName (oldNames true nm) nm) (.raised .typeError)
end

end Rattr.Naming

/-
  RattrModel.Annotations — model of the annotation / exclusion machinery (stage S4, property C11):

    rattr/analyser/util.py   get_attrname, has_annotation, get_annotation, safe_eval,
                             parse_annotation, is_name (re_rattr_name), is_set_of_names,
                             is_list_of_names, is_list_of_call_specs, validate_rattr_results,
                             parse_rattr_results_from_annotation_args_impl,
                             parse_rattr_results_from_annotation (as_name / as_call), is_excluded_name
    rattr/analyser/file.py   FileAnalyser.visit_AnyFunctionDef / visit_ClassDef / visit_LambdaAssign
    rattr/analyser/cls.py    ClassAnalyser.visit_initialiser / visit_static_method
    rattr/results/_find_call_target.py   resolve_function (exclusion re-check, missing IR)

  The code is modelled as it is: every `raise` reachable from a decorator expression is an explicit
  `crash`, every `error.fatal` an explicit `fatal`.

  Fragment (stated, enforced by the harness generator):
    * strings are ASCII (`\w` of the regex is modelled as `[A-Za-z0-9_]`; non-ASCII word characters
      are outside the fragment);
    * number literals are identified by their `repr`; the harness only produces numbers whose
      Python equality coincides with equality of `repr` and that are not equal to `True`/`False`
      (this matters only for the de-duplication of set elements / dict keys, which can never
      change an outcome: a non-`str` element or key is rejected whether or not it is merged);
    * the `re.fullmatch` verdict of each user `--exclude` pattern on a name is a per-case parameter.
-/
import RattrModel.Basic
import RattrModel.Strs
import RattrModel.Results

namespace Rattr.Ann
open Rattr Rattr.Strs

/-! ### decorator argument expressions and their compile-time values -/

/-- `None` / `True` / `False` (`ast.NameConstant`). -/
inductive Const where
  | none | true | false
  deriving DecidableEq, Repr

/-- A decorator argument expression, as `safe_eval` distinguishes them. `other` is every expression
`safe_eval` cannot evaluate (names, calls such as `set()`, unary minus, `...`, f-strings, …);
`dictUnpack` is a dict display with at least one `**d` entry (rejected before anything in it is
evaluated). -/
inductive Lit where
  | num (repr : Str)
  | str (s : Str)
  | bytes (b : Str)
  | nameConst (c : Const)
  | list (xs : List Lit)
  | tuple (xs : List Lit)
  | set (xs : List Lit)
  | dict (pairs : List (Lit × Lit))
  | dictUnpack
  | other
  deriving Repr

/-- A Python value `safe_eval` can return. A `set` is the list of its distinct elements, a `dict`
the insertion-ordered list of its items (keys distinct). -/
inductive PyVal where
  | num (repr : Str)
  | str (s : Str)
  | bytes (b : Str)
  | const (c : Const)
  | list (xs : List PyVal)
  | tuple (xs : List PyVal)
  | set (xs : List PyVal)
  | dict (items : List (PyVal × PyVal))
  deriving Repr

inductive Fatal where
  | unableToEvaluate                  -- safe_eval: "unable to evaluate … at compile-time"
  | likelyMissingComma                -- "unable to parse 'rattr_results', you are likely missing a comma"
  | positionalArgs                    -- "unexpected positional arguments to 'rattr_results'"
  | unexpectedKeywords                -- "unexpected keyword arguments to 'rattr_results'"
  | expectsSetOfNames (key : Str)     -- "'rattr_results' expects a set[Identifier] for <key>"
  | expectsCallSpecs                  -- "'rattr_results' expects 'calls' to be a list[tuple[…]]"
  | duplicatedAnnotation              -- "duplicated annotation 'rattr_results' on <name>"
  deriving DecidableEq, Repr

inductive Crash where
  | unhashable        -- TypeError: unhashable type (building a set / dict in safe_eval)
  | noItemsAttr       -- AttributeError: '<type>' object has no attribute 'items'
  | decoratorShape    -- TypeError raised by get_attrname on a decorator that is no Name/Attribute/Call
  | buildRaised       -- as_name / as_call on a value of the wrong type (proved unreachable)
  deriving DecidableEq, Repr

inductive Outcome (α : Type) where
  | ok (a : α)
  | fatal (f : Fatal)
  | crash (c : Crash)
  deriving DecidableEq, Repr

def Outcome.isOk {α : Type} : Outcome α → Bool
  | .ok _ => true
  | _ => false

def Outcome.isFatal {α : Type} : Outcome α → Bool
  | .fatal _ => true
  | _ => false

def Outcome.isCrash {α : Type} : Outcome α → Bool
  | .crash _ => true
  | _ => false

/-! ### hashing and equality of values (what `set(...)` / `{k: v}` need) -/

mutual
/-- `hash(v)` does not raise. -/
def hashable : PyVal → Bool
  | .num _ => true
  | .str _ => true
  | .bytes _ => true
  | .const _ => true
  | .tuple xs => hashableL xs
  | .list _ => false
  | .set _ => false
  | .dict _ => false
def hashableL : List PyVal → Bool
  | [] => true
  | x :: r => hashable x && hashableL r
end

mutual
/-- Python `==` between hashable values (inside the fragment, see the file header). Unhashable
values are never compared by the modelled code. -/
def pyEq : PyVal → PyVal → Bool
  | .num a, w => (match w with | .num b => a == b | _ => false)
  | .str a, w => (match w with | .str b => a == b | _ => false)
  | .bytes a, w => (match w with | .bytes b => a == b | _ => false)
  | .const a, w => (match w with | .const b => a == b | _ => false)
  | .tuple a, w => (match w with | .tuple b => pyEqL a b | _ => false)
  | .list _, _ => false
  | .set _, _ => false
  | .dict _, _ => false
def pyEqL : List PyVal → List PyVal → Bool
  | [], w => (match w with | [] => true | _ => false)
  | x :: r, w => (match w with | y :: s => pyEq x y && pyEqL r s | [] => false)
end

/-- `set(xs)` on hashable elements: distinct elements, first occurrence kept. -/
def dedup : List PyVal → List PyVal → List PyVal
  | [], acc => acc.reverse
  | x :: r, acc => if acc.any (pyEq x) then dedup r acc else dedup r (x :: acc)

/-- `d[k] = v` on an insertion-ordered dict. -/
def dictSet : List (PyVal × PyVal) → PyVal → PyVal → List (PyVal × PyVal)
  | [], k, v => [(k, v)]
  | (k0, v0) :: r, k, v => if pyEq k0 k then (k0, v) :: r else (k0, v0) :: dictSet r k v

/-! ### safe_eval -/

mutual
/-- `safe_eval(expr, culprit)`. Evaluation order is the code's: list / tuple / set elements left to
right, the set built after all elements are evaluated; dict items pairwise (key, value, insert). -/
def safeEval : Lit → Outcome PyVal
  | .num r => .ok (.num r)
  | .str s => .ok (.str s)
  | .bytes b => .ok (.bytes b)
  | .nameConst c => .ok (.const c)
  | .list xs =>
    match safeEvalL xs with
    | .ok vs => .ok (.list vs)
    | .fatal f => .fatal f
    | .crash c => .crash c
  | .tuple xs =>
    match safeEvalL xs with
    | .ok vs => .ok (.tuple vs)
    | .fatal f => .fatal f
    | .crash c => .crash c
  | .set xs =>
    match safeEvalL xs with
    | .ok vs => if hashableL vs then .ok (.set (dedup vs [])) else .crash .unhashable
    | .fatal f => .fatal f
    | .crash c => .crash c
  | .dict ps =>
    match safeEvalP ps [] with
    | .ok items => .ok (.dict items)
    | .fatal f => .fatal f
    | .crash c => .crash c
  | .dictUnpack => .fatal .unableToEvaluate
  | .other => .fatal .unableToEvaluate
def safeEvalL : List Lit → Outcome (List PyVal)
  | [] => .ok []
  | x :: r =>
    match safeEval x with
    | .ok v =>
      (match safeEvalL r with
       | .ok vs => .ok (v :: vs)
       | .fatal f => .fatal f
       | .crash c => .crash c)
    | .fatal f => .fatal f
    | .crash c => .crash c
def safeEvalP : List (Lit × Lit) → List (PyVal × PyVal) → Outcome (List (PyVal × PyVal))
  | [], acc => .ok acc
  | (k, v) :: r, acc =>
    match safeEval k with
    | .ok kv =>
      (match safeEval v with
       | .ok vv => if hashable kv then safeEvalP r (dictSet acc kv vv) else .crash .unhashable
       | .fatal f => .fatal f
       | .crash c => .crash c)
    | .fatal f => .fatal f
    | .crash c => .crash c
end

/-! ### is_name: `target.removeprefix("*").removeprefix("@")` then `re_rattr_name.fullmatch`

`re_rattr_name = ^[A-Za-z_][\w\(\)\[\]\.]*$` as a three-state automaton over character classes
(ASCII fragment). With `fullmatch` the trailing `$` cannot match before a final newline, so the
automaton is exact. -/

def isIdStart (c : Char) : Bool :=
  ('A' ≤ c && c ≤ 'Z') || ('a' ≤ c && c ≤ 'z') || c == '_'

def isIdCont (c : Char) : Bool :=
  isIdStart c || ('0' ≤ c && c ≤ '9') || c == '(' || c == ')' || c == '[' || c == ']' || c == '.'

inductive ReState where
  | start | body | dead
  deriving DecidableEq, Repr

def reStep : ReState → Char → ReState
  | .start, c => if isIdStart c then .body else .dead
  | .body, c => if isIdCont c then .body else .dead
  | .dead, _ => .dead

def reFullmatch (s : Str) : Bool := s.foldl reStep .start == .body

def stripPrefixes (s : Str) : Str := removePrefix (removePrefix s ['*']) ['@']

/-- `is_name` on a `str`. -/
def isName (s : Str) : Bool := reFullmatch (stripPrefixes s)

/-- `is_name(target)` on any value (`isinstance(target, str)` first). -/
def isNameV : PyVal → Bool
  | .str s => isName s
  | _ => false

/-- `is_set_of_names` -/
def isSetOfNames : PyVal → Bool
  | .set xs => xs.all isNameV
  | _ => false

/-- `is_list_of_names` -/
def isListOfNames : PyVal → Bool
  | .list xs => xs.all isNameV
  | _ => false

/-- the `for arg_name, local_identifier in target_keyword_args.items()` loop -/
def checkKwItems : List (PyVal × PyVal) → Bool
  | [] => true
  | (k, v) :: r => if !isNameV k then false else if !isNameV v then false else checkKwItems r

/-- one iteration of the loop of `is_list_of_call_specs`: `ok true` = fall through to the next
spec, `ok false` = `return False`, crash = `.items()` on something that is not a dict. -/
def checkSpec : PyVal → Outcome Bool
  | .tuple [tn, ta] =>
    if !isNameV tn then .ok false
    else match ta with
      | .tuple [pa, ka] =>
        if !isListOfNames pa then .ok false
        else (match ka with
          | .dict items => .ok (checkKwItems items)
          | _ => .crash .noItemsAttr)
      | _ => .ok false
  | _ => .ok false

def checkSpecs : List PyVal → Outcome Bool
  | [] => .ok true
  | s :: r =>
    match checkSpec s with
    | .ok true => checkSpecs r
    | .ok false => .ok false
    | .fatal f => .fatal f
    | .crash c => .crash c

/-- `is_list_of_call_specs` -/
def isListOfCallSpecs : PyVal → Outcome Bool
  | .list xs => checkSpecs xs
  | _ => .ok false

/-! ### parse_rattr_results_from_annotation_args_impl + validate_rattr_results -/

def kGets : Str := ['g', 'e', 't', 's']
def kSets : Str := ['s', 'e', 't', 's']
def kDels : Str := ['d', 'e', 'l', 's']
def kCalls : Str := ['c', 'a', 'l', 'l', 's']

/-- the keys of the results dict, in the order the code writes them -/
def resultKeys : List Str := [kGets, kSets, kDels, kCalls]

structure Raw where
  gets : PyVal
  sets : PyVal
  dels : PyVal
  calls : PyVal

abbrev KwVals := Dict (Option Str) PyVal

/-- `named_args[kwarg.arg] = safe_eval(kwarg.value)` for each keyword, in order; `**d` has
`kwarg.arg = None`. -/
def evalKws : List (Option Str × Lit) → KwVals → Outcome KwVals
  | [], acc => .ok acc
  | (k, l) :: r, acc =>
    match safeEval l with
    | .ok v => evalKws r (Dict.set acc k v)
    | .fatal f => .fatal f
    | .crash c => .crash c

/-- `parse_annotation` on the decorator's arguments: positionals first, then keywords. -/
def evalArgs (pos : List Lit) (kws : List (Option Str × Lit)) : Outcome (List PyVal × KwVals) :=
  match safeEvalL pos with
  | .ok pv =>
    (match evalKws kws [] with
     | .ok kv => .ok (pv, kv)
     | .fatal f => .fatal f
     | .crash c => .crash c)
  | .fatal f => .fatal f
  | .crash c => .crash c

def kwGet (kv : KwVals) (k : Str) (dflt : PyVal) : PyVal :=
  match Dict.get? kv (some k) with
  | some v => v
  | none => dflt

/-- the results dict after the `for key, results in decorator_kwargs.items()` loop: defaults
`set()`, `set()`, `set()`, `list()`. -/
def rawOf (kv : KwVals) : Raw :=
  { gets := kwGet kv kGets (.set []), sets := kwGet kv kSets (.set []),
    dels := kwGet kv kDels (.set []), calls := kwGet kv kCalls (.list []) }

def knownKey : Option Str → Bool
  | some k => resultKeys.contains k
  | none => false

/-- `validate_rattr_results` (the `RattrResultsError` is turned into `error.fatal` by the caller) -/
def validate (r : Raw) : Outcome Unit :=
  if !isSetOfNames r.gets then .fatal (.expectsSetOfNames kGets)
  else if !isSetOfNames r.sets then .fatal (.expectsSetOfNames kSets)
  else if !isSetOfNames r.dels then .fatal (.expectsSetOfNames kDels)
  else match isListOfCallSpecs r.calls with
    | .ok true => .ok ()
    | .ok false => .fatal .expectsCallSpecs
    | .fatal f => .fatal f
    | .crash c => .crash c

/-- A declared call: `Call(name=…, args=CallArguments(args, kwargs))`; the `Call` converter strips
trailing `()` from the name. The call *target* is `context.get_call_target(name)` (model:
`Context.getCallTarget`, applied in the driver). -/
structure DeclCall where
  name : Str
  args : List Str
  kwargs : Dict Str Str
  deriving DecidableEq, Repr

/-- The IR of a `rattr_results`-annotated callable. Sets are lists (order = order written). -/
structure DeclaredIr where
  gets : List NameS
  sets : List NameS
  dels : List NameS
  calls : List DeclCall
  deriving DecidableEq, Repr

/-- `as_name`: `Name(name, basename = name.replace("*", "").split(".")[0])` -/
def asName (s : Str) : NameS :=
  { full := s, base := ((splitDot (removeChar s '*')).head?).getD [] }

/-- the strings of a list of values; `none` where Python would raise (`.replace` on a non-str) -/
def strsOf : List PyVal → Option (List Str)
  | [] => some []
  | .str s :: r => (strsOf r).map (s :: ·)
  | _ :: _ => none

def pairsOf : List (PyVal × PyVal) → Option (List (Str × Str))
  | [] => some []
  | (.str k, .str v) :: r => (pairsOf r).map ((k, v) :: ·)
  | _ :: _ => none

def namesOfSet : PyVal → Option (List NameS)
  | .set xs => (strsOf xs).map (·.map asName)
  | _ => none

/-- `as_call`: `(target_name, (args, kwargs)) = call` -/
def asCall : PyVal → Option DeclCall
  | .tuple [.str n, .tuple [.list pa, .dict items]] =>
    match strsOf pa, pairsOf items with
    | some a, some k => some { name := withoutCallBrackets n, args := a, kwargs := k }
    | _, _ => none
  | _ => none

def asCalls : List PyVal → Option (List DeclCall)
  | [] => some []
  | c :: r =>
    match asCall c, asCalls r with
    | some d, some ds => some (d :: ds)
    | _, _ => none

/-- the final dict comprehension of `parse_rattr_results_from_annotation`; `none` = some
`as_name` / `as_call` would raise (never after a successful `validate`: `build_total`). -/
def build (r : Raw) : Option DeclaredIr :=
  match namesOfSet r.gets, namesOfSet r.sets, namesOfSet r.dels, r.calls with
  | some g, some s, some d, .list cs =>
    (match asCalls cs with
     | some c => some { gets := g, sets := s, dels := d, calls := c }
     | none => none)
  | _, _, _, _ => none

/-- everything after `parse_annotation` returned. -/
def checkArgs (pv : List PyVal) (kv : KwVals) : Outcome DeclaredIr :=
  if !pv.isEmpty then .fatal .positionalArgs
  else if !(Dict.keys kv).all knownKey then .fatal .unexpectedKeywords
  else
    let raw := rawOf kv
    match validate raw with
    | .ok () =>
      (match build raw with
       | some ir => .ok ir
       | none => .crash .buildRaised)
    | .fatal f => .fatal f
    | .crash c => .crash c

/-- `parse_rattr_results_from_annotation` on the arguments of the (single) `rattr_results`
decorator: a `SystemExit` out of `parse_annotation` whose message contains "unable to evaluate"
(every `safe_eval` fatal) is replaced by the "likely missing a comma" fatal; other exceptions
propagate. -/
def parseResults (pos : List Lit) (kws : List (Option Str × Lit)) : Outcome DeclaredIr :=
  match evalArgs pos kws with
  | .ok (pv, kv) => checkArgs pv kv
  | .fatal _ => .fatal .likelyMissingComma
  | .crash c => .crash c

/-! ### decorators, `has_annotation`, `get_annotation` -/

/-- `get_attrname(decorator)`: the identifier of a Name, the attr of an Attribute, recursively the
func of a Call; anything else raises `TypeError`. -/
inductive DecoHead where
  | named (n : Str)
  | bad
  deriving DecidableEq, Repr

/-- A decorator: its `get_attrname` and, when it is an `ast.Call`, its arguments. -/
structure Deco where
  head : DecoHead
  call : Option (List Lit × List (Option Str × Lit))

def nIgnore : Str := "rattr_ignore".toList
def nResults : Str := "rattr_results".toList
def nStatic : Str := "staticmethod".toList

/-- `name in map(get_attrname, decorator_list)` — lazy: stops at the first match, raises at the
first decorator `get_attrname` cannot name before that. -/
def hasAnnotation (name : Str) : List Deco → Outcome Bool
  | [] => .ok false
  | d :: r =>
    match d.head with
    | .bad => .crash .decoratorShape
    | .named n => if n = name then .ok true else hasAnnotation name r

/-- the loop of `get_annotation`: all decorators are named. -/
def matching (name : Str) : List Deco → Outcome (List Deco)
  | [] => .ok []
  | d :: r =>
    match d.head with
    | .bad => .crash .decoratorShape
    | .named n =>
      match matching name r with
      | .ok ms => .ok (if n = name then d :: ms else ms)
      | .fatal f => .fatal f
      | .crash c => .crash c

/-- `get_annotation` -/
def getAnnotation (name : Str) (ds : List Deco) : Outcome (Option Deco) :=
  match matching name ds with
  | .ok [] => .ok none
  | .ok [d] => .ok (some d)
  | .ok _ => .fatal .duplicatedAnnotation
  | .fatal f => .fatal f
  | .crash c => .crash c

/-- `parse_rattr_results_from_annotation(fn_def)`: a decorator that is not a Call (bare
`@rattr_results`) has no arguments. -/
def parseAnnotated (ds : List Deco) : Outcome DeclaredIr :=
  match getAnnotation nResults ds with
  | .ok none => parseResults [] []
  | .ok (some d) =>
    (match d.call with
     | none => parseResults [] []
     | some (pos, kws) => parseResults pos kws)
  | .fatal f => .fatal f          -- duplicated annotation: printed and re-raised
  | .crash c => .crash c

/-! ### the per-definition decisions -/

/-- `is_excluded_name(name)`: `verdicts` = for each `--exclude` pattern, whether
`pattern.fullmatch(name)` succeeds (computed by `re`, a parameter of the model). -/
def isExcluded (verdicts : List Bool) : Bool := verdicts.any id

inductive Decision where
  | skip                         -- early return: no IR entry
  | declared (ir : DeclaredIr)   -- entry = the declared IR, the body is not looked at
  | analyse                      -- entry = FunctionAnalyser(body) (or a custom analyser)
  deriving DecidableEq, Repr

/-- `FileAnalyser.visit_AnyFunctionDef` for a def that is in the root context. -/
def fileDecision (ds : List Deco) (verdicts : List Bool) : Outcome Decision :=
  match hasAnnotation nIgnore ds with
  | .ok true => .ok .skip
  | .ok false =>
    if isExcluded verdicts then .ok .skip
    else (match hasAnnotation nResults ds with
      | .ok true =>
        (match parseAnnotated ds with
         | .ok ir => .ok (.declared ir)
         | .fatal f => .fatal f
         | .crash c => .crash c)
      | .ok false => .ok .analyse
      | .fatal f => .fatal f
      | .crash c => .crash c)
  | .fatal f => .fatal f
  | .crash c => .crash c

/-- `FileAnalyser.visit_ClassDef` + `ClassAnalyser.visit_initialiser`: the decision for the
class's own entry (present only when the class has an `__init__`). -/
def classDecision (ds : List Deco) (verdicts : List Bool) : Outcome Decision :=
  fileDecision ds verdicts

/-- `ClassAnalyser.visit_static_method`: neither the method's decorators nor the exclusion
patterns are consulted (the qualified name `Cls.method` is never passed to `is_excluded_name`). -/
def staticMethodDecision (_ds : List Deco) (_verdicts : List Bool) : Outcome Decision := .ok .analyse

/-- `FileAnalyser.visit_LambdaAssign`: exclusion patterns are not consulted. -/
def lambdaDecision (_verdicts : List Bool) : Outcome Decision := .ok .analyse

/-! ### a file as the list of its callables -/

inductive CKind where
  | func          -- def / async def at module level
  | cls           -- class with an `__init__` (entry = the initialiser)
  | static (clsDecos : List Deco) (clsVerdicts : List Bool)   -- static method of a class
  | lam           -- `name = lambda …`

structure Callable where
  name : Str             -- the key (for a static method: `Cls.method`)
  kind : CKind
  decos : List Deco
  verdicts : List Bool   -- fullmatch verdicts of the patterns on `name`

/-- the decision for one callable of a file -/
def decisionOf (c : Callable) : Outcome Decision :=
  match c.kind with
  | .func => fileDecision c.decos c.verdicts
  | .cls => classDecision c.decos c.verdicts
  | .static cd cv =>
    (match fileDecision cd cv with           -- the enclosing class is visited first
     | .ok .skip => .ok .skip
     | .ok _ => staticMethodDecision c.decos c.verdicts
     | .fatal f => .fatal f
     | .crash k => .crash k)
  | .lam => lambdaDecision c.verdicts

/-- the keys of the file IR, in definition order; the first fatal / crash ends the analysis -/
def irKeys : List Callable → Outcome (List Str)
  | [] => .ok []
  | c :: r =>
    match decisionOf c with
    | .ok d =>
      (match irKeys r with
       | .ok ks => .ok (if d = .skip then ks else c.name :: ks)
       | .fatal f => .fatal f
       | .crash k => .crash k)
    | .fatal f => .fatal f
    | .crash k => .crash k

/-- `resolve_function` / `resolve_import` / `resolve_class_init`, as far as C11 is concerned:
a call whose target is a function is inlined iff the target's name matches no exclusion
(`targetExcluded`, functions only) and the target has an IR entry. -/
def inlined (keys : List Str) (target : Str) (targetIsFunc : Bool) (targetExcluded : Bool) : Bool :=
  if targetIsFunc && targetExcluded then false else keys.contains target

end Rattr.Ann

/-
  RattrModel.ImportBlocks — WHICH import statements of a file become edges (stage S2, property C12).

  `RootContextBuilder` (rattr/models/context/_root_context.py) does not walk the whole tree of a module:
  `register(node)` looks up `visit_<class of node>` and does nothing when there is none; the visitors of
  the compound statements hand their child statement lists to `register_stmts`:

      visit_If / visit_For / visit_AsyncFor / visit_While   register_stmts(*node.body, *node.orelse)
      visit_With / visit_AsyncWith                          register_stmts(*node.body)
      visit_Try     register_stmts(*node.body, *node.orelse, *node.finalbody, *(handlers' bodies))
      visit_TryStar self.visit_Try(node)                                  (since /repo 6e8e4cc)
      visit_Match   register_stmts(*(stmt for case in node.cases for stmt in case.body))   (since 6e8e4cc)
      (visit_ClassDef / visit_FunctionDef add ONE symbol, no descent)

  (Tie A: `Generated.C12.blockVisitors`, regenerated from the class on every run.)

  `Blk α` is the block structure of a module body as far as that walk is concerned; a leaf is one import
  symbol written in the file (`α` = whatever identifies it). `regL` = the leaves `register_stmts` reaches,
  in its order = the `Import` symbols of the root context = what `parse_and_analyse_imports` enqueues.
  `writtenL` = every leaf, in source order = every import Python may execute when it imports the module.
-/
namespace Rattr.Blocks

inductive Blk (α : Type) where
  /-- one import symbol -/
  | leaf (a : α)
  /-- `ast.If` (an `elif` is an `If` that is the only statement of `orelse`) -/
  | ifS (body orelse : List (Blk α))
  /-- `ast.For`, `ast.AsyncFor`, `ast.While` -/
  | loopS (body orelse : List (Blk α))
  /-- `ast.With`, `ast.AsyncWith` -/
  | withS (body : List (Blk α))
  /-- `ast.Try`, `ast.TryStar` (`visit_TryStar` calls `visit_Try`); `handlers` = the bodies of the handlers,
  concatenated in order -/
  | tryS (body handlers orelse final : List (Blk α))
  /-- `ast.Match`; `cases` = the bodies of the cases, concatenated in order -/
  | matchS (cases : List (Blk α))
  /-- a statement whose class has no descending visitor (`ClassDef`, `FunctionDef`, …);
  `kids` = every statement below it, in source order -/
  | noVisit (kids : List (Blk α))
  deriving Repr

variable {α : Type}

mutual
/-- `RootContextBuilder.register(node)`, as far as import symbols are concerned -/
def reg : Blk α → List α
  | .leaf a => [a]
  | .ifS b o => regL b ++ regL o
  | .loopS b o => regL b ++ regL o
  | .withS b => regL b
  | .tryS b h o f => regL b ++ (regL o ++ (regL f ++ regL h))
  | .matchS c => regL c
  | .noVisit _ => []
/-- `register_stmts(*stmts)` -/
def regL : List (Blk α) → List α
  | [] => []
  | x :: r => reg x ++ regL r
end

mutual
/-- every import symbol written below a statement, in source order -/
def written : Blk α → List α
  | .leaf a => [a]
  | .ifS b o => writtenL b ++ writtenL o
  | .loopS b o => writtenL b ++ writtenL o
  | .withS b => writtenL b
  | .tryS b h o f => writtenL b ++ (writtenL h ++ (writtenL o ++ writtenL f))
  | .matchS c => writtenL c
  | .noVisit k => writtenL k
def writtenL : List (Blk α) → List α
  | [] => []
  | x :: r => written x ++ writtenL r
end

mutual
/-- no statement of a class without a descending visitor anywhere in the tree -/
def descended : Blk α → Bool
  | .leaf _ => true
  | .ifS b o => descendedL b && descendedL o
  | .loopS b o => descendedL b && descendedL o
  | .withS b => descendedL b
  | .tryS b h o f => descendedL b && descendedL h && descendedL o && descendedL f
  | .matchS c => descendedL c
  | .noVisit _ => false
def descendedL : List (Blk α) → Bool
  | [] => true
  | x :: r => descended x && descendedL r
end

mutual
/-- no `try` statement anywhere (then the order of registration is the source order) -/
def tryFree : Blk α → Bool
  | .leaf _ => true
  | .ifS b o => tryFreeL b && tryFreeL o
  | .loopS b o => tryFreeL b && tryFreeL o
  | .withS b => tryFreeL b
  | .tryS _ _ _ _ => false
  | .matchS c => tryFreeL c
  | .noVisit _ => false
def tryFreeL : List (Blk α) → Bool
  | [] => true
  | x :: r => tryFree x && tryFreeL r
end

mutual
/-- The same module body as the code BEFORE /repo 6e8e4cc walked it: no `visit_Match` (an `except*` statement
cannot be told from a `try` in `Blk`; it was lost in the same way). -/
def before6e8e4cc : Blk α → Blk α
  | .leaf a => .leaf a
  | .ifS b o => .ifS (before6e8e4ccL b) (before6e8e4ccL o)
  | .loopS b o => .loopS (before6e8e4ccL b) (before6e8e4ccL o)
  | .withS b => .withS (before6e8e4ccL b)
  | .tryS b h o f => .tryS (before6e8e4ccL b) (before6e8e4ccL h) (before6e8e4ccL o) (before6e8e4ccL f)
  | .matchS c => .noVisit c
  | .noVisit k => .noVisit k
def before6e8e4ccL : List (Blk α) → List (Blk α)
  | [] => []
  | x :: r => before6e8e4cc x :: before6e8e4ccL r
end

/-- The visitor table the model transcribes: per `ast` statement class that has child statement lists,
the body of `RootContextBuilder.visit_<class>` (`ast.unparse`), or `<no visit_ method>`. -/
def visitorTable : List (String × String) :=
  [("If", "self.register_stmts(*node.body, *node.orelse)"),
   ("For", "self.register_stmts(*node.body, *node.orelse)"),
   ("AsyncFor", "self.register_stmts(*node.body, *node.orelse)"),
   ("While", "self.register_stmts(*node.body, *node.orelse)"),
   ("With", "self.register_stmts(*node.body)"),
   ("AsyncWith", "self.register_stmts(*node.body)"),
   ("Try", "self.register_stmts(*node.body, *node.orelse, *node.finalbody, *(stmt for handler in node.handlers for stmt in handler.body))"),
   ("TryStar", "self.visit_Try(node)"),
   ("Match", "self.register_stmts(*(stmt for case in node.cases for stmt in case.body))"),
   ("ClassDef", "self.context.add(Class.from_class_def(node))"),
   ("FunctionDef", "self.context.add(Func.from_fn_def(node))"),
   ("AsyncFunctionDef", "self.context.add(Func.from_fn_def(node))")]

/-- `register` / `register_stmts` themselves -/
def registerBodies : List String :=
  ["register: if isinstance(node, ast.Module): ;     return TypeError('use register_stmts(module.body) for modules')",
   "register: visit_method_name = f'visit_{node.__class__.__name__}'",
   "register: visit = getattr(self, visit_method_name, None)",
   "register: if visit is None: ;     return",
   "register: return visit(node)",
   "register_stmts: for stmt in stmts: ;     self.register(stmt)"]

end Rattr.Blocks

/-
  RattrModel.Cache — model of rattr's result cache (stages S1 and S9, property C19).

  Anchors:
    rattr/__main__.py                main: unlink on `-r`, early return on a hit, `write_cache_file`
    rattr/models/results/util.py     target_cache_file_is_up_to_date, make_cacheable_results,
                                     make_cacheable_import_info, make_arguments_hash, make_plugins_hash
    rattr/models/results/cacheable.py  CacheableResults, CacheableImportInfo, HashableArguments
    rattr/models/util/hash.py        hash_file_content (md5 of the empty string for a non-file)
    rattr/models/util/serialise.py   deserialise = json.loads + cattrs structuring

  Two layers.

  * The abstract layer is generic in the types of paths `P`, content hashes `H`, hashed option tuples
    `O`, un-hashed options `X` and results `R`. md5 is treated as injective, so a "hash" is simply the
    content it was computed from (trusted base, DESIGN §6.5). The analysis itself is NOT modelled
    here: it enters as the parameter record `Analysis` (`fresh`, `recorded`, `readSet`, `fails`).
    What the theorems need from it is stated as the explicit hypothesis `Frame` (RattrProofs/Props/C19).
  * The document layer models what `deserialise(text, type=CacheableResults)` does to an arbitrary
    JSON value (`JVal`): which values structure into a document (with cattrs' defaults and
    `str()` coercions) and which raise; only `json.JSONDecodeError` is caught by the gate.
-/
import RattrModel.Basic

namespace Rattr.Cache

/-! ## Worlds -/

/-- The fixed directory structure: which paths are regular files (never changed by an op), and the
hash `hash_file_content` returns for anything that is not a file (md5 of no bytes). -/
structure Dir (P H : Type) where
  isFile : P → Bool
  emptyHash : H

/-- Everything a run of rattr depends on. `opts` is the tuple that `make_arguments_hash` hashes
(`HashableArguments`), `other` every other option (verbosity, output, strictness, threshold …). -/
structure World (P H O X : Type) where
  target : P
  contents : P → H
  opts : O
  other : X
  version : H
  plugins : H

variable {P H O X R : Type}

def World.setContent [DecidableEq P] (w : World P H O X) (p : P) (c : H) : World P H O X :=
  { w with contents := fun q => if q = p then c else w.contents q }

/-- `hash_file_content(p)`: the content hash of a file, the hash of nothing for a non-file. -/
def hashFile (D : Dir P H) (w : World P H O X) (p : P) : H :=
  if D.isFile p then w.contents p else D.emptyHash

/-! ## The cache document (`CacheableResults`) -/

structure Doc (P H O R : Type) where
  version : H
  argumentsHash : O
  pluginsHash : H
  filepath : P
  filehash : H
  imports : List (P × H)
  results : R
  deriving DecidableEq, Repr

/-- Names of the attrs fields of `CacheableResults`, in declaration order (Tie A: `cacheFields`). -/
def docFields : List String :=
  ["version", "arguments_hash", "plugins_hash", "filepath", "filehash", "imports", "results"]

/-- Names of the fields of `HashableArguments`, i.e. what `World.opts` stands for (Tie A). -/
def hashedOptionNames : List String :=
  ["literal_value_prefix", "follow_imports_level", "excluded_imports", "excluded_names"]

/-- The fields the gate compares, in the order of the conjunction (Tie A: ast scan of the `return`). -/
def comparedFields : List String :=
  ["version", "arguments_hash", "plugins_hash", "filepath", "filehash", "imports"]

/-- Exception classes caught around `deserialise` in the gate (Tie A). Since the upstream fix
16f7ad6 ("treat an unreadable or wrong-shaped cache file as stale") this is `Exception`. -/
def caughtExceptions : List String := ["Exception"]

/-- The conjunction at the end of `target_cache_file_is_up_to_date`. -/
def upToDate [DecidableEq P] [DecidableEq H] [DecidableEq O]
    (D : Dir P H) (w : World P H O X) (d : Doc P H O R) : Bool :=
  decide (d.version = w.version)
  && decide (d.argumentsHash = w.opts)
  && decide (d.pluginsHash = w.plugins)
  && decide (d.filepath = w.target)
  && decide (d.filehash = hashFile D w w.target)
  && d.imports.all (fun i => decide (i.2 = hashFile D w i.1))

/-! ## The analysis, as parameters -/

/-- What the rest of the pipeline contributes. `fresh w` = the `FileResults` of a from-scratch run;
`recorded w` = the origins `make_cacheable_import_info` collects (every `Import` symbol, with an
origin and not blacklisted, of the target's context and of every analysed module's context);
`readSet w` = the files whose content the analysis reads (target + every followed module);
`fails w` = the run ends in `error.fatal` (e.g. badness over the threshold) before the cache is written. -/
structure Analysis (P H O X R : Type) where
  fresh : World P H O X → R
  recorded : World P H O X → List P
  readSet : World P H O X → List P
  fails : World P H O X → Bool

/-- `make_cacheable_results`. -/
def make (D : Dir P H) (A : Analysis P H O X R) (w : World P H O X) : Doc P H O R :=
  { version := w.version
    argumentsHash := w.opts
    pluginsHash := w.plugins
    filepath := w.target
    filehash := hashFile D w w.target
    imports := (A.recorded w).map (fun p => (p, hashFile D w p))
    results := A.fresh w }

/-! ## The cache file and the gate -/

/-- Exceptions raised while the gate runs, other than `JSONDecodeError`. The first three come out
of `Path(cache).read_text()` / `deserialise` (inside the `try`); `osError` comes out of
`hash_file_content` in the comparison conjunction (outside the `try`). -/
inductive StructErr where
  | typeError        -- `'version' in o` on a non-container
  | classValidation  -- cattrs `ClassValidationError` (a field failed to structure)
  | unicodeDecode    -- `read_text()` on bytes that are not UTF-8
  | osError          -- `open()/read()` fails on a path for which `isfile` is true
  deriving DecidableEq, Repr

/-- The Python class of each exception. -/
def excName : StructErr → String
  | .typeError => "TypeError"
  | .classValidation => "cattrs.errors.ClassValidationError"
  | .unicodeDecode => "UnicodeDecodeError"
  | .osError => "OSError"

/-- Does an `except <classes>:` clause catch `e`? (All four are subclasses of `Exception`.) -/
def isCaught (classes : List String) (e : StructErr) : Bool :=
  classes.contains "Exception" || classes.contains "BaseException" || classes.contains (excName e)

/-- The cache file as the gate sees it. -/
inductive CacheFile (P H O R : Type) where
  | absent
  | malformed                         -- not JSON: `JSONDecodeError`, caught
  | crashing (e : StructErr)          -- an exception nobody catches
  | valid (d : Doc P H O R)           -- structures into a document
  deriving DecidableEq, Repr

inductive Verdict where
  | fresh | stale | crash (e : StructErr)
  deriving DecidableEq, Repr

/-- `target_cache_file_is_up_to_date(target, cache)` over a directory structure in which every
regular file can be read (the fragment of the history theorems; `gateIO` below lifts that). An
exception out of `read_text` / `deserialise` is answered according to the `except` clause. -/
def gate [DecidableEq P] [DecidableEq H] [DecidableEq O]
    (D : Dir P H) (w : World P H O X) (f : CacheFile P H O R) : Verdict :=
  if D.isFile w.target then
    match f with
    | .absent => .stale
    | .malformed => .stale
    | .crashing e => if isCaught caughtExceptions e then .stale else .crash e
    | .valid d => if upToDate D w d then .fresh else .stale
  else .stale

/-! ### Where the conjunction itself can still raise

`hash_file_content(p)` is `isfile(p)` (never raises: `OSError`/`ValueError` are swallowed, so NUL
bytes, lone surrogates, over-long names, directories and devices are simply "not a file") followed
by `open(p, "rb")` + `read`, which raise `OSError` when `p` is a regular file that cannot be read
(permissions, `/proc/self/mem`, I/O errors). The conjunction is outside the `try`, so that
exception escapes. Python's `and` / `all` short-circuit, so the read of an import's file happens only
if every earlier conjunct held. `unr p` = "`p` is a regular file whose read raises". -/

/-- Does `all(info.filehash == hash_file_content(info.filepath) for info in imports)` raise? -/
def importsRaise [DecidableEq H] (D : Dir P H) (unr : P → Bool) (w : World P H O X) :
    List (P × H) → Bool
  | [] => false
  | i :: r =>
    if D.isFile i.1 && unr i.1 then true
    else if i.2 = hashFile D w i.1 then importsRaise D unr w r
    else false

/-- Does the comparison conjunction raise `OSError` on document `d`? -/
def readRaises [DecidableEq P] [DecidableEq H] [DecidableEq O]
    (D : Dir P H) (unr : P → Bool) (w : World P H O X) (d : Doc P H O R) : Bool :=
  decide (d.version = w.version)
  && decide (d.argumentsHash = w.opts)
  && decide (d.pluginsHash = w.plugins)
  && decide (d.filepath = w.target)
  && ((D.isFile w.target && unr w.target)
      || (decide (d.filehash = hashFile D w w.target) && importsRaise D unr w d.imports))

/-- The gate with unreadable regular files taken into account. -/
def gateIO [DecidableEq P] [DecidableEq H] [DecidableEq O]
    (D : Dir P H) (unr : P → Bool) (w : World P H O X) (f : CacheFile P H O R) : Verdict :=
  match f with
  | .valid d =>
    if D.isFile w.target && readRaises D unr w d then .crash .osError else gate D w f
  | _ => gate D w f

/-! ## `main` as a state machine over histories -/

/-- The two local modules of the fixed project (the target path is `World.target`). -/
structure Layout (P : Type) where
  direct : P
  transitive : P

inductive Op (H O X : Type) where
  | editTarget (c : H)
  | editDirect (c : H)
  | editTransitive (c : H)
  | changeOption (o : O) (x : X)
  | runWithCache
  | forceRefresh
  deriving DecidableEq, Repr

structure State (P H O X R : Type) where
  world : World P H O X
  disk : CacheFile P H O R

inductive Out where
  | noRun                 -- the op was not a run of rattr
  | hit                   -- "cache is up-to-date, doing nothing", exit 0
  | missWritten           -- analysed, cache (re)written
  | missFatal             -- analysed, `error.fatal` before the write: cache untouched
  | crash (e : StructErr) -- traceback out of the gate
  deriving DecidableEq, Repr

section machine
variable [DecidableEq P] [DecidableEq H] [DecidableEq O]
variable (D : Dir P H) (A : Analysis P H O X R) (L : Layout P)

/-- Everything in `main` after the gate. -/
def analyse (s : State P H O X R) : State P H O X R × Out :=
  if A.fails s.world then (s, .missFatal)
  else ({ s with disk := .valid (make D A s.world) }, .missWritten)

def step (s : State P H O X R) : Op H O X → State P H O X R × Out
  | .editTarget c => ({ s with world := s.world.setContent s.world.target c }, .noRun)
  | .editDirect c => ({ s with world := s.world.setContent L.direct c }, .noRun)
  | .editTransitive c => ({ s with world := s.world.setContent L.transitive c }, .noRun)
  | .changeOption o x => ({ s with world := { s.world with opts := o, other := x } }, .noRun)
  | .runWithCache =>
    match gate D s.world s.disk with
    | .fresh => (s, .hit)
    | .crash e => (s, .crash e)
    | .stale => analyse D A s
  | .forceRefresh => analyse D A { s with disk := .absent }

def exec (s : State P H O X R) : List (Op H O X) → State P H O X R
  | [] => s
  | o :: os => exec (step D A L s o).1 os

/-- Outputs of every step, in order. -/
def outs (s : State P H O X R) : List (Op H O X) → List Out
  | [] => []
  | o :: os => (step D A L s o).2 :: outs (step D A L s o).1 os

/-- Ghost state: the world of the last run that wrote the cache (`init` before the history). -/
def lastWritten (init : Option (World P H O X)) (s : State P H O X R) :
    List (Op H O X) → Option (World P H O X)
  | [] => init
  | o :: os =>
    lastWritten (if (step D A L s o).2 = .missWritten then some s.world else init)
      (step D A L s o).1 os

end machine

/-! ## The document layer: what `deserialise` does to a JSON value -/

/-- A value produced by `json.loads`. Numbers carry the text `str()` gives them (only that matters:
they are never used as numbers). Objects have unique keys (as Python dicts have). -/
inductive JVal where
  | null
  | bool (b : Bool)
  | num (repr : Str)
  | str (s : Str)
  | arr (xs : List JVal)
  | obj (kvs : List (Str × JVal))
  deriving Repr

def isStrLit (n : Str) : JVal → Bool
  | .str s => decide (s = n)
  | _ => false

/-- `needle in haystack` for Python strings. -/
def isInfixB (n : Str) : Str → Bool
  | [] => n.isEmpty
  | c :: cs => n.isPrefixOf (c :: cs) || isInfixB n cs

/-- `name in o` for a Python `str` / `list` / `dict` (the value must be one of the three). -/
def pyContains (n : Str) : JVal → Bool
  | .str s => isInfixB n s
  | .arr xs => xs.any (isStrLit n)
  | .obj kvs => kvs.any (fun kv => decide (kv.1 = n))
  | _ => false

def lookup (k : Str) : List (Str × JVal) → Option JVal
  | [] => none
  | (k', v) :: r => if k' = k then some v else lookup k r

/-- cattrs' hook for `str`: `str(v)`, never fails. `render` stands for Python's `str()` of lists
and dicts, which is not modelled (a parameter; every theorem quantifies over it). -/
def asStr (render : JVal → Str) : JVal → Str
  | .str s => s
  | .null => str "None"
  | .bool true => str "True"
  | .bool false => str "False"
  | .num r => r
  | v => render v

/-- `Path(v)`: `TypeError` unless `v` is a string. -/
def asPath : JVal → Option Str
  | .str s => some s
  | _ => none

/-- A `str`-typed attrs field: default `""` when the key is missing, `str(v)` otherwise. -/
def fieldStr (render : JVal → Str) (k : String) (kvs : List (Str × JVal)) : Str :=
  match lookup (str k) kvs with
  | none => []
  | some v => asStr render v

/-- A `Path`-typed attrs field `filepath`: default `Path()` = `.`, else `Path(v)`; `none` = raised. -/
def fieldPath (kvs : List (Str × JVal)) : Option Str :=
  match lookup (str "filepath") kvs with
  | none => some (str ".")
  | some v => asPath v

abbrev ImportJ := Str × Str

/-- `CacheableImportInfo()`: `Path()` and `""`. -/
def defaultImport : ImportJ := (str ".", [])

def importFieldNames : List Str := [str "filepath", str "filehash"]

/-- Structuring one element of `imports` as `CacheableImportInfo`. `none` = an exception. -/
def structImport (render : JVal → Str) : JVal → Option ImportJ
  | .null => none
  | .bool _ => none
  | .num _ => none
  | .obj kvs => (fieldPath kvs).map (fun p => (p, fieldStr render "filehash" kvs))
  | v => if importFieldNames.any (fun n => pyContains n v) then none else some defaultImport

/-- `list[CacheableImportInfo]`: cattrs iterates whatever it is given. -/
def structImports (render : JVal → Str) : JVal → Option (List ImportJ)
  | .null => none
  | .bool _ => none
  | .num _ => none
  | .str s => some (s.map (fun _ => defaultImport))   -- one default entry per character
  | .arr xs => xs.mapM (structImport render)
  | .obj kvs => kvs.mapM (fun kv => structImport render (.str kv.1))

structure FnResJ where
  gets : List Str
  sets : List Str
  dels : List Str
  calls : List Str
  deriving DecidableEq, Repr

abbrev ResultsJ := List (Str × FnResJ)

/-- `set[str]`: iterate, `str()` every element. -/
def structSet (render : JVal → Str) : JVal → Option (List Str)
  | .null => none
  | .bool _ => none
  | .num _ => none
  | .str s => some (s.map (fun c => [c]))
  | .arr xs => some (xs.map (asStr render))
  | .obj kvs => some (kvs.map (·.1))

/-- `FunctionResults` (a total `TypedDict`): a dict with all four keys. -/
def structFn (render : JVal → Str) : JVal → Option FnResJ
  | .obj kvs => do
    let g ← (lookup (str "gets") kvs).bind (structSet render)
    let s ← (lookup (str "sets") kvs).bind (structSet render)
    let d ← (lookup (str "dels") kvs).bind (structSet render)
    let c ← (lookup (str "calls") kvs).bind (structSet render)
    pure { gets := g, sets := s, dels := d, calls := c }
  | _ => none

/-- `FileResults` via `dict[str, FunctionResults]`. -/
def structResults (render : JVal → Str) : JVal → Option ResultsJ
  | .obj kvs => kvs.mapM (fun kv => (structFn render kv.2).map (fun r => (kv.1, r)))
  | _ => none

abbrev DocJ := Doc Str Str Str ResultsJ

/-- `CacheableResults()`. -/
def defaultDoc : DocJ :=
  { version := [], argumentsHash := [], pluginsHash := [], filepath := str ".", filehash := [],
    imports := [], results := [] }

def docFieldNames : List Str := docFields.map str

def fieldImports (render : JVal → Str) (kvs : List (Str × JVal)) : Option (List ImportJ) :=
  match lookup (str "imports") kvs with
  | none => some []
  | some v => structImports render v

def fieldResults (render : JVal → Str) (kvs : List (Str × JVal)) : Option ResultsJ :=
  match lookup (str "results") kvs with
  | none => some []
  | some v => structResults render v

/-- `converter.structure(v, CacheableResults)`: missing keys take the attrs defaults, extra keys
are ignored, `str` fields are coerced with `str()`, everything else must structure. -/
def structureDoc (render : JVal → Str) : JVal → Except StructErr DocJ
  | .null => .error .typeError
  | .bool _ => .error .typeError
  | .num _ => .error .typeError
  | .obj kvs =>
    match fieldPath kvs, fieldImports render kvs, fieldResults render kvs with
    | some p, some i, some r =>
      .ok { version := fieldStr render "version" kvs,
            argumentsHash := fieldStr render "arguments_hash" kvs,
            pluginsHash := fieldStr render "plugins_hash" kvs,
            filepath := p,
            filehash := fieldStr render "filehash" kvs,
            imports := i, results := r }
    | _, _, _ => .error .classValidation
  | v => if docFieldNames.any (fun n => pyContains n v) then .error .classValidation
         else .ok defaultDoc

/-- What `Path(cache).read_text()` + `json.loads` make of the bytes on disk. -/
inductive FileContent where
  | notUtf8
  | notJson
  | json (v : JVal)

def classify (render : JVal → Str) : Option FileContent → CacheFile Str Str Str ResultsJ
  | none => .absent
  | some .notUtf8 => .crashing .unicodeDecode
  | some .notJson => .malformed
  | some (.json v) =>
    match structureDoc render v with
    | .ok d => .valid d
    | .error e => .crashing e

/-- The gate on raw file content. -/
def gateJ (render : JVal → Str) (D : Dir Str Str) (w : World Str Str Str X)
    (f : Option FileContent) : Verdict :=
  gate D w (classify render f)

/-- The gate on raw file content, with unreadable regular files. -/
def gateJIO (render : JVal → Str) (D : Dir Str Str) (unr : Str → Bool) (w : World Str Str Str X)
    (f : Option FileContent) : Verdict :=
  gateIO D unr w (classify render f)

/-- The shape the cache document is declared to have (independent of cattrs' leniency): an object
whose fields, where present, have the JSON types of the attrs declaration. -/
def isStr : JVal → Bool
  | .str _ => true
  | _ => false

def wsImport : JVal → Bool
  | .obj kvs => (kvs.all fun kv => isStr kv.2)
  | _ => false

def wsSet : JVal → Bool
  | .arr xs => xs.all isStr
  | _ => false

def wsFn : JVal → Bool
  | .obj kvs =>
    [str "gets", str "sets", str "dels", str "calls"].all fun k =>
      match lookup k kvs with
      | some v => wsSet v
      | none => false
  | _ => false

def wsField (k : Str) (v : JVal) : Bool :=
  if k = str "imports" then (match v with | .arr xs => xs.all wsImport | _ => false)
  else if k = str "results" then (match v with | .obj kvs => kvs.all (fun kv => wsFn kv.2) | _ => false)
  else if k ∈ docFieldNames then isStr v
  else true

def wellShaped : JVal → Bool
  | .obj kvs => kvs.all (fun kv => wsField kv.1 kv.2)
  | _ => false

/-! ## A token-level model of the printer (`serialise(results, indent=4)`) and of JSON values

Only the bracket structure matters for truncation: `o` = `{` or `[`, `c` = `}` or `]`, `a` = any
atom (a key with its colon, a string; the cache document contains no other scalar). Commas and
white space are dropped. A cut inside an atom leaves an unterminated string literal (not lexable);
a cut between atoms leaves a strict prefix of the token list — the case `C19_truncation` covers. -/

inductive Tok where
  | o | c | a
  deriving DecidableEq, Repr

/-- Token strings of sequences of JSON values: `S ::= ε | a S | o S c S`. -/
inductive IsSeq : List Tok → Prop where
  | nil : IsSeq []
  | atom {r : List Tok} : IsSeq r → IsSeq (.a :: r)
  | node {body r : List Tok} : IsSeq body → IsSeq r → IsSeq (.o :: body ++ .c :: r)

/-- Token strings of one JSON value: an atom, or a bracketed sequence of values. -/
def IsVal (s : List Tok) : Prop := s = [.a] ∨ ∃ body, IsSeq body ∧ s = .o :: body ++ [.c]

def toksImport (_ : ImportJ) : List Tok := [.o, .a, .a, .a, .a, .c]

def toksSet (xs : List Str) : List Tok := .o :: xs.map (fun _ => Tok.a) ++ [.c]

def toksFn (f : Str × FnResJ) : List Tok :=
  .a :: .o :: (.a :: toksSet f.2.gets ++ .a :: toksSet f.2.sets ++ .a :: toksSet f.2.dels
    ++ .a :: toksSet f.2.calls) ++ [.c]

/-- The printed cache document: five string fields, the list of imports, the results object. -/
def toksDoc (d : DocJ) : List Tok :=
  .o :: ([.a, .a, .a, .a, .a, .a, .a, .a, .a, .a]
    ++ .a :: (.o :: d.imports.flatMap toksImport ++ [.c])
    ++ .a :: (.o :: d.results.flatMap toksFn ++ [.c])) ++ [.c]

/-- Bracket depth after reading a token list from depth `d`; `none` if it would drop below 0. -/
def scan : Nat → List Tok → Option Nat
  | d, [] => some d
  | d, .o :: r => scan (d + 1) r
  | d, .a :: r => scan d r
  | 0, .c :: _ => none
  | d + 1, .c :: r => scan d r

end Rattr.Cache

/-
  RattrModel.FnVisitors — which AST classes `FunctionAnalyser` (rattr/analyser/function.py) has a
  dedicated `visit_*` method for, and the order of the steps of
  `ClassAnalyser.visit_static_method` (rattr/analyser/cls.py).

  `RattrModel/Ast.lean` gives every node kind WITHOUT a dedicated visitor the constructor
  `other kind kids` (`ast.NodeVisitor.generic_visit`: every child, in `_fields` order).  That is a
  statement about the CODE (no `visit_Match`, `visit_match_case`, `visit_If`, … exists); the lists
  below are what the model assumes, tied to the source by the regenerated table
  `Generated/C03.lean` (Props/C03 `tieA_function_visitors`, `tieA_generic_kinds_have_no_visitor`,
  `tieA_static_method_steps`).
-/
import RattrModel.Ast

namespace Rattr
namespace FnA

/-- AST classes with a dedicated `visit_<Class>` method. -/
def dedicatedKinds : List String :=
  ["AnnAssign", "Assign", "AsyncFor", "AsyncFunctionDef", "AsyncWith", "Attribute", "AugAssign", "Call",
   "ClassDef", "Constant", "Delete", "DictComp", "For", "FunctionDef", "GeneratorExp", "Global", "Import",
   "ImportFrom", "Lambda", "ListComp", "Name", "NamedExpr", "Nonlocal", "Return", "SetComp", "Starred",
   "Subscript", "With", "comprehension"]

/-- helper methods that are named `visit_*` but are no dispatch targets of `NodeVisitor.visit`. -/
def helperVisitors : List String :=
  ["AnyAssign", "AnyFunctionDef", "ClassAssign", "LambdaAssign", "NamedTupleAssign", "ReturnValue",
   "call_to_target_with_custom_analyser", "compound_name"]

def fnVisitors : List String := (dedicatedKinds ++ helperVisitors).map ("visit_" ++ ·)

/-- AST classes the round-3 inputs put a call under, all visited generically (the encoder hands them
to the model as `other`): `match` statements, cases and patterns, conditions and loops without a
target, `assert`, `raise`, `await`, `yield`, f-strings, operators, `try` and its handlers, expression
statements. -/
def genericKinds : List String :=
  ["Match", "match_case", "MatchValue", "MatchSingleton", "MatchSequence", "MatchMapping", "MatchClass",
   "MatchStar", "MatchAs", "MatchOr", "If", "While", "Assert", "Raise", "Await", "Yield", "YieldFrom",
   "JoinedStr", "FormattedValue", "BoolOp", "BinOp", "UnaryOp", "Compare", "IfExp", "Try", "TryStar",
   "ExceptHandler", "Expr", "Slice", "keyword"]

end FnA

namespace FileA

/-- `ClassAnalyser.visit_static_method`, the steps that matter for recursion, in source order:
`self.context.add(fn)` · `FunctionAnalyser(method, self.context)` · `.analyse()`. -/
def staticSteps : List String := ["context.add", "FunctionAnalyser", "analyse"]

end FileA
end Rattr

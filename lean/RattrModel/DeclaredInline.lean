/-
  RattrModel.DeclaredInline — what a CALLER gets from one call of a `rattr_results`-annotated callable.

  Code modelled (composition of three functions that are modelled separately):
    rattr/analyser/util.py             parse_rattr_results_from_annotation   → `Ann.parseResults` (DeclaredIr)
    rattr/results/_simplify_utils.py   construct_call_swaps                  → `Swaps.construct`
    rattr/results/_simplify_utils.py   unbind_ir_with_call_swaps             → `Results.unbindIr`
  as `destructively_simplify_ir_call_tree` (rattr/results/util.py) composes them for a child node whose
  entry is a declared IR (`Results.foldChild`):  parent |= unbind(declared, construct(callee interface, call)).

  The renaming is ONE dictionary lookup per name (`swaps.get(n.basename, n.basename)`): all parameters are
  replaced simultaneously; a name that was just renamed to an argument is never looked up again, even when
  that argument is spelled like another parameter of the callee.
-/
import RattrModel.Annotations
import RattrModel.Results
import RattrModel.Swaps

namespace Rattr.Ann
open Rattr

/-- the three sets of a declared IR, as the store of result generation holds them -/
def DeclaredIr.toSets (d : DeclaredIr) : IrSets := ⟨d.gets, d.sets, d.dels⟩

/-- `unbind_ir_with_call_swaps(declared, swaps)`; `none` = `raise ValueError("never")` -/
def unbindDeclared (sw : Dict Str Str) (d : DeclaredIr) : Option IrSets :=
  Results.unbindIr sw d.toSets

/-- one call `call` of an annotated callable with interface `f` whose declaration is `d`: what is unioned into
the caller's sets, and the diagnostics `construct_call_swaps` emits on the way. -/
def inlineDeclared (si : StandIns Str) (f : Iface Str) (call : CallArgs Str) (d : DeclaredIr) :
    Option IrSets × List (SwapDiag Str) :=
  let r := Swaps.construct si f call
  (unbindDeclared r.1 d, r.2)

/-- a DECLARED call `(name, (args, kwargs))` of the annotation seen as the call arguments of an edge -/
def DeclCall.callArgs (c : DeclCall) : CallArgs Str := { args := c.args, kwargs := c.kwargs }

end Rattr.Ann

/-
  RattrModel.MainCache — `rattr.__main__.main` with a CACHE FILE in play (`-C file`, with and without
  `-r`), under every configuration; and the one way a diagnostic CALL (not its message) can make the
  outcome depend on the verbosity: a culprit that the renderer cannot locate.

      main(config):
        if (cached := config.arguments.cache_file) is not None:
            if config.arguments.force_refresh_cache: cached.unlink(missing_ok=True)
            elif target_cache_file_is_up_to_date(target, cached):
                error.info("cache is up-to-date, doing nothing"); return 0
        … analysis, simplification, threshold gate, selected output on stdout …   -- `Diag.run`
        if config.arguments.cache_file is not None: write_cache_file(cache_file, cacheable results)
        return 0

      target_cache_file_is_up_to_date(target, cache):
        if not isfile(target): error.info("cache target … does not exist");  return False
        if not isfile(cache):  error.info("cache file … does not exist");    return False
        try: cache = deserialise(read_text(cache))
        except Exception:      error.info("cache file … is malformed");      return False
        return <version, hashes, filepath, file hashes all agree>

      write_cache_file(cache_file, results):
        try: mkdir(parents); write_text(…)
        except OSError as exc: error.fatal("unable to write the cache file …")

  All four `error.info` calls and the `error.fatal` run with NO current file (`Where.none`: booked
  under simplification, filtered as "inherited, low priority" — printed at `-w all` only), use the
  level's default weight and pass NO culprit (Tie A: `Generated.C16.siteCulprits`).

  `Gate` is what the gate finds at the cache path; the harness stages each case from the file's
  bytes (absent / directory / empty / truncated / other JSON / not UTF-8 / a document whose hashes
  disagree / the document of the previous run), never from what rattr answers.

  Culprits (`error.py: __log → get_file_and_line_info → __line_info`): the location of a culprit
  is evaluated ONLY when the line is really printed (the level functions return before `__log` when
  the filter drops the line). `None`, an `ast.AST` with a position and a `Symbol` render; anything
  else (an exception object, a string, …) raises `AttributeError` inside the logger. `runEventsC`
  is `Diag.runEvents` with that partiality made explicit.
-/
import RattrModel.MainRun

namespace Rattr.MainCache
open Rattr Rattr.Diag

/-! ## 1. The run with a cache file -/

/-- What `target_cache_file_is_up_to_date` finds. -/
inductive Gate
  /-- `not isfile(target)` (argument validation rejects such a target before `main`: only a direct call gets here) -/
  | noTarget
  /-- `not isfile(cache)`: nothing there, or something that is not a regular file (a directory) -/
  | absent
  /-- `read_text` / `deserialise` raise: not UTF-8, not JSON, JSON of another shape -/
  | malformed
  /-- a document, but some recorded fact disagrees (version, option / plugin hashes, target path, a file hash) -/
  | stale
  /-- a document and everything agrees -/
  | fresh
  deriving DecidableEq, Repr

def Gate.name : Gate → String
  | .noTarget => "noTarget" | .absent => "absent" | .malformed => "malformed" | .stale => "stale" | .fresh => "fresh"

def Gate.every : List Gate := [.noTarget, .absent, .malformed, .stale, .fresh]

/-- `target_cache_file_is_up_to_date`'s answer. -/
def Gate.upToDate : Gate → Bool
  | .fresh => true
  | _ => false

/-- The diagnostic the gate emits on its way to `return False`: `error.info(message)` — default
weight 0, no current file. -/
def gateEvents : Gate → List Event
  | .noTarget | .absent | .malformed => [⟨.info, 0, .none⟩]
  | .stale | .fresh => []

/-- The source shape the table above stands for (Tie A: `Generated.C16.cacheGateShape`): the
`error.*` calls of the gate and of `main`'s hit branch / `write_cache_file`, in source order, as
`<function>:<level>:<number of positional arguments>:<keywords>`. -/
def cacheGateShape : List String :=
  [ "main:info:1:", "main:fatal:1:", "write_cache_file:fatal:1:", "target_cache_file_is_up_to_date:info:1:",
    "target_cache_file_is_up_to_date:info:1:", "target_cache_file_is_up_to_date:info:1:" ]

/-- `-r`, the state of the cache path, and whether `mkdir(parents) + write_text` can succeed there. -/
structure Setup where
  refresh : Bool
  gate : Gate
  writable : Bool
  deriving DecidableEq, Repr

/-- What has happened to the cache path when the run ends. -/
inductive After
  /-- as it was before the run -/
  | unchanged
  /-- unlinked by `-r`, nothing written -/
  | removed
  /-- `write_cache_file` wrote the cacheable document of this run -/
  | written
  deriving DecidableEq, Repr

def After.name : After → String
  | .unchanged => "unchanged" | .removed => "removed" | .written => "written"

structure Result where
  /-- buckets, printed lines, exit status, "the selected output was printed" -/
  diag : Diag.Result
  cache : After
  deriving DecidableEq, Repr

/-- The hit branch: one `error.info`, exit 0, nothing on stdout, nothing written. -/
def hit (cfg : Cfg) : Result :=
  let o := info cfg State.init .none 0
  ⟨⟨o.state, o.printed, 0, false⟩, .unchanged⟩

/-- The cache path of a run that never reaches `write_cache_file` (or fails in it). -/
def untouched (s : Setup) : After := if s.refresh then .removed else .unchanged

/-- What the gate emits before the analysis starts (nothing under `-r`: the gate is not called). -/
def pre (s : Setup) : List Event := if s.refresh then [] else gateEvents s.gate

/-- The end of `main` after the threshold gate: `r` = the run so far (`r.output`: the selected
document went to stdout). `write_cache_file`'s OSError is a fatal — with the document on stdout already. -/
def finish (s : Setup) (r : Diag.Result) : Result :=
  if !r.output then ⟨r, untouched s⟩
  else if s.writable then ⟨r, .written⟩
  else ⟨⟨(fatal r.state .none 0).state, r.printed ++ (fatal r.state .none 0).printed, 1, true⟩, untouched s⟩

/-- The miss branch: gate diagnostic (none under `-r`), the whole run of `Diag.run` on the
diagnostics `evs` of analysis + simplification, then the write. -/
def miss (s : Setup) (cfg : Cfg) (evs : List Event) : Result :=
  finish s (Diag.run cfg (pre s ++ evs))

/-- `python -m rattr <cfg> -C <file> [-r] <target>` given what the analysis would emit. -/
def mainCache (s : Setup) (cfg : Cfg) (evs : List Event) : Result :=
  if !s.refresh && s.gate.upToDate then hit cfg else miss s cfg evs

/-! ### with the documents -/

structure OutResult where
  diag : Diag.Result
  /-- stdout: the selected document, iff the run reaches the output stage -/
  stdout : Option MainRun.Printed
  cache : After
  /-- the document `write_cache_file` wrote (`After.written`) -/
  written : Option MainRun.CacheDoc
  deriving Repr

/-- `python -m rattr <cfg> -o <mode> -C <file> [-r] --follow-imports 0 <target>` on the staged pipeline result. -/
def mainCacheOut (s : Setup) (mode : MainRun.OutMode) (target : Str) (cfg : Cfg) (st : MainRun.Staged) : OutResult :=
  let r := mainCache s cfg (MainRun.events st)
  ⟨r.diag,
   if r.diag.output then MainRun.printedOf mode target cfg.threshold st r.diag.state else none,
   r.cache,
   if r.cache = .written then st.doc.map (⟨target, ·⟩) else none⟩

/-! ## 2. Culprits and the renderer -/

/-- The second argument of a level function, as `__file_info` / `__line_info` see it. -/
inductive Culprit
  /-- `None`: no line information, the current (or the target) file -/
  | none
  /-- an `ast.AST` with a position, or a `Symbol` -/
  | located
  /-- any other object (an exception, a string, …): `culprit.lineno` / `.col_offset` raise `AttributeError` -/
  | foreign
  deriving DecidableEq, Repr

def Culprit.renders : Culprit → Bool
  | .foreign => false
  | _ => true

structure CEvent where
  ev : Event
  culprit : Culprit
  deriving DecidableEq, Repr

/-- One diagnostic call: the badness is booked and the filter applied as in `Diag.emit`; if a line
is printed, its culprit is rendered — `none` = the `AttributeError` traceback. (`error.error` under
`--strict` and `error.fatal` print BEFORE they exit: the traceback replaces the exit.) -/
def emitC (cfg : Cfg) (s : State) (e : CEvent) : Option Out :=
  let o := emit cfg s e.ev
  if o.printed.isEmpty || e.culprit.renders then some o else none

/-- `Diag.runEvents` with the renderer's partiality: `none` = the run ends in a traceback. -/
def runEventsC (cfg : Cfg) : State → List CEvent → Option Out
  | s, [] => some ⟨s, [], false⟩
  | s, e :: es =>
    match emitC cfg s e with
    | none => none
    | some o =>
      if o.exited then some o
      else
        match runEventsC cfg o.state es with
        | none => none
        | some r => some ⟨r.state, o.printed ++ r.printed, r.exited⟩

/-- The gate's diagnostic carrying culprit `c` (the code passes none). -/
def gateEventsC (c : Culprit) (g : Gate) : List CEvent := (gateEvents g).map (⟨·, c⟩)

end Rattr.MainCache

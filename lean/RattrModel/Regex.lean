/- The regular fragment of the `--exclude` / `--exclude-import` patterns and the two ways `re` can be
asked about a name: `Pattern.fullmatch` (what `is_excluded_name`, `is_blacklisted_module` and
`is_excluded_target` use) and `Pattern.match` (a prefix match — what they must NOT use: C11 says
"whose name FULLY matches an --exclude pattern").

The matcher is Brzozowski's: `deriv r c` is the residual pattern after reading `c`. It is the
executable model of `re.fullmatch` on the fragment (literals, classes, `.`, `\w`, `\d`, ranges,
negated classes, concatenation, `|`, `*`, `+`, `?`); CPython's backtracking engine decides the same
language on this fragment (no back-references, look-around, possessive or lazy quantifiers — lazy
ones change groups, never the yes/no of `fullmatch`). Names are ASCII in the correspondence stream;
`\w` / `\d` are modelled on ASCII only (recorded in the evidence assumptions). -/
import RattrModel.Basic

namespace Rattr.Regex

/-- one-character classes -/
inductive CC where
  | lit (c : Char)
  | any                       -- `.` : anything but a newline
  | word                      -- `\w` (ASCII part)
  | digit                     -- `\d` (ASCII part)
  | range (lo hi : Char)      -- `[lo-hi]`
  | union (a b : CC)          -- `[ab]`
  | neg (a : CC)              -- `[^a]`
  deriving Repr, DecidableEq

def isWordChar (c : Char) : Bool :=
  (decide ('a' ≤ c) && decide (c ≤ 'z')) || (decide ('A' ≤ c) && decide (c ≤ 'Z'))
    || (decide ('0' ≤ c) && decide (c ≤ '9')) || c == '_'

def CC.test : CC → Char → Bool
  | .lit d, c => c == d
  | .any, c => c != '\n'
  | .word, c => isWordChar c
  | .digit, c => decide ('0' ≤ c) && decide (c ≤ '9')
  | .range lo hi, c => decide (lo ≤ c) && decide (c ≤ hi)
  | .union a b, c => a.test c || b.test c
  | .neg a, c => !a.test c

inductive Re where
  | empty                     -- matches nothing (only arises as a residual)
  | eps                       -- the empty pattern
  | cls (k : CC)
  | cat (a b : Re)
  | alt (a b : Re)
  | star (a : Re)
  deriving Repr, DecidableEq

/-- `a+` and `a?` are sugar, as in `re` -/
def Re.plus (a : Re) : Re := .cat a (.star a)
def Re.opt (a : Re) : Re := .alt a .eps

/-- a literal string -/
def Re.ofStr : List Char → Re
  | [] => .eps
  | c :: s => .cat (.cls (.lit c)) (Re.ofStr s)

def nullable : Re → Bool
  | .empty => false
  | .eps => true
  | .cls _ => false
  | .cat a b => nullable a && nullable b
  | .alt a b => nullable a || nullable b
  | .star _ => true

def deriv : Re → Char → Re
  | .empty, _ => .empty
  | .eps, _ => .empty
  | .cls k, c => if k.test c then .eps else .empty
  | .cat a b, c =>
    if nullable a then .alt (.cat (deriv a c) b) (deriv b c) else .cat (deriv a c) b
  | .alt a b, c => .alt (deriv a c) (deriv b c)
  | .star a, c => .cat (deriv a c) (.star a)

/-- `re.compile(p).fullmatch(name) is not None` -/
def fullmatch (r : Re) : List Char → Bool
  | [] => nullable r
  | c :: s => fullmatch (deriv r c) s

/-- `re.compile(p).match(name) is not None`: some prefix of the name is in the language -/
def prefixmatch (r : Re) : List Char → Bool
  | [] => nullable r
  | c :: s => nullable r || prefixmatch (deriv r c) s

/-- `re.compile(p).search(name) is not None`: some infix of the name is in the language -/
def searchmatch (r : Re) : List Char → Bool
  | [] => nullable r
  | c :: s => prefixmatch r (c :: s) || searchmatch r s

/-- `is_excluded_name(name)` / `is_blacklisted_module(module)`:
`any(p.fullmatch(name) is not None for p in patterns)` -/
def isExcludedName (pats : List Re) (name : List Char) : Bool := pats.any (fullmatch · name)

/-- the verdict vector the decision model consumes (`Ann.fileDecision ds verdicts`) -/
def verdicts (pats : List Re) (name : List Char) : List Bool := pats.map (fullmatch · name)

end Rattr.Regex

/-
  RattrModel.ResultsProject — result generation over a whole PROJECT (stage S6, properties C14/C03):
  the target's `FileIr` and the live `FileIr` of every followed import (`import_irs`), with call
  resolution computed by the model instead of being taken from the real code:

    rattr/results/_find_call_target.py   find_call_target_and_ir, resolve_function, resolve_class_init,
                                         resolve_import (= `Resolve.resolveImport`), __resolve_target_and_ir,
                                         __is_defined_in, __resolve_real_class_target
    rattr/results/util.py                generate_results_from_ir (= `Results.generate` over ONE store that
                                         holds the functions of all modules: the tree nodes of an imported
                                         function share the sets of the import's FileIr exactly as the
                                         target's do)

  What result generation can touch is explicit: a `Proj` is the state BEFORE, `generateProject` returns the
  `Proj` AFTER. The pinned code only ever writes through `node.target.ir[...] |= …`, so in the model the
  only field that is rebuilt is `PFn.ir` (`writeBack`); key lists, symbols, contexts and call records are
  carried over. A change of the code that writes anything else into a FileIr (a new key, a replaced
  FunctionIr) is caught by the differential check: the model predicts the key list and every set of
  every module after each generation.

  Data supplied per case (other properties' subject): `existing` (module_exists, C13), `ignored` (the
  four `return None` rungs of resolve_import's ladder, C12), `excluded` (is_excluded_name verdicts),
  `moduleOfFile` (derive_module_name_from_path, C13), the call target each Call symbol carries
  (Context.get_call_target, C06/C01) and the equality class `cid` of each entry of the call tree's `seen`
  set: the pair (Call symbol under `==`, file the call is made in) since /repo ab5bdf0.
-/
import RattrModel.Results
import RattrModel.Resolve

namespace Rattr.ResProject
open Rattr Rattr.Results Rattr.Resolve

/-- `call.symbol.target` as `find_call_target_and_ir` dispatches on it. `file` =
`symbol.location.defined_in`. -/
inductive CallTarget where
  | none
  | builtin
  | name
  | func (name : Str) (file : Str)
  | cls (name : Str) (file : Str)
  | imp (name : Str) (qual : Str)
  deriving DecidableEq, Repr

structure PCall where
  call : CallRec
  target : CallTarget
  deriving Repr

/-- One entry of a `FileIr`: the key (a `Func`/`Class` symbol) and its `FunctionIr`. -/
structure PFn where
  isClass : Bool
  name : Str
  file : Str
  iface : Iface Str
  calls : List PCall        -- in the set's iteration order
  ir : IrSets
  deriving Repr

/-- A `FileIr`: `name` is its key in `import_irs`, `ctx` the symbols of its root context as
`resolve_import` distinguishes them, `fns` the mapping in iteration order. -/
structure PModule where
  name : Str
  ctx : MCtx
  fns : List PFn
  deriving Repr

structure Proj where
  target : PModule
  imports : List PModule            -- `import_irs`, insertion order
  existing : List Str
  ignored : List Str
  excluded : List Str               -- names for which `is_excluded_name` answers True
  moduleOfFile : Dict Str Str       -- `derive_module_name_from_path`; absent = None
  fuel : Nat := 64

def modules (p : Proj) : List PModule := p.target :: p.imports

def fnsOf (ms : List PModule) : List PFn := ms.flatMap (·.fns)

/-- the functions of all modules, target first: `Key` = index in this list. -/
def allFns (p : Proj) : List PFn := fnsOf (modules p)

/-! ### the part of a project result generation must not change (and call resolution reads) -/

/-- A key of a `FileIr` with everything but the three sets: kind, name, file, interface, call records. -/
structure FnSkel where
  isClass : Bool
  name : Str
  file : Str
  iface : Iface Str
  calls : List (CallRec × CallTarget)
  deriving DecidableEq, Repr

def PFn.skel (f : PFn) : FnSkel := ⟨f.isClass, f.name, f.file, f.iface, f.calls.map (fun c => (c.call, c.target))⟩

abbrev ModSkel := Str × MCtx × List FnSkel

/-- the module's name, its symbols and its key list (in order). -/
def PModule.skel (m : PModule) : ModSkel := (m.name, m.ctx, m.fns.map PFn.skel)

def skeleton (p : Proj) : List ModSkel := (modules p).map PModule.skel

/-- Everything `find_call_target_and_ir` reads: the skeleton (target first) and the per-case data. It
never reads a `gets`/`sets`/`dels` set. -/
structure Env where
  mods : List ModSkel
  existing : List Str
  ignored : List Str
  excluded : List Str
  moduleOfFile : Dict Str Str
  fuel : Nat

def envOf (p : Proj) : Env :=
  { mods := skeleton p, existing := p.existing, ignored := p.ignored, excluded := p.excluded,
    moduleOfFile := p.moduleOfFile, fuel := p.fuel }

def Env.fns (e : Env) : List FnSkel := e.mods.flatMap (·.2.2)

def Env.targetFns (e : Env) : List FnSkel := ((e.mods.head?).map (·.2.2)).getD []

def Env.imports (e : Env) : List ModSkel := e.mods.tail

def offset (ms : List ModSkel) (mi : Nat) : Nat := ((ms.take mi).map (·.2.2.length)).sum

/-- `file_ir.get(symbol)`: symbol equality is on kind and name (location excluded). -/
def findFn : List FnSkel → Bool → Str → Option Nat
  | [], _, _ => none
  | f :: r, c, n => if f.isClass = c ∧ f.name = n then some 0 else (findFn r c n).map (· + 1)

def keyIn (e : Env) (mi : Nat) (isClass : Bool) (name : Str) : Option Key :=
  match e.mods[mi]? with
  | none => none
  | some m => (findFn m.2.2 isClass name).map (offset e.mods mi + ·)

/-- position of `import_irs[name]` among the imports. -/
def importIdx : List ModSkel → Str → Option Nat
  | [], _ => none
  | m :: r, n => if m.1 = n then some 0 else (importIdx r n).map (· + 1)

/-- the root context of a module with `hasIr` recomputed from the mapping itself
(`module_ir.get(new_target) is None` for an ignored / excluded definition). -/
def ctxOf (m : ModSkel) : MCtx :=
  m.2.1.map fun s => match s with
    | .func n _ => .func n (findFn m.2.2 false n).isSome
    | .cls n _ => .cls n (findFn m.2.2 true n).isSome
    | s => s

def world (e : Env) : World :=
  { existing := e.existing, ignored := e.ignored, irs := e.imports.map (fun m => (m.1, ctxOf m)) }

/-- What `find_call_target_and_ir` does: an `IrTarget` (here: the key of the function), `None`, or an
exception that nothing catches. -/
inductive Res where
  | key (k : Key)
  | none_
  | importError
  | recursionError
  deriving DecidableEq, Repr

/-- `__is_defined_in(symbol, target_ir)` then the module look-up of `__resolve_target_and_ir`;
`none` = one of its `ImportError`s (all caught by the two callers). -/
def lookupDefined (e : Env) (isClass : Bool) (name file : Str) : Option Key :=
  if e.targetFns.any (fun f => f.isClass = isClass ∧ f.name = name ∧ f.file = file) then
    keyIn e 0 isClass name
  else
    match Dict.get? e.moduleOfFile file with
    | none => none                                   -- ModuleNotFoundError
    | some mn =>
      match importIdx e.imports mn with
      | none => none                                 -- `module_ir is None`
      | some i => keyIn e (i + 1) isClass name       -- `symbol not in module_ir`

/-- `__resolve_real_class_target`: among the `Class` keys of that name (target file first) the one
defined in the same file as the call's target; without one the target is returned as it is (since
/repo bb30ccd: no fall-back to a same-named class of another file). -/
def realClass (e : Env) (name file : Str) : Str × Str :=
  let cands := e.fns.filter (fun f => f.isClass ∧ f.name = name)
  match cands.find? (fun f => f.file = file) with
  | some f => (f.name, f.file)
  | none => (name, file)

def keyOfFound (e : Env) (mn : Str) (isClass : Bool) (n : Str) : Res :=
  match importIdx e.imports mn with
  | none => .none_
  | some i => match keyIn e (i + 1) isClass n with
    | some k => .key k
    | none => .none_

/-- `find_call_target_and_ir(call)`. -/
def findCallTargetE (e : Env) : CallTarget → Res
  | .none => .none_
  | .builtin => .none_
  | .name => .none_
  | .func n file =>
    -- resolve_function
    if e.excluded.contains n then .none_
    else match lookupDefined e false n file with
      | some k => .key k
      | none => .none_
  | .cls n file =>
    -- resolve_class_init
    let c := realClass e n file
    match lookupDefined e true c.1 c.2 with
    | some k => .key k
    | none => .none_
  | .imp n q =>
    match resolveImport (world e) e.fuel ⟨n, q⟩ with
    | .found mn (.func fnm _) => keyOfFound e mn false fnm
    | .found mn (.cls cnm _) => keyOfFound e mn true cnm
    | .found _ _ => .none_
    | .none_ _ => .none_
    | .importError _ => .importError
    | .recursionError => .recursionError

def findCallTarget (p : Proj) (t : CallTarget) : Res := findCallTargetE (envOf p) t

/-! ### the flat program -/

def cidTableE (e : Env) : List (Nat × Res) :=
  e.fns.flatMap (fun f => f.calls.map (fun c => (c.1.cid, findCallTargetE e c.2)))

def lookupCid : List (Nat × Res) → Nat → Option Res
  | [], _ => none
  | (c, r) :: t, x => if c = x then some r else lookupCid t x

def resolveCidE (e : Env) (cid : Nat) : Option Key :=
  match lookupCid (cidTableE e) cid with
  | some (.key k) => some k
  | _ => none

def raisingCidsE (e : Env) : List Nat :=
  (cidTableE e).filterMap (fun cr => match cr.2 with
    | .importError => some cr.1
    | .recursionError => some cr.1
    | _ => none)

def toProgE (e : Env) : Prog :=
  { fns := e.fns.map (fun f => { iface := f.iface, calls := f.calls.map (·.1) }),
    resolve := resolveCidE e }

def resolveCid (p : Proj) (cid : Nat) : Option Key := resolveCidE (envOf p) cid
def raisingCids (p : Proj) : List Nat := raisingCidsE (envOf p)
def toProg (p : Proj) : Prog := toProgE (envOf p)

def storeOf (fs : List PFn) : Store := fun k => ((fs[k]?).map (·.ir)).getD IrSets.empty

def store0 (p : Proj) : Store := storeOf (allFns p)

/-- the roots: the keys of `target_ir`, in iteration order. -/
def order (p : Proj) : List Key := List.range p.target.fns.length

/-! ### writing the store back: the only thing result generation changes -/

def setIrs (σ : Store) : Nat → List PFn → List PFn
  | _, [] => []
  | off, f :: r => { f with ir := σ off } :: setIrs σ (off + 1) r

def writeMods (σ : Store) : Nat → List PModule → List PModule
  | _, [] => []
  | off, m :: r => { m with fns := setIrs σ off m.fns } :: writeMods σ (off + m.fns.length) r

def writeBack (p : Proj) (σ : Store) : Proj :=
  { p with target := { p.target with fns := setIrs σ 0 p.target.fns },
           imports := writeMods σ p.target.fns.length p.imports }

/-! ### generation -/

/-- building the call tree of `root` reaches a call whose resolution raises: a raising call is never
added to `seen`, so it is attempted whenever a node holding it is expanded. -/
def treeRaises (P : Prog) (raising : List Nat) (root : Key) : Bool :=
  match callTree P root with
  | none => false
  | some nodes => nodes.any (fun n => (fnAt P n.key).calls.any (fun c => raising.contains c.cid))

/-- the roots that are completed before the first root whose tree raises, and that root. -/
def rootsBeforeRaise (P : Prog) (raising : List Nat) : List Key → List Key × Option Key
  | [] => ([], none)
  | f :: r =>
    if treeRaises P raising f then ([], some f)
    else ((f :: (rootsBeforeRaise P raising r).1), (rootsBeforeRaise P raising r).2)

inductive GenOut where
  /-- results per root (in order) and the project afterwards -/
  | ok (rs : List (Key × IrSets)) (after : Proj)
  /-- an uncaught ImportError / RecursionError while building the tree of `atRoot`; the roots before it
  are complete and have written to the IR -/
  | raised (rs : List (Key × IrSets)) (after : Proj) (atRoot : Key)
  | outOfFuel
  | never

/-- `generate_results_from_ir(target_ir, import_irs)`. -/
def generateProject (p : Proj) : GenOut :=
  let P := toProg p
  let pre := rootsBeforeRaise P (raisingCids p) (order p)
  match generate P pre.1 (store0 p) with
  | .ok (rs, σ) =>
    match pre.2 with
    | none => .ok rs (writeBack p σ)
    | some f => .raised rs (writeBack p σ) f
  | .outOfFuel => .outOfFuel
  | .never => .never

end Rattr.ResProject

import RattrDriver.JsonUtil
import RattrDriver.C04

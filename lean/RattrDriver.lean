import RattrDriver.JsonUtil
import RattrDriver.C04
import RattrDriver.C03

import RattrDriver.JsonUtil
import RattrDriver.C04
import RattrDriver.C03
import RattrDriver.AstJson
import RattrDriver.Visit
import RattrDriver.C20
import RattrDriver.C10
import RattrDriver.C13

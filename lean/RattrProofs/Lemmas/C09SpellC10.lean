/-
  Link between the C09 spelling lemmas (RattrProofs/Lemmas/C09Spell.lean, which cannot import
  Props/C10.lean) and the C10 consumer theorems:
    * `toExpr_eq`            — `C09S.toExpr` is `C10.toExpr`;
    * `argDoc_of_xattrFree`  — the getattr-family-free fragment of `C10_site_argNames` /
                               `C10_site_kwargNames` lies inside the documented fragment `Spec.argDoc`
                               of `C09_args_documented` / `C09_kwargs_documented`.
-/
import RattrProofs.Props.C10
import RattrProofs.Lemmas.C09Spell

namespace Rattr.C09S
open Rattr Rattr.Naming

mutual
theorem toExpr_eq : ∀ n : Node, C09S.toExpr n = C10.toExpr n
  | .call f args kwn kwv => by simp only [C09S.toExpr, C10.toExpr, toExpr_eq f, toExprL_eq args]
  | .attr v a c => by simp only [C09S.toExpr, C10.toExpr, toExpr_eq v]
  | .sub v sl c => by simp only [C09S.toExpr, C10.toExpr, toExpr_eq v]
  | .starred v c => by simp only [C09S.toExpr, C10.toExpr, toExpr_eq v]
  | .name _ _ => rfl
  | .strConst _ => rfl
  | .lam _ _ => rfl
  | .comp _ _ _ => rfl
  | .gen _ _ _ => rfl
  | .walrus _ _ => rfl
  | .const => rfl
  | .seq _ _ _ => rfl
  | .dict _ _ => rfl
  | .assign _ _ => rfl
  | .annAssign _ _ _ => rfl
  | .augAssign _ _ => rfl
  | .delete _ => rfl
  | .forLoop _ _ _ _ => rfl
  | .withStmt _ _ => rfl
  | .withitem _ _ => rfl
  | .funcDef _ _ _ => rfl
  | .classDef _ => rfl
  | .ret _ => rfl
  | .forbidden _ => rfl
  | .other _ _ => rfl
theorem toExprL_eq : ∀ l : List Node, C09S.toExprL l = C10.toExprL l
  | [] => rfl
  | n :: r => by simp only [C09S.toExprL, C10.toExprL, toExpr_eq n, toExprL_eq r]
end

/-- the fragment of C10's consumer theorems (`xattrFree`: no getattr-family name anywhere on the spine)
is inside the documented fragment. -/
theorem argDoc_of_xattrFree : ∀ (e : Expr), C10.xattrFree e = true → Spec.argDoc e = true
  | .name _, _ => rfl
  | .attr e _, h => by simpa [Spec.argDoc] using argDoc_of_xattrFree e (by simpa [C10.xattrFree] using h)
  | .sub e, h => by simpa [Spec.argDoc] using argDoc_of_xattrFree e (by simpa [C10.xattrFree] using h)
  | .starred e, h => by simpa [Spec.argDoc] using argDoc_of_xattrFree e (by simpa [C10.xattrFree] using h)
  | .call f args, h => by
    have ih := argDoc_of_xattrFree f
    have h' : C10.xattrFree f = true ∧ isXattr (C10.plainBase f) = false := by simpa [C10.xattrFree] using h
    cases f with
    | name g => simp [Spec.argDoc, show isXattr g = false by simpa [C10.plainBase] using h'.2]
    | attr e a => simpa [Spec.argDoc] using ih h'.1
    | sub e => simpa [Spec.argDoc] using ih h'.1
    | starred e => simpa [Spec.argDoc] using ih h'.1
    | call f' args' => simpa [Spec.argDoc] using ih h'.1
    | strConst c => simp [Spec.argDoc]
    | other k => simp [Spec.argDoc]
  | .strConst _, _ => rfl
  | .other _, _ => rfl


end Rattr.C09S

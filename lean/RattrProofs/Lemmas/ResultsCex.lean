/- Concrete programs used by the counterexample theorems of C03 / C05 / C14. -/
import RattrModel.Results
import RattrModel.Spec.Closure

namespace Rattr.Cex
open Rattr Rattr.Results

def s (x : String) : Str := x.toList
def nm (f b : String) : NameS := ⟨s f, s b⟩
def iface (ps : List String) : Iface Str := ⟨[], ps.map s, none, [], none⟩
def sig (ps : List String) : Spec.Sig Str := ⟨[], ps.map (fun p => ⟨s p, false⟩), none, [], none⟩
def call (cid : Nat) (n : String) (as : List String) : CallRec := ⟨cid, s n, ⟨as.map s, []⟩⟩

/-- C03-dedupe / C05-order:
`top(a,b): one(a); two(b)` · `one(x): leaf(x)` · `two(x): leaf(x)` · `leaf(l): l.attr`.
keys 0 top, 1 one, 2 two, 3 leaf; the two `leaf(x)` call records are EQUAL symbols (cid 2). -/
def Pd : Prog := {
  fns := [ ⟨iface ["a", "b"], [call 0 "one" ["a"], call 1 "two" ["b"]]⟩,
           ⟨iface ["x"], [call 2 "leaf" ["x"]]⟩, ⟨iface ["x"], [call 2 "leaf" ["x"]]⟩, ⟨iface ["l"], []⟩ ],
  resolve := fun c => match c with | 0 => some 1 | 1 => some 2 | 2 => some 3 | _ => none }
def σd : Store := fun k => match k with
  | 0 => ⟨[nm "a" "a", nm "b" "b"], [], []⟩
  | 1 => ⟨[nm "x" "x"], [], []⟩
  | 2 => ⟨[nm "x" "x"], [], []⟩
  | 3 => ⟨[nm "l.attr" "l"], [], []⟩
  | _ => IrSets.empty
def Sd : Spec.SProg := { prog := Pd, sigs := [sig ["a", "b"], sig ["x"], sig ["x"], sig ["l"]], own := σd }

/-- C03-compound: `top(z): mid(z.y)` · `mid(p): low(p.q)` · `low(m): leaf(m)` · `leaf(l): l.attr = 1`. -/
def Pc : Prog := {
  fns := [ ⟨iface ["z"], [call 0 "mid" ["z.y"]]⟩, ⟨iface ["p"], [call 1 "low" ["p.q"]]⟩,
           ⟨iface ["m"], [call 2 "leaf" ["m"]]⟩, ⟨iface ["l"], []⟩ ],
  resolve := fun c => match c with | 0 => some 1 | 1 => some 2 | 2 => some 3 | _ => none }
def σc : Store := fun k => match k with
  | 0 => ⟨[nm "z.y" "z"], [], []⟩
  | 1 => ⟨[nm "p.q" "p"], [], []⟩
  | 2 => ⟨[nm "m" "m"], [], []⟩
  | 3 => ⟨[nm "l" "l"], [nm "l.attr" "l"], []⟩
  | _ => IrSets.empty
def Sc : Spec.SProg := { prog := Pc, sigs := [sig ["z"], sig ["p"], sig ["m"], sig ["l"]], own := σc }

/-- C14: `caller(q): callee(q)` · `callee(p): p.x`. -/
def Pm : Prog := {
  fns := [ ⟨iface ["q"], [call 0 "callee" ["q"]]⟩, ⟨iface ["p"], []⟩ ],
  resolve := fun c => match c with | 0 => some 1 | _ => none }
def σm : Store := fun k => match k with
  | 0 => ⟨[nm "q" "q"], [], []⟩
  | 1 => ⟨[nm "p.x" "p"], [], []⟩
  | _ => IrSets.empty

def fulls (l : List NameS) : List Str := l.map (·.full)

/-- gets / sets of root `f` after `generate` in the given order (`none` on any failure). -/
def getsOf (P : Prog) (σ : Store) (order : List Key) (f : Key) : Option (List Str) :=
  match generate P order σ with
  | .ok (rs, _) => (rs.lookup f).map (fun ir => fulls ir.gets)
  | _ => none
def setsOf (P : Prog) (σ : Store) (order : List Key) (f : Key) : Option (List Str) :=
  match generate P order σ with
  | .ok (rs, _) => (rs.lookup f).map (fun ir => fulls ir.sets)
  | _ => none
def storeAfter (P : Prog) (σ : Store) (order : List Key) (k : Key) : Option IrSets :=
  match generate P order σ with
  | .ok (_, σ') => some (σ' k)
  | _ => none

end Rattr.Cex

/-
  Tree fragment, part 3: the closure `Clo` computed by the fold IS the spec's closure
  `∃ d, · ∈ Spec.derive S d f` when every argument of a resolvable call is a bare identifier
  (`BareArgs`): then `unbind_name` with `basename := replacement` keeps the invariant
  `basename = root variable of the spelling` (`RootBased`), so one `unbindName` is one `Spec.subst`
  at EVERY call level.
-/
import RattrProofs.Lemmas.ResultsTree

namespace Rattr.Results
open Rattr.Spec

/-! ### bare identifiers -/

/-- a bare identifier (or an `@` stand-in such as `@Tuple`, `@Int`): non-empty, no leading `*`,
and none of `.`, `[`, `(`. -/
def Bare (s : Str) : Prop := s ≠ [] ∧ s.head? ≠ some '*' ∧ ∀ c ∈ s, isSep c = true

instance (s : Str) : Decidable (Bare s) := by unfold Bare; infer_instance

/-- every positional / keyword argument of every resolvable call is a bare identifier, and so
are the two stand-ins. -/
def BareArgs (P : Prog) : Prop :=
  (Bare P.tuple ∧ Bare P.dict) ∧
  ∀ f c g, c ∈ (fnAt P f).calls → P.resolve c.cid = some g →
    (∀ a ∈ c.args.args, Bare a) ∧ (∀ kv ∈ c.args.kwargs, Bare kv.2)

theorem BareArgs.noStar {P : Prog} (h : BareArgs P) : NoStarArgs P :=
  ⟨⟨h.1.1.2.1, h.1.2.2.1⟩, fun f c g hc hr =>
    ⟨fun a ha => ((h.2 f c g hc hr).1 a ha).2.1, fun kv hkv => ((h.2 f c g hc hr).2 kv hkv).2.1⟩⟩

theorem takeWhile_drop_takeWhile (p : Char → Bool) (l : Str) :
    (l.drop (l.takeWhile p).length).takeWhile p = [] := by
  induction l with
  | nil => simp
  | cons a r ih =>
    by_cases ha : p a = true
    · simp only [List.takeWhile_cons, ha, if_true, List.length_cons, List.drop_succ_cons]
      exact ih
    · simp [ha]

theorem takeWhile_append_all (p : Char → Bool) (a b : Str) (h : ∀ c ∈ a, p c = true) :
    (a ++ b).takeWhile p = a ++ b.takeWhile p := by
  induction a with
  | nil => rfl
  | cons x r ih =>
    have hx := h x List.mem_cons_self
    simp only [List.cons_append, List.takeWhile_cons, hx, if_true]
    rw [ih (fun c hc => h c (List.mem_cons_of_mem _ hc))]

theorem takeWhile_bare {nb : Str} (hb : Bare nb) (l : Str) :
    (nb ++ l.drop (l.takeWhile isSep).length).takeWhile isSep = nb := by
  rw [takeWhile_append_all _ _ _ hb.2.2, takeWhile_drop_takeWhile, List.append_nil]

theorem head?_append_ne_nil {a b : Str} (h : a ≠ []) : (a ++ b).head? = a.head? := by
  cases a with
  | nil => exact absurd rfl h
  | cons x r => rfl

/-- `unbind_name` with a bare replacement keeps `basename = root variable`. -/
theorem unbindName_rootBased {n x : NameS} {nb : Str} (hn : RootBased n) (hb : Bare nb)
    (h : unbindName n nb = some x) : RootBased x := by
  obtain ⟨full, base⟩ := n
  unfold RootBased at hn
  simp only at hn
  subst hn
  unfold unbindName at h
  by_cases heq : rootVar full = nb
  · simp only [heq, if_true, Option.some.injEq] at h
    subst h
    exact heq.symm
  · simp only [heq, if_false] at h
    cases full with
    | nil =>
      simp [rootVar] at h
      subst h
      unfold RootBased
      simp only
      rw [rootVar_eq, bodyOf_nostar hb.2.1]
      have := takeWhile_bare hb []
      simpa using this.symm
    | cons a r =>
      by_cases ha : a = '*'
      · subst ha
        simp only [List.head?_cons, if_true, rootVar_eq, bodyOf_star] at h
        have hp : ('*' :: List.takeWhile isSep r).isPrefixOf ('*' :: r) = true := by
          simp [List.isPrefixOf, takeWhile_isPrefixOf]
        rw [if_pos hp] at h
        injection h with h
        subst h
        unfold RootBased
        simp only [List.cons_append, List.length_cons, List.drop_succ_cons]
        rw [rootVar_eq, bodyOf_star]
        exact (takeWhile_bare hb r).symm
      · have hh : (a :: r).head? ≠ some '*' := by simpa using ha
        have hh' : ¬ ((a :: r).head? = some '*') := hh
        simp only [if_neg hh', rootVar_eq, bodyOf_nostar hh] at h
        rw [if_pos (takeWhile_isPrefixOf _ _)] at h
        injection h with h
        subst h
        unfold RootBased
        simp only
        have hhead : (nb ++ List.drop (List.takeWhile isSep (a :: r)).length (a :: r)).head?
            ≠ some '*' := by
          rw [head?_append_ne_nil hb.1]; exact hb.2.1
        rw [rootVar_eq, bodyOf_nostar hhead]
        exact (takeWhile_bare hb (a :: r)).symm

/-! ### what the hypotheses give for one resolvable call, with bare arguments -/

theorem edge_facts_bare (S : SProg) (hI : IfaceOfSig S) (hA : AcceptedCalls S)
    (hSw : SwapsAreBinding S) (hB : BareArgs S.prog) {f : Key} {c : CallRec} {g : Key}
    (hc : c ∈ (fnAt S.prog f).calls) (hr : S.prog.resolve c.cid = some g) :
    ∃ bm, binding S g c = some bm ∧
      (∀ k, Dict.get? (swapsOf S.prog g c) k = Dict.get? bm k) ∧
      (∀ k v, Dict.get? bm k = some v → Bare v) := by
  obtain ⟨b, hb, hkw⟩ := hA f c g hc hr
  refine ⟨expectedSwaps (si S.prog) (sigAt S g) b, ?_, ?_, ?_⟩
  · unfold binding
    rw [hb]
  · intro k
    unfold swapsOf
    rw [hI g ⟨f, c, hc, hr⟩, hSw f c g b hc hr hb k, lenient_eq _ _ _ hkw]
  · intro k v hv
    have hmem := get?_mem hv
    unfold expectedSwaps at hmem
    obtain ⟨⟨ht, hd⟩, hargs⟩ := hB
    obtain ⟨ha, hk⟩ := hargs f c g hc hr
    rcases List.mem_append.mp hmem with hmem | hmem
    · rcases List.mem_append.mp hmem with hmem | hmem
      · exact pyBind_vals Bare _ _ b hb ha hk (k, v) hmem
      · obtain ⟨x, _, hx⟩ := List.mem_map.mp hmem
        injection hx with _ hx
        rw [← hx]
        exact ht
    · obtain ⟨x, _, hx⟩ := List.mem_map.mp hmem
      injection hx with _ hx
      rw [← hx]
      exact hd

/-- the hypotheses of the tree-fragment C03 theorem about the analysed program `S`. -/
structure TreeHyps (S : SProg) : Prop where
  cid : CidArgs S.prog
  rootBased : CalleeRootBased S
  bare : BareArgs S.prog
  iface : IfaceOfSig S
  accepted : AcceptedCalls S
  swaps : SwapsAreBinding S

/-- every name in the closure of a callee has `basename = root variable of its spelling`. -/
theorem clo_rootBased {S : SProg} (hH : TreeHyps S) (k : Kind) (g : Key) (x : NameS)
    (h : Clo S.prog S.own k g x) : IsCallee S.prog g → RootBased x := by
  induction h with
  | own hx => intro hcal; exact hH.rootBased _ hcal k _ hx
  | @call g h c n x hc hres _ hub ih =>
    intro _
    have hn : RootBased n := ih ⟨g, c, hc, hres⟩
    obtain ⟨bm, _, hsame, hbare⟩ :=
      edge_facts_bare S hH.iface hH.accepted hH.swaps hH.bare hc hres
    cases hv : Dict.get? (swapsOf S.prog h c) n.base with
    | none =>
      rw [hv] at hub
      simp only [Option.getD_none, unbindName, if_true, Option.some.injEq] at hub
      subst hub
      exact hn
    | some v =>
      rw [hv] at hub
      simp only [Option.getD_some] at hub
      have hbv : Bare v := hbare n.base v (by rw [← hsame, hv])
      exact unbindName_rootBased hn hbv hub

theorem noFail_of_hyps {S : SProg} (hH : TreeHyps S) : NoFail S.prog S.own :=
  fun g hg k x hx => (clo_rootBased hH k g x hx hg).wellBased

/-! ### `Clo` = the spec's closure -/

theorem own_mem_derive (S : SProg) (d : Nat) (f : Key) (k : Kind) (s : Str)
    (h : s ∈ (ownAcc S f).of k) : s ∈ (derive S d f).of k := by
  cases d with
  | zero => exact h
  | succ d => rw [derive_succ, mem_foldl_dstep]; exact Or.inl h

/-- soundness: the spelling of every name of the closure is derivable. -/
theorem clo_derivable {S : SProg} (hH : TreeHyps S) (k : Kind) (g : Key) (x : NameS)
    (h : Clo S.prog S.own k g x) : ∃ d, x.full ∈ (derive S d g).of k := by
  induction h with
  | own hx => exact ⟨0, mem_ownAcc.mpr ⟨_, hx, rfl⟩⟩
  | @call g h c n x hc hres hcl hub ih =>
    obtain ⟨d, hd⟩ := ih
    have hn : RootBased n := clo_rootBased hH k h n hcl ⟨g, c, hc, hres⟩
    obtain ⟨bm, hb, hsame, hbare⟩ :=
      edge_facts_bare S hH.iface hH.accepted hH.swaps hH.bare hc hres
    obtain ⟨n', hn', hfull⟩ := unbindName_eq_subst hn (swapsOf S.prog h c) bm hsame
      (fun v hv => (hbare _ v hv).2.1)
    rw [hub] at hn'
    injection hn' with hn'
    subst hn'
    refine ⟨d + 1, ?_⟩
    rw [derive_succ, mem_foldl_dstep]
    exact Or.inr ⟨c, hc, h, bm, hres, hb, n.full, hd, hfull⟩

/-- completeness: every derivable spelling is the spelling of a name of the closure. -/
theorem derivable_clo {S : SProg} (hH : TreeHyps S) (k : Kind) (d : Nat) (g : Key) (s : Str)
    (h : s ∈ (derive S d g).of k) : ∃ x, Clo S.prog S.own k g x ∧ x.full = s := by
  induction d generalizing g s with
  | zero =>
    obtain ⟨x, hx, hxs⟩ := mem_ownAcc.mp h
    exact ⟨x, Clo.own hx, hxs⟩
  | succ d ih =>
    rw [derive_succ, mem_foldl_dstep] at h
    rcases h with h | ⟨c, hc, h', bm', hres, hb', m, hm, hsm⟩
    · obtain ⟨x, hx, hxs⟩ := mem_ownAcc.mp h
      exact ⟨x, Clo.own hx, hxs⟩
    · obtain ⟨n, hn, hnm⟩ := ih h' m hm
      obtain ⟨bm, hb, hsame, hbare⟩ :=
        edge_facts_bare S hH.iface hH.accepted hH.swaps hH.bare hc hres
      rw [hb] at hb'
      injection hb' with hb'
      subst hb'
      have hrb : RootBased n := clo_rootBased hH k h' n hn ⟨g, c, hc, hres⟩
      obtain ⟨n', hn', hfull⟩ := unbindName_eq_subst hrb (swapsOf S.prog h' c) bm hsame
        (fun v hv => (hbare _ v hv).2.1)
      exact ⟨n', Clo.call hc hres hn hn', by rw [hfull, hsm, hnm]⟩

theorem clo_iff_derivable {S : SProg} (hH : TreeHyps S) (k : Kind) (g : Key) (s : Str) :
    (∃ x, Clo S.prog S.own k g x ∧ x.full = s) ↔ ∃ d, s ∈ (derive S d g).of k := by
  constructor
  · rintro ⟨x, hx, rfl⟩; exact clo_derivable hH k g x hx
  · rintro ⟨d, hd⟩; exact derivable_clo hH k d g s hd

/-! ### the unfolding is monotone in the depth and complete at the rank -/

theorem derive_mono_succ (S : SProg) (k : Kind) (d : Nat) (f : Key) (s : Str)
    (h : s ∈ (derive S d f).of k) : s ∈ (derive S (d + 1) f).of k := by
  induction d generalizing f s with
  | zero => exact own_mem_derive S 1 f k s h
  | succ d ih =>
    rw [derive_succ, mem_foldl_dstep] at h ⊢
    rcases h with h | ⟨c, hc, g, b, hr, hb, m, hm, hsm⟩
    · exact Or.inl h
    · exact Or.inr ⟨c, hc, g, b, hr, hb, m, ih g m hm, hsm⟩

theorem derive_mono (S : SProg) (k : Kind) {d d' : Nat} (hd : d ≤ d') (f : Key) (s : Str)
    (h : s ∈ (derive S d f).of k) : s ∈ (derive S d' f).of k := by
  induction hd with
  | refl => exact h
  | step _ ih => exact derive_mono_succ S k _ f s ih

/-- on an acyclic graph with rank function `rank`, everything derivable for `f` is derivable at
depth `rank f`. -/
theorem derive_at_rank (S : SProg) (rank : Key → Nat)
    (hrank : ∀ f c g, c ∈ (fnAt S.prog f).calls → S.prog.resolve c.cid = some g → rank g < rank f)
    (k : Kind) (d : Nat) (f : Key) (s : Str) (h : s ∈ (derive S d f).of k) :
    s ∈ (derive S (rank f) f).of k := by
  induction d generalizing f s with
  | zero => exact own_mem_derive S _ f k s h
  | succ d ih =>
    rw [derive_succ, mem_foldl_dstep] at h
    rcases h with h | ⟨c, hc, g, b, hr, hb, m, hm, hsm⟩
    · exact own_mem_derive S _ f k s h
    · have hlt := hrank f c g hc hr
      obtain ⟨r', hr'⟩ := Nat.exists_eq_succ_of_ne_zero (Nat.ne_of_gt (Nat.lt_of_le_of_lt (Nat.zero_le _) hlt))
      rw [hr', Nat.succ_eq_add_one, derive_succ, mem_foldl_dstep]
      exact Or.inr ⟨c, hc, g, b, hr, hb, m, derive_mono S k (by omega) g m (ih g m hm), hsm⟩

end Rattr.Results

/-
  The upper-bound invariant of C02: "everything in the IR is justified by the body".

    * `occ` / `occL`: every nameable node ANYWHERE in a sub-tree (inner links of chains, callee
      expressions, nested scopes), tagged with HOW the body uses it (`Role`);
    * `Justified body k n`: an inductive with one constructor per documented derivation;
    * `Just body s`: every name / call record of `s` is justified;
    * `visit_just …`: the WHOLE mutual visitor block preserves `Just body` for every sub-tree
      whose occurrences are occurrences of `body` (mutual structural induction, like `visit_mono`).
-/
import RattrProofs.Lemmas.Visit
import RattrProofs.Lemmas.VisitSpec

namespace Rattr.Justify
open Rattr Rattr.FnA Rattr.Strs
open Rattr.AccessSpec (Kind kindOf)

/-! ### occurrences -/

/-- how the body uses a node: by its expression context (`load` / `store` / `del`), as a call
expression, as the target of an assignment statement (`target`: stored by position, whatever
its `ctx` field says), or as the target of a walrus. -/
inductive Role where
  | load | store | del | call | target | walrus
  deriving DecidableEq, Repr

def roleOf : ECtx → Role
  | .load => .load
  | .store => .store
  | .del => .del

mutual
/-- one uniform recursion into every child of every node (nested scopes included). -/
def occ : Node → List (Role × Node)
  | .name id c => [(roleOf c, .name id c)]
  | .attr v a c => (roleOf c, .attr v a c) :: occ v
  | .sub v sl c => (roleOf c, .sub v sl c) :: (occ v ++ occ sl)
  | .starred v c => (roleOf c, .starred v c) :: occ v
  | .call f args kwn kwv => (.call, .call f args kwn kwv) :: (occ f ++ occL args ++ occL kwv)
  | .lam _ body => occ body
  | .comp _ elts gens => occL gens ++ occL elts
  | .gen t it ifs => occ t ++ occ it ++ occL ifs
  | .walrus t v => (.walrus, t) :: (.target, t) :: (occ t ++ occ v)
  | .strConst _ => []
  | .const => []
  | .seq _ elts _ => occL elts
  | .dict ks vs => occL ks ++ occL vs
  | .assign ts v => ts.map (fun t => (Role.target, t)) ++ occL ts ++ occ v
  | .annAssign t ann v => (.target, t) :: (occ t ++ occ ann ++ occL v)
  | .augAssign t v => (.target, t) :: (occ t ++ occ v)
  | .delete ts => occL ts
  | .forLoop t it body orelse => occ t ++ occ it ++ occL body ++ occL orelse
  | .withStmt items body => occL items ++ occL body
  | .withitem ce vars => occ ce ++ occL vars
  | .funcDef _ _ body => occL body
  | .classDef _ => []
  | .ret v => occL v
  | .forbidden _ => []
  | .other _ kids => occL kids
def occL : List Node → List (Role × Node)
  | [] => []
  | n :: r => occ n ++ occL r
end

/-- the occurrences of the sub-tree are occurrences of the body. -/
def Sub (n : Node) (body : List Node) : Prop := ∀ o ∈ occ n, o ∈ occL body
def SubL (l : List Node) (body : List Node) : Prop := ∀ o ∈ occL l, o ∈ occL body

theorem SubL.refl (body : List Node) : SubL body body := fun _ h => h

theorem SubL.head {n : Node} {r body : List Node} (h : SubL (n :: r) body) : Sub n body :=
  fun o ho => h o (by simp [occL, ho])
theorem SubL.tail {n : Node} {r body : List Node} (h : SubL (n :: r) body) : SubL r body :=
  fun o ho => h o (by simp [occL, ho])

theorem occL_mem {l : List Node} {v : Node} (hv : v ∈ l) : ∀ o ∈ occ v, o ∈ occL l := by
  induction l with
  | nil => cases hv
  | cons a r ih =>
    intro o ho
    rcases List.mem_cons.mp hv with h | h
    · subst h; simp [occL, ho]
    · simp [occL, ih h o ho]

/-! ### spelling of an occurrence; prefixes -/

/-- the reported `(kind, name)` is the spelling of the node, for the way the body uses it. The
spelling is the one rattr's namer `names_of` produces (either `safe` flag; its agreement with the
README format is property C10): `x | E.a | E[] | *E | E() | @Kind`, getattr-family calls as the
dotted access. Calls are listed by callee name (trailing `()` removed). A walrus records the
BASE name of its target (for a valid walrus target — a bare Name — that is its spelling, see
`walrus_name`). -/
def Spelled (r : Role) (node : Node) (k : Kind) (n : Str) : Prop :=
  match r with
  | .load => k = .get ∧ ∃ safe b, namesOf safe node = .ok b n
  | .store => k = .set ∧ ∃ safe b, namesOf safe node = .ok b n
  | .target => k = .set ∧ ∃ safe b, namesOf safe node = .ok b n
  | .del => k = .del ∧ ∃ safe b, namesOf safe node = .ok b n
  | .call => k = .call ∧ ∃ safe b f, namesOf safe node = .ok b f ∧ n = withoutCallBrackets f
  | .walrus => k = .set ∧ ∃ f, namesOf false node = .ok n f

theorem walrus_name (id : Str) (c : ECtx) (n f : Str) (h : namesOf false (.name id c) = .ok n f) :
    n = id ∧ f = id := by
  simp [namesOf] at h; exact ⟨h.1.symm, h.2.symm⟩

theorem spelled_of_ctx {node : Node} {b f : Str} (c : ECtx) (safe : Bool)
    (h : namesOf safe node = .ok b f) : Spelled (roleOf c) node (kindOf c) f := by
  cases c <;> exact ⟨rfl, safe, b, h⟩

/-- `p` is a dotted prefix of `name` with at least `lo` components and strictly fewer than
`name` has. -/
def IsPrefixFrom (lo : Nat) (p name : Str) : Prop :=
  ∃ i, lo ≤ i ∧ i < (splitDot name).length ∧ p = joinDot ((splitDot name).take i)

/-- the receiver-prefix rule: ≥ 2 components. -/
abbrev IsReceiverPrefix (p name : Str) : Prop := IsPrefixFrom 2 p name
/-- the getattr-family rule: every proper dotted prefix. -/
abbrev IsDottedPrefix (p name : Str) : Prop := IsPrefixFrom 1 p name

theorem mem_drop_one_range {n j : Nat} (h : j ∈ (List.range n).drop 1) : 1 ≤ j ∧ j < n := by
  obtain ⟨i, hi, rfl⟩ := List.mem_iff_getElem.mp h
  simp at hi ⊢
  omega

theorem receiverPrefixes_spec (fullname : Str) (x : NameS) (hx : x ∈ receiverPrefixes fullname) :
    IsReceiverPrefix x.full (withoutCallBrackets fullname) ∧
    (splitDot (withoutCallBrackets fullname)).head? = some x.base := by
  unfold receiverPrefixes at hx
  simp only at hx
  unfold IsReceiverPrefix IsPrefixFrom
  generalize splitDot (withoutCallBrackets fullname) = comps at hx ⊢
  cases hp : comps.dropLast with
  | nil => rw [hp] at hx; simp at hx
  | cons p0 r =>
    rw [hp] at hx
    simp only at hx
    obtain ⟨j, hj, rfl⟩ := List.mem_map.mp hx
    obtain ⟨h1, h2⟩ := mem_drop_one_range hj
    have hlen : comps.dropLast.length = comps.length - 1 := List.length_dropLast
    rw [hp] at hlen
    refine ⟨⟨j + 1, by omega, by omega, ?_⟩, ?_⟩
    · simp only
      rw [← hp, List.dropLast_eq_take, List.take_take]
      congr 2
      omega
    · simp only
      match comps, hp with
      | a :: b :: r', hp =>
        simp only [List.dropLast, List.cons.injEq] at hp
        simp [hp.1]

theorem lhsNames_spec (full : Str) (x : NameS) (hx : x ∈ lhsNames full) :
    IsDottedPrefix x.full full := by
  unfold lhsNames at hx
  simp only at hx
  obtain ⟨off, hoff, rfl⟩ := List.mem_map.mp hx
  obtain ⟨h1, h2⟩ := mem_drop_one_range hoff
  exact ⟨(splitDot full).length - off, by omega, by omega, rfl⟩

/-! ### `Justified` -/

/-- `*`-aware prefix used by `unbind_name`. -/
def pre (star : Bool) (s : Str) : Str := if star then '*' :: s else s

/-- what may be reported for `body`, one constructor per derivation:
  * `occ`     — the spelling of a nameable node / call / assignment target of the body;
  * `prefix`  — a dotted prefix (≥ 2 components) of the name of a call of the body;
  * `xattr` / `xattrPrefix` — the target `obj.attr` of a getattr-family-shaped call of the body
    (as spelled by `get_xattr_obj_name_pair`), resp. one of its dotted prefixes (a get);
  * `sortedSubst` — `sorted(it, key=lambda x: …)`: a name `[*]x<suffix>` justified by the key
    lambda's body, with the lambda's parameter replaced by the spelling of `it`;
  * `defaultdictFactory` — `defaultdict(factory)`: a call of the named factory.
[interp] Which of get / set / del an `xattr` target is filed under is decided by the builtin the
callee RESOLVES to in the analysis context, which the body alone does not determine; `xattr`
therefore allows the three name kinds (never `call`). -/
inductive Justified : List Node → Kind → Str → Prop
  | occ {body : List Node} {k : Kind} {n : Str} (r : Role) (node : Node) :
      (r, node) ∈ occL body → Spelled r node k n → Justified body k n
  | prefix {body : List Node} {n : Str} (node : Node) (safe : Bool) (b f : Str) :
      (Role.call, node) ∈ occL body → namesOf safe node = .ok b f →
      IsReceiverPrefix n (withoutCallBrackets f) → Justified body .get n
  | xattr {body : List Node} {k : Kind} (f : Node) (args : List Node) (kwn : List (Option Str))
      (kwv : List Node) (b fn first second : Str) :
      (Role.call, Node.call f args kwn kwv) ∈ occL body →
      targetNameNoUnravel (.call f args kwn kwv) = .ok b fn →
      xattrPairOld fn args = .ok first second → k ≠ .call →
      Justified body k (first ++ '.' :: second)
  | xattrPrefix {body : List Node} {n : Str} (f : Node) (args : List Node) (kwn : List (Option Str))
      (kwv : List Node) (b fn first second : Str) :
      (Role.call, Node.call f args kwn kwv) ∈ occL body →
      targetNameNoUnravel (.call f args kwn kwv) = .ok b fn →
      xattrPairOld fn args = .ok first second →
      IsDottedPrefix n (first ++ '.' :: second) → Justified body .get n
  | sortedSubst {body : List Node} {k : Kind} {m : Str} (f a0 : Node) (rest : List Node)
      (kwn : List (Option Str)) (kwv : List Node) (ps : Params) (lbody : Node) (b iterable : Str)
      (star : Bool) :
      (Role.call, Node.call f (a0 :: rest) kwn kwv) ∈ occL body → Node.lam ps lbody ∈ kwv →
      namesOf true a0 = .ok b iterable → Justified [lbody] k m → k ≠ .call →
      (pre star ((ps.args.head?).getD [])).isPrefixOf m = true →
      Justified body k (pre star iterable ++ m.drop (pre star ((ps.args.head?).getD [])).length)
  | defaultdictFactory {body : List Node} (f factory : Node) (rest : List Node)
      (kwn : List (Option Str)) (kwv : List Node) (b full : Str) :
      (Role.call, Node.call f (factory :: rest) kwn kwv) ∈ occL body →
      namesOf false factory = .ok b full → Justified body .call (withoutCallBrackets full)

theorem Justified.mono {b1 b2 : List Node} {k : Kind} {n : Str}
    (hsub : ∀ o ∈ occL b1, o ∈ occL b2) (h : Justified b1 k n) : Justified b2 k n := by
  cases h with
  | occ r node hm hs => exact .occ r node (hsub _ hm) hs
  | «prefix» node safe b f hm hn hp => exact .prefix node safe b f (hsub _ hm) hn hp
  | xattr f args kwn kwv b fn first second hm ht hx hk =>
    exact .xattr f args kwn kwv b fn first second (hsub _ hm) ht hx hk
  | xattrPrefix f args kwn kwv b fn first second hm ht hx hp =>
    exact .xattrPrefix f args kwn kwv b fn first second (hsub _ hm) ht hx hp
  | sortedSubst f a0 rest kwn kwv ps lbody b iterable star hm hl hn hj hk hp =>
    exact .sortedSubst f a0 rest kwn kwv ps lbody b iterable star (hsub _ hm) hl hn hj hk hp
  | defaultdictFactory f factory rest kwn kwv b full hm hn =>
    exact .defaultdictFactory f factory rest kwn kwv b full (hsub _ hm) hn

/-! ### `Just` -/

/-- every reported name of every kind is justified by `body`. -/
structure Just (body : List Node) (s : St) : Prop where
  gets : ∀ x ∈ s.gets, Justified body .get x.full
  sets : ∀ x ∈ s.sets, Justified body .set x.full
  dels : ∀ x ∈ s.dels, Justified body .del x.full
  calls : ∀ c ∈ s.calls, Justified body .call c.name

variable {body : List Node}

/-- the general step: everything in `s'` is old or justified. -/
theorem Just.step {s s' : St} (h : Just body s)
    (hg : ∀ x ∈ s'.gets, x ∈ s.gets ∨ Justified body .get x.full)
    (hs : ∀ x ∈ s'.sets, x ∈ s.sets ∨ Justified body .set x.full)
    (hd : ∀ x ∈ s'.dels, x ∈ s.dels ∨ Justified body .del x.full)
    (hc : ∀ c ∈ s'.calls, c ∈ s.calls ∨ Justified body .call c.name) : Just body s' :=
  ⟨fun x hx => (hg x hx).elim (h.gets x) id, fun x hx => (hs x hx).elim (h.sets x) id,
   fun x hx => (hd x hx).elim (h.dels x) id, fun c hx => (hc c hx).elim (h.calls c) id⟩

theorem Just.congr {s s' : St} (h : Just body s) (hg : s'.gets = s.gets) (hs : s'.sets = s.sets)
    (hd : s'.dels = s.dels) (hc : s'.calls = s.calls) : Just body s' :=
  ⟨fun x hx => h.gets x (hg ▸ hx), fun x hx => h.sets x (hs ▸ hx), fun x hx => h.dels x (hd ▸ hx),
   fun x hx => h.calls x (hc ▸ hx)⟩

theorem Just.empty {s : St} (hg : s.gets = []) (hs : s.sets = []) (hd : s.dels = [])
    (hc : s.calls = []) : Just body s :=
  ⟨fun x hx => (by rw [hg] at hx; cases hx), fun x hx => (by rw [hs] at hx; cases hx),
   fun x hx => (by rw [hd] at hx; cases hx), fun x hx => (by rw [hc] at hx; cases hx)⟩

theorem Just.mono {b2 : List Node} {s : St} (hsub : ∀ o ∈ occL body, o ∈ occL b2)
    (h : Just body s) : Just b2 s :=
  ⟨fun x hx => (h.gets x hx).mono hsub, fun x hx => (h.sets x hx).mono hsub,
   fun x hx => (h.dels x hx).mono hsub, fun x hx => (h.calls x hx).mono hsub⟩

theorem Just.diag {s : St} (h : Just body s) (d : Diag) : Just body (St.diag s d) :=
  h.congr rfl rfl rfl rfl
theorem Just.diagL {s : St} (h : Just body s) (ds : List Diag) : Just body (St.diagL s ds) :=
  h.congr rfl rfl rfl rfl

theorem Just.foldlGets {s : St} (h : Just body s) (l : List NameS)
    (hl : ∀ x ∈ l, Justified body .get x.full) :
    Just body { s with gets := l.foldl addTo s.gets } :=
  h.step (fun x hx => (mem_foldl_addTo.mp hx).imp id (hl x)) (fun _ hx => Or.inl hx)
    (fun _ hx => Or.inl hx) (fun _ hx => Or.inl hx)

theorem Just.addSet {s : St} (h : Just body s) (n : NameS) (hn : Justified body .set n.full) :
    Just body { s with sets := addTo s.sets n } :=
  h.step (fun _ hx => Or.inl hx) (fun x hx => (mem_addTo.mp hx).imp id (fun e => by subst e; exact hn))
    (fun _ hx => Or.inl hx) (fun _ hx => Or.inl hx)

theorem Just.addDel {s : St} (h : Just body s) (n : NameS) (hn : Justified body .del n.full) :
    Just body { s with dels := addTo s.dels n } :=
  h.step (fun _ hx => Or.inl hx) (fun _ hx => Or.inl hx)
    (fun x hx => (mem_addTo.mp hx).imp id (fun e => by subst e; exact hn)) (fun _ hx => Or.inl hx)

theorem Just.addCall {s : St} (h : Just body s) (c : CallSym) (hn : Justified body .call c.name) :
    Just body { s with calls := addCall s.calls c } :=
  h.step (fun _ hx => Or.inl hx) (fun _ hx => Or.inl hx) (fun _ hx => Or.inl hx)
    (fun x hx => (mem_addCall.mp hx).imp id (fun e => by subst e; exact hn))

theorem Just.updateResults {s : St} (h : Just body s) (n : NameS) (c : ECtx)
    (hn : Justified body (kindOf c) n.full) : Just body (updateResults s n c) := by
  cases c
  · exact h.step (fun x hx => (mem_addTo.mp hx).imp id (fun e => by subst e; exact hn)) (fun _ hx => Or.inl hx)
      (fun _ hx => Or.inl hx) (fun _ hx => Or.inl hx)
  · exact h.addSet n hn
  · exact h.addDel n hn

theorem Just.mergeIr {s t : St} (hs : Just body s) (ht : Just body t) : Just body (mergeIr s t) :=
  ⟨fun x hx => (mem_unionN.mp hx).elim (hs.gets x) (ht.gets x),
   fun x hx => (mem_unionN.mp hx).elim (hs.sets x) (ht.sets x),
   fun x hx => (mem_unionN.mp hx).elim (hs.dels x) (ht.dels x),
   fun x hx => (mem_unionC.mp hx).elim (hs.calls x) (ht.calls x)⟩

theorem Just.fresh (s : St) : Just body (freshIr s) := Just.empty rfl rfl rfl rfl

/-! ### result predicate and combinators -/

/-- when `r` is `.ok s'`, `s'` is justified. -/
def JP (body : List Node) (r : Res) : Prop := ∀ s', r = .ok s' → Just body s'

theorem JP.ok {s' : St} (h : Just body s') : JP body (.ok s') := by
  intro t ht; cases ht; exact h
theorem JP.fatal (t : St) (d : Diag) : JP body (.fatal t d) := by intro _ h; cases h
theorem JP.crash (t : St) (e : Str) : JP body (.crash t e) := by intro _ h; cases h

theorem JP.bind {r : Res} {f : St → Res} (h1 : JP body r)
    (h2 : ∀ s₁, Just body s₁ → JP body (f s₁)) : JP body (r >>>= f) := by
  intro s' hs
  obtain ⟨s₁, hr, hf⟩ := bind_ok hs
  exact h2 s₁ (h1 s₁ hr) s' hf

theorem JP.bind_gen {r : Res} {f : St → Res}
    (h : ∀ s₁, r = .ok s₁ → JP body (f s₁)) : JP body (r >>>= f) := by
  intro s' hs
  obtain ⟨s₁, hr, hf⟩ := bind_ok hs
  exact h s₁ hr s' hf

theorem JP.protect {o : St} {r : Res} (h : JP body r) : JP body (protect o r) := by
  intro s' hs; exact h s' (protect_ok_iff.mp hs)

theorem JP.liftName {s : St} {r : NameRes} {k : Str → Str → Res}
    (h : ∀ b f, r = .ok b f → JP body (k b f)) : JP body (liftName s r k) := by
  cases r with
  | ok b f => exact h b f rfl
  | fatal d => exact JP.fatal _ _
  | crash e => exact JP.crash _ _

theorem JP.getAndVerify {s : St} {n : Node} {c : ECtx} {k : St → Str → Str → Res}
    (hj : Just body s)
    (h : ∀ b f, namesOf true n = .ok b f → ∀ s₁, Just body s₁ → JP body (k s₁ b f)) :
    JP body (getAndVerify s n c k) := by
  unfold FnA.getAndVerify
  refine JP.liftName fun b f hn => ?_
  simp only
  split
  · exact h b f hn _ (hj.diag _)
  · exact h b f hn _ hj

theorem JP.addIdentifiers {s : St} (hj : Just body s) (t : Node) :
    JP body (addIdentifiers s t) := by
  unfold FnA.addIdentifiers
  split
  · exact JP.ok (hj.congr rfl rfl rfl rfl)
  · exact JP.fatal _ _
  · exact JP.crash _ _

theorem JP.removeIdentifiers {s : St} (hj : Just body s) (t : Node) :
    JP body (removeIdentifiers s t) := by
  unfold FnA.removeIdentifiers
  split
  · exact JP.ok (hj.congr rfl rfl rfl rfl)
  · exact JP.fatal _ _
  · exact JP.crash _ _

theorem JP.addIdentifiersL {s : St} (hj : Just body s) (l : List Node) :
    JP body (addIdentifiersL s l) := by
  induction l generalizing s with
  | nil => exact JP.ok hj
  | cons t r ih => exact JP.bind (JP.addIdentifiers hj t) fun s₁ h₁ => ih h₁

theorem JP.removeIdentifiersL {s : St} (hj : Just body s) (l : List Node) :
    JP body (removeIdentifiersL s l) := by
  induction l generalizing s with
  | nil => exact JP.ok hj
  | cons t r ih => exact JP.bind (JP.removeIdentifiers hj t) fun s₁ h₁ => ih h₁

theorem JP.withRegister (items : List Node) {s : St} (hj : Just body s) :
    JP body (withRegister items s) := by
  induction items generalizing s with
  | nil => exact JP.ok hj
  | cons it r ih =>
    unfold FnA.withRegister
    split
    · exact JP.ok hj
    · rename_i heq; cases heq
      exact JP.bind (JP.addIdentifiersL hj _) fun s₁ h₁ => ih h₁
    · rename_i heq; cases heq; exact ih hj

theorem JP.argNames {s : St} {args : List Node} {k : St → List Str → Res} (hj : Just body s)
    (h : ∀ s₁ l, Just body s₁ → JP body (k s₁ l)) : JP body (argNames s args k) := by
  induction args generalizing s k with
  | nil => exact h s [] hj
  | cons a r ih =>
    simp only [FnA.argNames]
    split
    · refine ih (s := if isStarred a then St.diag s (mkDiag .error "starred-arg") else s) ?_
        fun s₁ l h₁ => h s₁ _ h₁
      split
      · exact hj.diag _
      · exact hj
    · exact JP.fatal _ _
    · exact JP.crash _ _

theorem JP.kwargNames {s : St} {kwn : List (Option Str)} {kwv : List Node}
    {k : St → List (Str × Str) → Res} (hj : Just body s)
    (h : ∀ s₁ l, Just body s₁ → JP body (k s₁ l)) : JP body (kwargNames s kwn kwv k) := by
  induction kwn generalizing kwv k with
  | nil => simp only [FnA.kwargNames]; exact h s [] hj
  | cons o rn ih =>
    cases kwv with
    | nil => cases o <;> (simp only [FnA.kwargNames]; exact h s [] hj)
    | cons v rv =>
      cases o with
      | none => simp only [FnA.kwargNames]; exact ih h
      | some key =>
        simp only [FnA.kwargNames]
        split
        · exact ih fun s₁ l h₁ => h s₁ _ h₁
        · exact JP.fatal _ _
        · exact JP.crash _ _

theorem JP.mkCall {s : St} {name : Str} {args : List Node} {kwn : List (Option Str)}
    {kwv : List Node} {target : Option Sym} {self : Option Str} {k : St → CallSym → Res}
    (hj : Just body s)
    (h : ∀ s₁ c, Just body s₁ → c.name = withoutCallBrackets name → JP body (k s₁ c)) :
    JP body (mkCall s name args kwn kwv target self k) := by
  unfold FnA.mkCall
  exact JP.argNames hj fun s₁ _ h₁ => JP.kwargNames h₁ fun s₂ _ h₂ => h s₂ _ h₂ rfl

theorem JP.dynamicName {s : St} {fn : Str} {args : List Node} {k : St → NameS → Res}
    (hj : Just body s)
    (h : ∀ s₁ n first second, Just body s₁ → xattrPairOld fn args = .ok first second →
      n.full = first ++ '.' :: second → JP body (k s₁ n)) :
    JP body (dynamicName s fn args k) := by
  match args with
  | [] => exact JP.fatal _ _
  | [_] => exact JP.fatal _ _
  | a0 :: attrArg :: rest =>
    cases attrArg <;>
      (simp only [FnA.dynamicName]
       split
       · rename_i first second hx
         first
           | exact h _ _ first second hj hx rfl
           | exact h _ _ first second (hj.diag _) hx rfl
       · exact JP.fatal _ _
       · exact JP.crash _ _)

theorem JP.defaultdictNamed (env : Env) (factory : Node) {s : St} (hj : Just body s)
    (h : ∀ b full, namesOf false factory = .ok b full →
      Justified body .call (withoutCallBrackets full)) :
    JP body (defaultdictNamed env factory s) := by
  unfold FnA.defaultdictNamed
  refine JP.liftName fun b name hn => ?_
  exact JP.ok ((hj.diagL _).addCall _ (h b name hn))

/-! ### `unbind` (the `sorted` key substitution) -/

theorem unbindList_mem {sw : Dict Str Str} :
    ∀ {l l' : List NameS}, Results.unbindList sw l = some l' → ∀ x' ∈ l',
      ∃ x ∈ l, Results.unbindName x ((Dict.get? sw x.base).getD x.base) = some x'
  | [], l', h, x', hx' => by simp [Results.unbindList] at h; subst h; cases hx'
  | n :: r, l', h, x', hx' => by
    simp only [Results.unbindList] at h
    split at h
    · rename_i n' r' hn hr
      injection h with h
      subst h
      rcases List.mem_cons.mp hx' with e | e
      · subst e; exact ⟨n, List.mem_cons_self, hn⟩
      · obtain ⟨x, hx, hu⟩ := unbindList_mem hr x' e
        exact ⟨x, List.mem_cons_of_mem _ hx, hu⟩
    · cases h

theorem unbindName_cases {x x' : NameS} {nb : Str} (h : Results.unbindName x nb = some x') :
    x' = x ∨ ∃ star : Bool, (pre star x.base).isPrefixOf x.full = true ∧
      x'.full = pre star nb ++ x.full.drop (pre star x.base).length := by
  unfold Results.unbindName at h
  split at h
  · injection h with h; exact Or.inl h.symm
  · by_cases hs : x.full.head? = some '*'
    · simp only [hs, if_true] at h
      split at h
      · rename_i hp
        injection h with h
        subst h
        exact Or.inr ⟨true, by simpa [pre] using hp, by simp [pre]⟩
      · cases h
    · simp only [hs, if_false] at h
      split at h
      · rename_i hp
        injection h with h
        subst h
        exact Or.inr ⟨false, by simpa [pre] using hp, by simp [pre]⟩
      · cases h

theorem SubL.single {t : Node} {body : List Node} (h : Sub t body) : SubL [t] body :=
  fun o ho => h o (by simpa [occL] using ho)

theorem Sub.self (lb : Node) : Sub lb [lb] := fun o ho => by simpa [occL] using ho

/-- the IR of the key lambda, after `unbind_ir_with_call_swaps({iterator: iterable})`, is
justified by the enclosing body. -/
theorem unbindSt_just {lb : Node} {l l' : St} {iterator iterable : Str}
    (hl : Just [lb] l) (hu : unbindSt l iterator iterable = some l')
    (hsubl : ∀ o ∈ occL [lb], o ∈ occL body)
    (hsubst : ∀ k m star, Justified [lb] k m → k ≠ .call →
      (pre star iterator).isPrefixOf m = true →
      Justified body k (pre star iterable ++ m.drop (pre star iterator).length)) :
    Just body l' := by
  have key : ∀ (k : Kind) (lst lst' : List NameS), k ≠ .call →
      (∀ x ∈ lst, Justified [lb] k x.full) →
      Results.unbindList [(iterator, iterable)] lst = some lst' →
      ∀ x' ∈ lst', Justified body k x'.full := by
    intro k lst lst' hk hall hun x' hx'
    obtain ⟨x, hx, hname⟩ := unbindList_mem hun x' hx'
    by_cases hb : iterator = x.base
    · have hg : (Dict.get? [(iterator, iterable)] x.base).getD x.base = iterable := by
        simp [Dict.get?, hb]
      rw [hg] at hname
      rcases unbindName_cases hname with e | ⟨star, hp, hf⟩
      · rw [e]; exact (hall x hx).mono hsubl
      · rw [hf, ← hb]
        rw [← hb] at hp
        exact hsubst k x.full star (hall x hx) hk hp
    · have hg : (Dict.get? [(iterator, iterable)] x.base).getD x.base = x.base := by
        simp [Dict.get?, hb]
      rw [hg] at hname
      simp [Results.unbindName] at hname
      subst hname
      exact (hall x hx).mono hsubl
  unfold unbindSt at hu
  simp only at hu
  split at hu
  · rename_i g st d hg hs hd
    injection hu with hu
    subst hu
    exact ⟨key .get _ _ (by decide) hl.gets hg, key .set _ _ (by decide) hl.sets hs,
      key .del _ _ (by decide) hl.dels hd, fun c hc => (hl.calls c hc).mono hsubl⟩
  · cases hu

/-! ### the whole visitor preserves `Just` -/

def AJ (body : List Node) : AssignOut → Prop
  | .done r => JP body r
  | .generic s' => Just body s'

theorem AJ.done {r : Res} (h : JP body r) : AJ body (.done r) := h
theorem AJ.generic {s' : St} (h : Just body s') : AJ body (.generic s') := h

local macro "sub_of " h:ident : term => `(fun o ho => $h o (by simp [occ, occL, ho]))

mutual
theorem visit_just (env : Env) (mn : Str) : ∀ (n : Node) (s : St) (body : List Node),
    Sub n body → Just body s → JP body (visit env mn n s)
  | .name id c, s, body, hsub, hj => by
    rw [visit]
    exact JP.getAndVerify hj fun b f hn s₁ h₁ =>
      JP.ok (h₁.updateResults _ c (.occ (roleOf c) (.name id c) (hsub _ (by simp [occ]))
        (spelled_of_ctx c true hn)))
  | .attr v a c, s, body, hsub, hj => by
    rw [visit]
    refine JP.getAndVerify hj fun b f hn s₁ h₁ => JP.bind ?_ fun s₂ h₂ =>
      JP.ok (h₂.updateResults _ c (.occ (roleOf c) (.attr v a c) (hsub _ (by simp [occ]))
        (spelled_of_ctx c true hn)))
    split
    · exact visit_just env mn v s₁ body (sub_of hsub) h₁
    · exact JP.ok h₁
  | .sub v sl c, s, body, hsub, hj => by
    rw [visit]
    refine JP.getAndVerify hj fun b f hn s₁ h₁ => JP.bind ?_ fun s₂ h₂ =>
      JP.ok (h₂.updateResults _ c (.occ (roleOf c) (.sub v sl c) (hsub _ (by simp [occ]))
        (spelled_of_ctx c true hn)))
    split
    · exact visit_just env mn v s₁ body (sub_of hsub) h₁
    · exact JP.ok h₁
  | .starred v c, s, body, hsub, hj => by
    rw [visit]
    refine JP.getAndVerify hj fun b f hn s₁ h₁ => JP.bind ?_ fun s₂ h₂ =>
      JP.ok (h₂.updateResults _ c (.occ (roleOf c) (.starred v c) (hsub _ (by simp [occ]))
        (spelled_of_ctx c true hn)))
    split
    · exact visit_just env mn v s₁ body (sub_of hsub) h₁
    · exact JP.ok h₁
  | .call f args kwn kwv, s, body, hsub, hj => by
    have hself : (Role.call, Node.call f args kwn kwv) ∈ occL body := hsub _ (by simp [occ])
    have hsa : SubL args body := sub_of hsub
    have hsk : SubL kwv body := sub_of hsub
    unfold visit
    simp only
    refine JP.liftName fun tb targetName htn => ?_
    split
    · rename_i q hq
      clear hq
      split
      · exact JP.dynamicName hj fun s₁ n first second h₁ hx hn => JP.ok (h₁.foldlGets _ (by
          intro x hx'
          rcases List.mem_cons.mp hx' with e | e
          · subst e; rw [hn]
            exact .xattr f args kwn kwv tb targetName first second hself htn hx (by decide)
          · have hp := lhsNames_spec _ _ e
            rw [hn] at hp
            exact .xattrPrefix f args kwn kwv tb targetName first second hself htn hx hp))
      split
      · exact JP.dynamicName hj fun s₁ n first second h₁ hx hn => JP.ok ((h₁.foldlGets _ (by
          intro x e
          have hp := lhsNames_spec _ _ e
          rw [hn] at hp
          exact .xattrPrefix f args kwn kwv tb targetName first second hself htn hx hp)).addSet n (by
          rw [hn]
          exact .xattr f args kwn kwv tb targetName first second hself htn hx (by decide)))
      split
      · exact JP.dynamicName hj fun s₁ n first second h₁ hx hn => JP.ok ((h₁.foldlGets _ (by
          intro x e
          have hp := lhsNames_spec _ _ e
          rw [hn] at hp
          exact .xattrPrefix f args kwn kwv tb targetName first second hself htn hx hp)).addDel n (by
          rw [hn]
          exact .xattr f args kwn kwv tb targetName first second hself htn hx (by decide)))
      split
      · split
        · exact JP.ok hj
        · rename_i a0 rest
          exact JP.bind (JP.protect (JP.bind (visit_just env mn a0 (freshIr s) body hsa.head (Just.fresh s))
            fun t ht => visitSortedKey_just env mn kwn kwv t body f a0 rest kwn kwv hself
              (fun v hv => hv) hsk ht)) fun t ht => JP.ok (hj.mergeIr ht)
      split
      · split
        · exact JP.ok hj
        · rename_i factory rest
          split
          · rename_i ps lb
            refine JP.bind (JP.protect (visit_just env mn lb _ body
              (fun o ho => hsa.head o (by simp [occ, ho])) ?_)) fun t ht =>
                JP.ok (hj.mergeIr (ht.congr rfl rfl rfl rfl))
            exact (Just.fresh s).congr rfl rfl rfl rfl
          · exact JP.defaultdictNamed env _ hj fun b full hn =>
              .defaultdictFactory f _ rest kwn kwv b full hself hn
          · exact JP.defaultdictNamed env _ hj fun b full hn =>
              .defaultdictFactory f _ rest kwn kwv b full hself hn
          · refine JP.bind (JP.protect (visit_just env mn factory _ body hsa.head ?_)) fun t ht =>
                JP.ok (hj.mergeIr (ht.congr rfl rfl rfl rfl))
            exact (Just.fresh s).congr rfl rfl rfl rfl
      · exact JP.ok hj
    · refine JP.getAndVerify hj fun b fullname hn s₁ h₁ => ?_
      refine JP.mkCall (Just.foldlGets ?_ _ ?_) fun s₂ c h₂ hc => ?_
      · split
        · split
          · exact (h₁.diagL _).diag _
          · exact h₁.diagL _
        · exact h₁.diagL _
      · intro x hx
        exact .prefix _ true b fullname hself hn (receiverPrefixes_spec _ _ hx).1
      · refine JP.bind (visitList_just env mn args _ body hsa (h₂.addCall c ?_)) fun s₃ h₃ =>
          visitList_just env mn kwv s₃ body hsk h₃
        rw [hc]
        exact .occ .call _ hself ⟨rfl, true, b, fullname, hn, rfl⟩
  | .lam ps lb, s, body, hsub, hj => by
    rw [visit]
    exact JP.bind (visit_just env mn lb _ body (sub_of hsub) (hj.congr rfl rfl rfl rfl))
      fun u hu => JP.ok (hu.congr rfl rfl rfl rfl)
  | .comp kind elts gens, s, body, hsub, hj => by
    rw [visit]
    exact JP.bind (visitList_just env mn gens _ body (sub_of hsub) (hj.congr rfl rfl rfl rfl))
      fun u hu => JP.bind (visitList_just env mn elts u body (sub_of hsub) hu)
        fun w hw => JP.ok (hw.congr rfl rfl rfl rfl)
  | .gen target iter ifs, s, body, hsub, hj => by
    rw [visit]
    exact JP.bind (JP.addIdentifiers hj _) fun s₁ h₁ =>
      JP.bind (visit_just env mn target s₁ body (sub_of hsub) h₁) fun s₂ h₂ =>
        JP.bind (visit_just env mn iter s₂ body (sub_of hsub) h₂) fun s₃ h₃ =>
          visitList_just env mn ifs s₃ body (sub_of hsub) h₃
  | .walrus t v, s, body, hsub, hj => by
    have hw : (Role.walrus, t) ∈ occL body := hsub _ (by simp [occ])
    have ht : (Role.target, t) ∈ occL body := hsub _ (by simp [occ])
    have hst : Sub t body := sub_of hsub
    have hsv : Sub v body := sub_of hsub
    rw [visit]
    refine JP.liftName fun base full hn => ?_
    have h₁ := hj.addSet ⟨base, full⟩ (.occ .walrus t hw ⟨rfl, full, hn⟩)
    refine JP.bind ?_ fun s₂ h₂ => ?_
    · split
      · exact visit_just env mn v _ body hsv h₁
      · exact JP.ok h₁
    · have h := assignDiv_just env mn v s₂ body [t] (by simpa using ht) (SubL.single hst) hsv h₂
      split
      · rename_i r hr; rw [hr] at h; exact h
      · rename_i s₃ hr; rw [hr] at h
        exact JP.bind (visit_just env mn t s₃ body hst h) fun s₄ h₄ =>
          visit_just env mn v s₄ body hsv h₄
  | .strConst _, s, body, _, hj => by rw [visit]; exact JP.ok hj
  | .const, s, body, _, hj => by rw [visit]; exact JP.ok hj
  | .seq _ elts _, s, body, hsub, hj => by
    rw [visit]; exact visitList_just env mn elts s body (sub_of hsub) hj
  | .dict keys vals, s, body, hsub, hj => by
    rw [visit]
    exact JP.bind (visitList_just env mn keys s body (sub_of hsub) hj) fun s₁ h₁ =>
      visitList_just env mn vals s₁ body (sub_of hsub) h₁
  | .assign targets v, s, body, hsub, hj => by
    have htg : ∀ t ∈ targets, (Role.target, t) ∈ occL body := fun t ht => hsub _ (by
      simp only [occ, List.mem_append, List.mem_map]
      exact Or.inl (Or.inl ⟨t, ht, rfl⟩))
    have hst : SubL targets body := sub_of hsub
    have hsv : Sub v body := sub_of hsub
    rw [visit]
    have h := assignDiv_just env mn v s body targets htg hst hsv hj
    split
    · rename_i r hr; rw [hr] at h; exact h
    · rename_i s₁ hr; rw [hr] at h
      exact JP.bind (visitList_just env mn targets s₁ body hst h) fun s₂ h₂ =>
        visit_just env mn v s₂ body hsv h₂
  | .annAssign t ann [], s, body, hsub, hj => by
    rw [visit]
    exact JP.bind (JP.addIdentifiers hj _) fun s₁ h₁ =>
      JP.bind (visit_just env mn t s₁ body (sub_of hsub) h₁) fun s₂ h₂ =>
        visit_just env mn ann s₂ body (sub_of hsub) h₂
  | .annAssign t ann (v0 :: r), s, body, hsub, hj => by
    have ht : (Role.target, t) ∈ occL body := hsub _ (by simp [occ])
    have hst : Sub t body := sub_of hsub
    have hsv : Sub v0 body := sub_of hsub
    rw [visit]
    have h := assignDiv_just env mn v0 s body [t] (by simpa using ht) (SubL.single hst) hsv hj
    split
    · rename_i r hr; rw [hr] at h; exact h
    · rename_i s₁ hr; rw [hr] at h
      exact JP.bind (visit_just env mn t s₁ body hst h) fun s₂ h₂ =>
        JP.bind (visit_just env mn ann s₂ body (sub_of hsub) h₂) fun s₃ h₃ =>
          visit_just env mn v0 s₃ body hsv h₃
  | .augAssign t v, s, body, hsub, hj => by
    have ht : (Role.target, t) ∈ occL body := hsub _ (by simp [occ])
    have hst : Sub t body := sub_of hsub
    have hsv : Sub v body := sub_of hsub
    rw [visit]
    have h := assignDiv_just env mn v s body [t] (by simpa using ht) (SubL.single hst) hsv hj
    split
    · rename_i r hr; rw [hr] at h; exact h
    · rename_i s₁ hr; rw [hr] at h
      exact JP.bind (visit_just env mn t s₁ body hst h) fun s₂ h₂ =>
        visit_just env mn v s₂ body hsv h₂
  | .delete targets, s, body, hsub, hj => by
    rw [visit]
    exact JP.bind (visitList_just env mn targets s body (sub_of hsub) hj) fun s₁ h₁ =>
      JP.removeIdentifiersL h₁ _
  | .forLoop t iter lbody orelse, s, body, hsub, hj => by
    rw [visit]
    exact JP.bind (JP.addIdentifiers hj _) fun s₁ h₁ =>
      JP.bind (visit_just env mn t s₁ body (sub_of hsub) h₁) fun s₂ h₂ =>
        JP.bind (visit_just env mn iter s₂ body (sub_of hsub) h₂) fun s₃ h₃ =>
          JP.bind (visitList_just env mn lbody s₃ body (sub_of hsub) h₃) fun s₄ h₄ =>
            visitList_just env mn orelse s₄ body (sub_of hsub) h₄
  | .withStmt items wbody, s, body, hsub, hj => by
    rw [visit]
    exact JP.bind (JP.withRegister _ hj) fun s₁ h₁ =>
      JP.bind (visitList_just env mn items s₁ body (sub_of hsub) h₁) fun s₂ h₂ =>
        visitList_just env mn wbody s₂ body (sub_of hsub) h₂
  | .withitem ce vars, s, body, hsub, hj => by
    rw [visit]
    exact JP.bind (visit_just env mn ce s body (sub_of hsub) hj) fun s₁ h₁ =>
      visitList_just env mn vars s₁ body (sub_of hsub) h₁
  | .funcDef name ps fbody, s, body, hsub, hj => by
    rw [visit]
    exact JP.bind (visitList_just env mn fbody _ body (sub_of hsub) (hj.congr rfl rfl rfl rfl))
      fun u hu => JP.ok (hu.congr rfl rfl rfl rfl)
  | .classDef _, s, body, _, hj => by rw [visit]; exact JP.ok (hj.diag _)
  | .ret [], s, body, _, hj => by rw [visit]; exact JP.ok hj
  | .ret (v0 :: r), s, body, hsub, hj => by
    have hsv : Sub v0 body := sub_of hsub
    rw [visit]
    refine visitReturnValue_just env mn v0 s _ body hsv hj fun s₁ b h₁ => ?_
    cases b
    · exact visit_just env mn v0 s₁ body hsv h₁
    · exact JP.ok h₁
  | .forbidden kind, s, body, _, hj => by rw [visit]; exact JP.fatal _ _
  | .other k kids, s, body, hsub, hj => by
    rw [visit]; exact visitList_just env mn kids s body (sub_of hsub) hj

theorem visitList_just (env : Env) (mn : Str) : ∀ (l : List Node) (s : St) (body : List Node),
    SubL l body → Just body s → JP body (visitList env mn l s)
  | [], s, body, _, hj => by rw [visitList]; exact JP.ok hj
  | n :: r, s, body, hsub, hj => by
    rw [visitList]
    exact JP.bind (visit_just env mn n s body hsub.head hj) fun s₁ h₁ =>
      visitList_just env mn r s₁ body hsub.tail h₁

theorem visitSortedKey_just (env : Env) (mn : Str) :
    ∀ (kwn : List (Option Str)) (kwv : List Node) (t : St) (body : List Node) (f a0 : Node)
      (rest : List Node) (kwn0 : List (Option Str)) (kwv0 : List Node),
      (Role.call, Node.call f (a0 :: rest) kwn0 kwv0) ∈ occL body → (∀ v ∈ kwv, v ∈ kwv0) →
      SubL kwv body → Just body t →
      JP body (visitSortedKey env mn (namesOf true a0) kwn kwv t)
  | kwn, kwv, t, body, f, a0, rest, kwn0, kwv0, hself, hin, hsk, hj => by
    unfold visitSortedKey
    split
    · rename_i k rn v rv
      split
      · split
        · rename_i ps lb
          split
          · exact JP.crash _ _
          · refine JP.liftName fun ib iterable hit => ?_
            refine JP.bind_gen fun l hl0 => ?_
            have hl : Just [lb] l := visit_just env mn lb _ [lb] (Sub.self lb)
              (Just.empty rfl rfl rfl rfl) l (protect_ok_iff.mp hl0)
            split
            · exact JP.crash _ _
            · rename_i l' hu
              refine JP.ok (hj.mergeIr (Just.congr (s := l') ?_ rfl rfl rfl rfl))
              have hlam : Sub (.lam ps lb) body := hsk.head
              refine unbindSt_just hl hu (fun o ho => hlam o (by simpa [occ, occL] using ho)) ?_
              intro k m star hjm hk hp
              exact .sortedSubst f a0 rest kwn0 kwv0 ps lb ib iterable star hself
                (hin _ List.mem_cons_self) hit hjm hk hp
        · exact visit_just env mn _ t body hsk.head hj
      · exact visitSortedKey_just env mn rn rv t body f a0 rest kwn0 kwv0 hself
          (fun v hv => hin v (List.mem_cons_of_mem _ hv)) hsk.tail hj
    · rename_i rn _ rv
      exact visitSortedKey_just env mn rn rv t body f a0 rest kwn0 kwv0 hself
        (fun v hv => hin v (List.mem_cons_of_mem _ hv)) hsk.tail hj
    · exact JP.ok hj

theorem assignDiv_just (env : Env) (mn : Str) :
    ∀ (v : Node) (s : St) (body targets : List Node),
      (∀ t ∈ targets, (Role.target, t) ∈ occL body) → SubL targets body → Sub v body →
      Just body s → AJ body (assignDiv env mn targets v s)
  | v, s, body, targets, htg, hst, hsv, hj => by
    unfold assignDiv
    split
    · split
      · exact AJ.done (JP.fatal _ _)
      · split
        · exact AJ.done (JP.liftName fun _ name _ => JP.ok (hj.congr rfl rfl rfl rfl))
        · exact AJ.done (JP.fatal _ _)
    split
    · split
      · exact AJ.done (JP.fatal _ _)
      · split
        · refine AJ.done (JP.liftName fun _ name _ => ?_)
          split
          · exact JP.ok (hj.diag _)
          · exact JP.ok (hj.congr rfl rfl rfl rfl)
        · exact AJ.done (JP.crash _ _)
    split
    · exact AJ.done (JP.fatal _ _)
    · exact AJ.done (JP.crash _ _)
    · have h := JP.addIdentifiersL hj targets
      split
      · rename_i s₁ hs; exact AJ.generic (h s₁ hs)
      · rename_i r hr
        refine AJ.done ?_
        intro s' hs'
        exact h s' hs'
    · split
      · exact AJ.done (JP.fatal _ _)
      · split
        · refine AJ.done (JP.liftName fun lhsBase lhsName hl =>
            JP.liftName fun cb className hcn => ?_)
          refine JP.mkCall (hj.diagL _) fun s₁ call h₁ hc => ?_
          refine JP.bind (JP.addIdentifiersL ((h₁.addCall call ?_).addSet ⟨lhsName, lhsBase⟩ ?_) _)
            fun s₂ h₂ => JP.bind (visitList_just env mn _ s₂ body (sub_of hsv) h₂)
              fun s₃ h₃ => visitList_just env mn _ s₃ body (sub_of hsv) h₃
          · rw [hc]
            exact .occ .call _ (hsv _ (by simp [occ])) ⟨rfl, false, cb, className, hcn, rfl⟩
          · exact .occ .target _ (htg _ List.mem_cons_self) ⟨rfl, false, lhsBase, hl⟩
        · exact AJ.done (JP.crash _ _)

theorem visitReturnValue_just (env : Env) (mn : Str) :
    ∀ (n : Node) (s : St) (k : St → Bool → Res) (body : List Node), Sub n body → Just body s →
      (∀ s₁ b, Just body s₁ → JP body (k s₁ b)) → JP body (visitReturnValue env mn n s k)
  | .seq _ elts _, s, k, body, hsub, hj, hk => by
    rw [visitReturnValue]
    exact JP.bind (visitReturnElts_just env mn elts s body (sub_of hsub) hj) fun s₁ h₁ =>
      hk s₁ true h₁
  | .dict keys vals, s, k, body, hsub, hj, hk => by
    rw [visitReturnValue]
    exact JP.bind (visitReturnElts_just env mn keys s body (sub_of hsub) hj) fun s₁ h₁ =>
      JP.bind (visitReturnElts_just env mn vals s₁ body (sub_of hsub) h₁) fun s₂ h₂ => hk s₂ true h₂
  | .call f args kwn kwv, s, k, body, hsub, hj, hk => by
    rw [visitReturnValue]
    simp only
    split
    · exact hk s false hj
    · refine JP.liftName fun _ full _ => ?_
      split
      · exact hk s false hj
      · refine JP.liftName fun cb className hcn => ?_
        refine JP.mkCall (hj.diagL _) fun s₁ call h₁ hc => ?_
        refine JP.bind (visitList_just env mn args _ body (sub_of hsub) (h₁.addCall call ?_))
          fun s₂ h₂ => JP.bind (visitList_just env mn kwv s₂ body (sub_of hsub) h₂)
            fun s₃ h₃ => hk s₃ true h₃
        rw [hc]
        exact .occ .call _ (hsub _ (by simp [occ])) ⟨rfl, false, cb, className, hcn, rfl⟩
  | .name .., s, k, _, _, hj, hk | .attr .., s, k, _, _, hj, hk | .sub .., s, k, _, _, hj, hk
  | .starred .., s, k, _, _, hj, hk | .lam .., s, k, _, _, hj, hk | .comp .., s, k, _, _, hj, hk
  | .gen .., s, k, _, _, hj, hk | .walrus .., s, k, _, _, hj, hk | .strConst _, s, k, _, _, hj, hk
  | .const, s, k, _, _, hj, hk | .assign .., s, k, _, _, hj, hk | .annAssign .., s, k, _, _, hj, hk
  | .augAssign .., s, k, _, _, hj, hk | .delete .., s, k, _, _, hj, hk
  | .forLoop .., s, k, _, _, hj, hk | .withStmt .., s, k, _, _, hj, hk
  | .withitem .., s, k, _, _, hj, hk | .funcDef .., s, k, _, _, hj, hk
  | .classDef _, s, k, _, _, hj, hk | .ret _, s, k, _, _, hj, hk | .forbidden _, s, k, _, _, hj, hk
  | .other .., s, k, _, _, hj, hk => by
    unfold visitReturnValue; exact hk s false hj

theorem visitReturnElts_just (env : Env) (mn : Str) :
    ∀ (l : List Node) (s : St) (body : List Node), SubL l body → Just body s →
      JP body (visitReturnElts env mn l s)
  | [], s, body, _, hj => by rw [visitReturnElts]; exact JP.ok hj
  | e :: r, s, body, hsub, hj => by
    rw [visitReturnElts]
    refine JP.bind (visitReturnValue_just env mn e s _ body hsub.head hj fun s₁ b h₁ => ?_)
      fun s₁ h₁ => visitReturnElts_just env mn r s₁ body hsub.tail h₁
    cases b
    · exact visit_just env mn e s₁ body hsub.head h₁
    · exact JP.ok h₁
end

/-- `analyse`: everything in the returned IR is justified by the analysed body. -/
theorem analyse_just {env : Env} {mn : Str} {root : Context} {ps : Params} {body : List Node}
    {s' : St} (h : analyse env mn root ps body = .ok s') : Just body s' := by
  rw [analyse_eq] at h
  obtain ⟨u, hu, h2⟩ := bind_ok h
  cases h2
  exact (visitList_just env mn body _ body (SubL.refl body) (Just.empty rfl rfl rfl rfl) u hu).congr
    rfl rfl rfl rfl

end Rattr.Justify

/-
  Lemmas for C09 — the deprecated namer (what `arg_name` / `kwarg_name` call) against the README
  spelling on the documented fragment `Spec.argDoc` (RattrModel/Spec/ArgSpell.lean), and the bridge
  between the two models of that namer:

    * `Naming.oldNames`  on `Naming.Expr` (RattrModel/Naming.lean, the namer-level model of C10),
    * `Rattr.oldNames`   on `Node`        (RattrModel/NodeNaming.lean, what `FnA.argNames` calls).

  `old_arg_doc`     : `argDoc e → ∃ b, Naming.oldNames true e = .ok b (Spec.spell e)`
  `old_strict_doc`  : `strictDoc e → ∃ b, Naming.oldNames s e = .ok b (Spec.spell e)`   (either `safe`)
  `bridge_old`      : the successful answers of the two models coincide on every node, for both
                      values of `safe` (failures coincide as failures; their classes are compared by the
                      harness, not here).
-/
import RattrModel.Naming
import RattrModel.Spec.ArgSpell
import RattrModel.FnAnalyser

namespace Rattr.C09S
open Rattr Rattr.Naming

/-! ### the projection `Node → Naming.Expr` and what is needed about it

Self-contained copies of the definitions of the `Consumers` section of RattrProofs/Props/C10.lean
(`toExpr`, `toExprL`, `xattr_any_isCallTo`, `oldNames_standin`, `spec_standin`, `spec_call_plain`):
Props/C09.lean imports Lemmas/VisitCtx.lean, which cannot be loaded together with the Lemmas/Visit.lean
that Props/C10.lean imports (both define `FnA.getAndVerify_ok`). RattrProofs/Lemmas/C09SpellC10.lean
proves that the two projections are the same function. -/

mutual
/-- What the namers look at of a `Node` (the function analyser's AST): the projection onto the
expression type of the namer model. Slices, keywords and expression contexts are dropped; every
node that is not a name / attribute / subscript / starred / call / string constant is `other` with
its class name. -/
def toExpr : Node → Naming.Expr
  | .name id _ => .name id
  | .attr v a _ => .attr (toExpr v) a
  | .sub v _ _ => .sub (toExpr v)
  | .starred v _ => .starred (toExpr v)
  | .call f args _ _ => .call (toExpr f) (toExprL args)
  | .strConst s => .strConst s
  | .lam ps b => .other (Node.lam ps b).className
  | .comp k e g => .other (Node.comp k e g).className
  | .gen t i f => .other (Node.gen t i f).className
  | .walrus t v => .other (Node.walrus t v).className
  | .const => .other Node.const.className
  | .seq k e c => .other (Node.seq k e c).className
  | .dict k v => .other (Node.dict k v).className
  | .assign t v => .other (Node.assign t v).className
  | .annAssign t a v => .other (Node.annAssign t a v).className
  | .augAssign t v => .other (Node.augAssign t v).className
  | .delete t => .other (Node.delete t).className
  | .forLoop t i b o => .other (Node.forLoop t i b o).className
  | .withStmt i b => .other (Node.withStmt i b).className
  | .withitem c v => .other (Node.withitem c v).className
  | .funcDef n p b => .other (Node.funcDef n p b).className
  | .classDef n => .other (Node.classDef n).className
  | .ret v => .other (Node.ret v).className
  | .forbidden k => .other (Node.forbidden k).className
  | .other k kids => .other (Node.other k kids).className
termination_by structural n => n
def toExprL : List Node → List Naming.Expr
  | [] => []
  | n :: r => toExpr n :: toExprL r
termination_by structural l => l
end



theorem xattrBuiltins_contains (b : Str) : Rattr.xattrBuiltins.contains b = isXattr b := by
  simp [Rattr.xattrBuiltins, isXattr, attrAccessBuiltins]

/-- `any(is_call_to(x, node) for x in PYTHON_ATTR_ACCESS_BUILTINS)` on the model's `Node`. -/
theorem xattr_any_isCallTo (f : Node) (args : List Node) (kwn : List (Option Str)) (kwv : List Node) :
    Rattr.xattrBuiltins.any (fun x => Rattr.isCallTo x (.call f args kwn kwv)) = isDirectXattr (toExpr f) := by
  cases f <;> simp [Rattr.isCallTo, isDirectXattr, toExpr, Rattr.xattrBuiltins, isXattr, attrAccessBuiltins]

theorem constant_chars : "Constant".toList = ['C','o','n','s','t','a','n','t'] := by decide
theorem lit_parens : Strs.lit "()" = parens := by decide
theorem lit_brackets : Strs.lit "[]" = brackets := by decide


theorem oldNames_standin (n : Node) (h : n.isNameable = false) :
    Rattr.oldNames true n = .ok (Rattr.safeName n) (Rattr.safeName n) := by
  cases n <;> first | (simp [Node.isNameable] at h; done) | simp [Rattr.oldNames]


/-- … which is what the README table says of its projection. -/
theorem spec_standin (n : Node) (h : n.isNameable = false) :
    Spec.base (toExpr n) = Rattr.safeName n ∧ Spec.spell (toExpr n) = Rattr.safeName n := by
  cases n with
  | strConst s =>
    refine ⟨?_, ?_⟩ <;>
      (show _ = '@' :: "Constant".toList; rw [constant_chars]; simp [toExpr, Spec.base, Spec.spell])
  | name _ _ => simp [Node.isNameable] at h
  | attr _ _ _ => simp [Node.isNameable] at h
  | sub _ _ _ => simp [Node.isNameable] at h
  | starred _ _ => simp [Node.isNameable] at h
  | call _ _ _ _ => simp [Node.isNameable] at h
  | _ => exact ⟨rfl, rfl⟩


theorem isXattr_false_iff (g : Str) :
    isXattr g = false ↔
      g ∉ [['d','e','l','a','t','t','r'], ['g','e','t','a','t','t','r'],
           ['h','a','s','a','t','t','r'], ['s','e','t','a','t','t','r']] := by
  simp [isXattr, attrAccessBuiltins]


/-- On a call whose function is not a direct getattr-family name the README reads `E()`. -/
theorem spec_call_plain (f : Expr) (args : List Expr)
    (h : ∀ g, f = .name g → isXattr g = false) :
    Spec.spell (.call f args) = Spec.spell f ++ parens ∧ Spec.base (.call f args) = Spec.base f := by
  cases f with
  | name g =>
    have hg := (isXattr_false_iff g).1 (h g rfl)
    match args with
    | [] => simp [Spec.spell, Spec.base, parens]
    | [_] => simp [Spec.spell, Spec.base, parens]
    | _ :: nm :: _ =>
      cases nm <;> simp [Spec.spell, Spec.base, parens, hg]
  | attr e a => simp [Spec.spell, Spec.base, parens]
  | sub e => simp [Spec.spell, Spec.base, parens]
  | starred e => simp [Spec.spell, Spec.base, parens]
  | call f' a' => simp [Spec.spell, Spec.base, parens]
  | strConst s => simp [Spec.spell, Spec.base, parens]
  | other k => simp [Spec.spell, Spec.base, parens]


/-! ### the README reading of a direct literal getattr-family call -/

theorem spec_xattr_lit (g : Str) (obj : Expr) (k : Str) (rest : List Expr) (hg : isXattr g = true) :
    Spec.spell (.call (.name g) (obj :: .strConst k :: rest)) = Spec.spell obj ++ dot ++ k := by
  have hm : g ∈ [['d','e','l','a','t','t','r'], ['g','e','t','a','t','t','r'],
                 ['h','a','s','a','t','t','r'], ['s','e','t','a','t','t','r']] := by
    simpa [isXattr, attrAccessBuiltins] using hg
  simp only [Spec.spell, hm, ↓reduceIte, dot]

theorem spec_call_nonname (f : Expr) (args : List Expr) (h : ∀ g, f ≠ .name g) :
    Spec.spell (.call f args) = Spec.spell f ++ parens :=
  (spec_call_plain f args (fun g hg => absurd hg (h g))).1

theorem spec_call_plain_name (g : Str) (args : List Expr) (hg : isXattr g = false) :
    Spec.spell (.call (.name g) args) = g ++ parens := by
  have := (spec_call_plain (.name g) args (fun g' h' => by cases h'; exact hg)).1
  simpa [Spec.spell] using this

/-! ### the deprecated namer on the documented fragment (namer-level model) -/

/-- a call that is not a direct getattr-family call: `F()`. -/
theorem old_call_of_ok (f : Expr) (args : List Expr) (s : Bool) (b sub : Str)
    (hd : isDirectXattr f = false) (hf : Naming.oldNames s f = .ok b sub) :
    Naming.oldNames s (.call f args) = .ok b (sub ++ parens) := by
  simp [Naming.oldNames, hf, hd]

mutual
theorem old_strict_doc : ∀ (e : Expr) (s : Bool), Spec.strictDoc e = true →
    ∃ b, Naming.oldNames s e = .ok b (Spec.spell e)
  | .name x, s, _ => ⟨x, by simp [Naming.oldNames, Spec.spell]⟩
  | .attr e a, s, h => by
    obtain ⟨b, hb⟩ := old_strict_doc e s (by simpa [Spec.strictDoc] using h)
    exact ⟨b, by simp [Naming.oldNames, hb, Out.mapFull, Spec.spell, dot]⟩
  | .sub e, s, h => by
    obtain ⟨b, hb⟩ := old_strict_doc e s (by simpa [Spec.strictDoc] using h)
    exact ⟨b, by simp [Naming.oldNames, hb, Out.mapFull, Spec.spell, brackets]⟩
  | .starred e, s, h => by
    obtain ⟨b, hb⟩ := old_strict_doc e s (by simpa [Spec.strictDoc] using h)
    exact ⟨b, by simp [Naming.oldNames, hb, Out.mapFull, Spec.spell, star]⟩
  | .call f args, s, h => by
    have ihf := old_strict_doc f s
    have iha := fun g => old_pair_doc g args
    cases f with
    | name g =>
      cases hg : isXattr g with
      | true =>
        have hl : Spec.litPair g args = true := by simpa [Spec.strictDoc, hg] using h
        obtain ⟨o, a, hp, hs⟩ := iha g hg hl
        exact ⟨g, by simp [Naming.oldNames, isDirectXattr, hg, hp, hs]⟩
      | false =>
        exact ⟨g, by simp [Naming.oldNames, isDirectXattr, hg, spec_call_plain_name g args hg]⟩
    | attr e a =>
      obtain ⟨b, hb⟩ := ihf (by simpa [Spec.strictDoc] using h)
      exact ⟨b, by rw [spec_call_nonname _ args (by intro g hg; cases hg)]; exact old_call_of_ok _ args s b _ rfl hb⟩
    | sub e =>
      obtain ⟨b, hb⟩ := ihf (by simpa [Spec.strictDoc] using h)
      exact ⟨b, by rw [spec_call_nonname _ args (by intro g hg; cases hg)]; exact old_call_of_ok _ args s b _ rfl hb⟩
    | starred e =>
      obtain ⟨b, hb⟩ := ihf (by simpa [Spec.strictDoc] using h)
      exact ⟨b, by rw [spec_call_nonname _ args (by intro g hg; cases hg)]; exact old_call_of_ok _ args s b _ rfl hb⟩
    | call f' args' =>
      obtain ⟨b, hb⟩ := ihf (by simpa [Spec.strictDoc] using h)
      exact ⟨b, by rw [spec_call_nonname _ args (by intro g hg; cases hg)]; exact old_call_of_ok _ args s b _ rfl hb⟩
    | strConst c => simp [Spec.strictDoc] at h
    | other k => simp [Spec.strictDoc] at h
  | .strConst _, s, h => by simp [Spec.strictDoc] at h
  | .other _, s, h => by simp [Spec.strictDoc] at h

theorem old_pair_doc : ∀ (g : Str) (args : List Expr), isXattr g = true → Spec.litPair g args = true →
    ∃ o a, Naming.xattrPair g args = .ok o a ∧ Spec.spell (.call (.name g) args) = o ++ dot ++ a
  | g, [], _, h => by simp [Spec.litPair] at h
  | g, [_], _, h => by simp [Spec.litPair] at h
  | g, .call f' args' :: nm :: rest, hg, h => by
    have ih := old_pair_doc g args' hg
    cases nm with
    | strConst k =>
      have h' : Naming.isCallTo g f' = true ∧ Spec.litPair g args' = true := by
        simpa [Spec.litPair, Spec.isStrConst] using h
      obtain ⟨o, a, hp, hs⟩ := ih h'.2
      have hf : f' = .name g := by
        cases f' <;> simp_all [Naming.isCallTo]
      subst hf
      refine ⟨o ++ dot ++ a, k, ?_, ?_⟩
      · simp [Naming.xattrPair, oldAttrName, Naming.isCallTo, hp]
      · rw [spec_xattr_lit g _ k rest hg, hs]
    | name _ => simp [Spec.litPair, Spec.isStrConst] at h
    | attr _ _ => simp [Spec.litPair, Spec.isStrConst] at h
    | sub _ => simp [Spec.litPair, Spec.isStrConst] at h
    | starred _ => simp [Spec.litPair, Spec.isStrConst] at h
    | call _ _ => simp [Spec.litPair, Spec.isStrConst] at h
    | other _ => simp [Spec.litPair, Spec.isStrConst] at h
  | g, .name id :: nm :: rest, hg, h => by
    cases nm with
    | strConst k =>
      refine ⟨id, k, ?_, ?_⟩
      · simp [Naming.xattrPair, oldAttrName, oldPlain, objOnly, Naming.oldNames]
      · rw [spec_xattr_lit g _ k rest hg]; simp [Spec.spell]
    | name _ => simp [Spec.litPair, Spec.isStrConst] at h
    | attr _ _ => simp [Spec.litPair, Spec.isStrConst] at h
    | sub _ => simp [Spec.litPair, Spec.isStrConst] at h
    | starred _ => simp [Spec.litPair, Spec.isStrConst] at h
    | call _ _ => simp [Spec.litPair, Spec.isStrConst] at h
    | other _ => simp [Spec.litPair, Spec.isStrConst] at h
  | g, .attr e a :: nm :: rest, hg, h => by
    have ih := old_strict_doc (.attr e a) false
    cases nm with
    | strConst k =>
      obtain ⟨b, hb⟩ := ih (by simpa [Spec.litPair, Spec.isStrConst, Spec.strictDoc] using h)
      refine ⟨Spec.spell (.attr e a), k, ?_, ?_⟩
      · simp only [Naming.xattrPair, hb]; simp [oldAttrName, oldPlain, objOnly]
      · rw [spec_xattr_lit g _ k rest hg]
    | name _ => simp [Spec.litPair, Spec.isStrConst] at h
    | attr _ _ => simp [Spec.litPair, Spec.isStrConst] at h
    | sub _ => simp [Spec.litPair, Spec.isStrConst] at h
    | starred _ => simp [Spec.litPair, Spec.isStrConst] at h
    | call _ _ => simp [Spec.litPair, Spec.isStrConst] at h
    | other _ => simp [Spec.litPair, Spec.isStrConst] at h
  | g, .sub e :: nm :: rest, hg, h => by
    have ih := old_strict_doc (.sub e) false
    cases nm with
    | strConst k =>
      obtain ⟨b, hb⟩ := ih (by simpa [Spec.litPair, Spec.isStrConst, Spec.strictDoc] using h)
      refine ⟨Spec.spell (.sub e), k, ?_, ?_⟩
      · simp only [Naming.xattrPair, hb]; simp [oldAttrName, oldPlain, objOnly]
      · rw [spec_xattr_lit g _ k rest hg]
    | name _ => simp [Spec.litPair, Spec.isStrConst] at h
    | attr _ _ => simp [Spec.litPair, Spec.isStrConst] at h
    | sub _ => simp [Spec.litPair, Spec.isStrConst] at h
    | starred _ => simp [Spec.litPair, Spec.isStrConst] at h
    | call _ _ => simp [Spec.litPair, Spec.isStrConst] at h
    | other _ => simp [Spec.litPair, Spec.isStrConst] at h
  | g, .starred e :: nm :: rest, hg, h => by
    have ih := old_strict_doc (.starred e) false
    cases nm with
    | strConst k =>
      obtain ⟨b, hb⟩ := ih (by simpa [Spec.litPair, Spec.isStrConst, Spec.strictDoc] using h)
      refine ⟨Spec.spell (.starred e), k, ?_, ?_⟩
      · simp only [Naming.xattrPair, hb]; simp [oldAttrName, oldPlain, objOnly]
      · rw [spec_xattr_lit g _ k rest hg]
    | name _ => simp [Spec.litPair, Spec.isStrConst] at h
    | attr _ _ => simp [Spec.litPair, Spec.isStrConst] at h
    | sub _ => simp [Spec.litPair, Spec.isStrConst] at h
    | starred _ => simp [Spec.litPair, Spec.isStrConst] at h
    | call _ _ => simp [Spec.litPair, Spec.isStrConst] at h
    | other _ => simp [Spec.litPair, Spec.isStrConst] at h
  | g, .strConst _ :: nm :: rest, _, h => by simp [Spec.litPair] at h
  | g, .other _ :: nm :: rest, _, h => by simp [Spec.litPair] at h
end

/-- **safe naming (what `arg_name` / `kwarg_name` ask for).** On the documented fragment the deprecated
namer answers, and its spelling is the README's. -/
theorem old_arg_doc : ∀ (e : Expr), Spec.argDoc e = true →
    ∃ b, Naming.oldNames true e = .ok b (Spec.spell e)
  | .name x, _ => ⟨x, by simp [Naming.oldNames, Spec.spell]⟩
  | .attr e a, h => by
    obtain ⟨b, hb⟩ := old_arg_doc e (by simpa [Spec.argDoc] using h)
    exact ⟨b, by simp [Naming.oldNames, hb, Out.mapFull, Spec.spell, dot]⟩
  | .sub e, h => by
    obtain ⟨b, hb⟩ := old_arg_doc e (by simpa [Spec.argDoc] using h)
    exact ⟨b, by simp [Naming.oldNames, hb, Out.mapFull, Spec.spell, brackets]⟩
  | .starred e, h => by
    obtain ⟨b, hb⟩ := old_arg_doc e (by simpa [Spec.argDoc] using h)
    exact ⟨b, by simp [Naming.oldNames, hb, Out.mapFull, Spec.spell, star]⟩
  | .call f args, h => by
    have ihf := old_arg_doc f
    cases f with
    | name g =>
      cases hg : isXattr g with
      | true =>
        have hl : Spec.litPair g args = true := by simpa [Spec.argDoc, hg] using h
        obtain ⟨o, a, hp, hs⟩ := old_pair_doc g args hg hl
        exact ⟨g, by simp [Naming.oldNames, isDirectXattr, hg, hp, hs]⟩
      | false =>
        exact ⟨g, by simp [Naming.oldNames, isDirectXattr, hg, spec_call_plain_name g args hg]⟩
    | attr e a =>
      obtain ⟨b, hb⟩ := ihf (by simpa [Spec.argDoc] using h)
      exact ⟨b, by rw [spec_call_nonname _ args (by intro g hg; cases hg)]; exact old_call_of_ok _ args true b _ rfl hb⟩
    | sub e =>
      obtain ⟨b, hb⟩ := ihf (by simpa [Spec.argDoc] using h)
      exact ⟨b, by rw [spec_call_nonname _ args (by intro g hg; cases hg)]; exact old_call_of_ok _ args true b _ rfl hb⟩
    | starred e =>
      obtain ⟨b, hb⟩ := ihf (by simpa [Spec.argDoc] using h)
      exact ⟨b, by rw [spec_call_nonname _ args (by intro g hg; cases hg)]; exact old_call_of_ok _ args true b _ rfl hb⟩
    | call f' args' =>
      obtain ⟨b, hb⟩ := ihf (by simpa [Spec.argDoc] using h)
      exact ⟨b, by rw [spec_call_nonname _ args (by intro g hg; cases hg)]; exact old_call_of_ok _ args true b _ rfl hb⟩
    | strConst c =>
      obtain ⟨b, hb⟩ := ihf (by simp [Spec.argDoc])
      exact ⟨b, by rw [spec_call_nonname _ args (by intro g hg; cases hg)]; exact old_call_of_ok _ args true b _ rfl hb⟩
    | other k =>
      obtain ⟨b, hb⟩ := ihf (by simp [Spec.argDoc])
      exact ⟨b, by rw [spec_call_nonname _ args (by intro g hg; cases hg)]; exact old_call_of_ok _ args true b _ rfl hb⟩
  | .strConst _, _ => ⟨literalPrefix ++ kConstant, by simp [Naming.oldNames, unnameable, Spec.spell, literalPrefix, kConstant]⟩
  | .other k, _ => ⟨literalPrefix ++ k, by simp [Naming.oldNames, unnameable, Spec.spell, literalPrefix]⟩

/-! ### the two models of the deprecated namer give the same answers

`Rattr.oldNames` (on `Node`, called by `FnA.argNames` / `kwargNames`) and `Naming.oldNames` (on the
projection `toExpr`, the namer-level model the harness ties to `get_basename_fullname_pair`) were
written separately; `bridge_old` proves that whenever one answers, the other gives the same
(base, spelling), for every node and both values of `safe`. -/

def okN : NameRes → Option (Str × Str)
  | .ok b f => some (b, f)
  | _ => none

def okE : Out → Option (Str × Str)
  | .ok b f => some (b, f)
  | _ => none

theorem okN_ok {r : NameRes} {b f : Str} : okN r = some (b, f) ↔ r = .ok b f := by
  cases r <;> simp [okN]

theorem okE_ok {r : Out} {b f : Str} : okE r = some (b, f) ↔ r = .ok b f := by
  cases r <;> simp [okE]

theorem standin_other (k : Str) (s : Bool) :
    okE (Naming.oldNames s (.other k)) = if s then some (Spec.base (.other k), Spec.spell (.other k)) else none := by
  cases s <;> simp [Naming.oldNames, unnameable, Spec.base, Spec.spell, literalPrefix, okE]

theorem standin_str (c : Str) (s : Bool) :
    okE (Naming.oldNames s (.strConst c)) = if s then some (Spec.base (.strConst c), Spec.spell (.strConst c)) else none := by
  cases s <;> simp [Naming.oldNames, unnameable, Spec.base, Spec.spell, literalPrefix, kConstant, okE]

theorem standin_node (n : Node) (s : Bool) (h : n.isNameable = false) :
    okN (Rattr.oldNames s n) = if s then some (Rattr.safeName n, Rattr.safeName n) else none := by
  cases s with
  | true => rw [oldNames_standin n h]; rfl
  | false => cases n <;> first | (simp [Node.isNameable] at h; done) | simp [Rattr.oldNames, okN]

theorem standin_bridge (n : Node) (s : Bool) (h : n.isNameable = false) :
    okN (Rattr.oldNames s n) = okE (Naming.oldNames s (toExpr n)) := by
  have hsp := spec_standin n h
  have key : (Rattr.safeName n, Rattr.safeName n) = (Spec.base (toExpr n), Spec.spell (toExpr n)) := by
    rw [hsp.1, hsp.2]
  rw [standin_node n s h, key]
  cases n <;> first
    | (simp [Node.isNameable] at h; done)
    | (simp only [toExpr]; first | exact (standin_other _ s).symm | exact (standin_str _ s).symm)

/-- the attribute text `get_xattr_obj_name_pair` computes (`attr.s`, else `<get_fullname(attr, safe=True)>`). -/
def nodeAttr (a : Node) : NameRes :=
  match a with
  | .strConst s => .ok [] s
  | a => match Rattr.oldNames true a with
    | .ok _ full => .ok [] ('<' :: full ++ ['>'])
    | r => r

/-- the object part of `get_xattr_obj_name_pair`, given the attribute text. -/
def nodeObj (x : Str) (obj : Node) (an : Str) : NameRes :=
  match obj with
  | .call (.name id _) oargs _ _ =>
    if id = x then
      match Rattr.xattrPairOld x oargs with
      | .ok o a => .ok (o ++ '.' :: a) an
      | r => r
    else .fatal (mkDiag .fatal "xattr-nested-old" x)
  | .call _ _ _ _ => .fatal (mkDiag .fatal "xattr-nested-old" x)
  | o =>
    if o.isNameable then
      match Rattr.oldNames false o with
      | .ok _ full => .ok full an
      | r => r
    else .crash "TypeError".toList

set_option smartUnfolding false in
theorem pairOld_eq (x : Str) (obj a : Node) (rest : List Node) :
    Rattr.xattrPairOld x (obj :: a :: rest) =
      match nodeAttr a with
      | .ok _ an => nodeObj x obj an
      | r => r := by
  cases a <;> cases obj <;> first | rfl | (rename_i f _ _ _; cases f <;> rfl)

/-- what `oldAttrName` does when the name argument is not a string literal. -/
theorem oldAttrName_nonstr (named : Out) (nm : Expr) (h : Spec.isStrConst nm = false) :
    oldAttrName named nm = named.mapFull angle := by
  cases nm <;> first | (simp [Spec.isStrConst] at h; done) | rfl

theorem nodeAttr_nonstr (a : Node) (h : Spec.isStrConst (toExpr a) = false) :
    nodeAttr a = match Rattr.oldNames true a with
      | .ok _ full => .ok [] ('<' :: full ++ ['>'])
      | r => r := by
  cases a <;> first | (simp [Spec.isStrConst, toExpr] at h; done) | rfl

/-- the attribute texts of the two models coincide (the bases are not used). -/
theorem attr_bridge (a : Node)
    (ih : okN (Rattr.oldNames true a) = okE (Naming.oldNames true (toExpr a))) :
    (okN (nodeAttr a)).map Prod.snd
      = (okE (oldAttrName (Naming.oldNames true (toExpr a)) (toExpr a))).map Prod.snd := by
  cases hs : Spec.isStrConst (toExpr a) with
  | true =>
    cases a <;> first
      | (simp [Spec.isStrConst, toExpr] at hs; done)
      | simp [nodeAttr, toExpr, oldAttrName, okN, okE]
  | false =>
    rw [nodeAttr_nonstr a hs, oldAttrName_nonstr _ _ hs]
    cases h1 : Rattr.oldNames true a <;> cases h2 : Naming.oldNames true (toExpr a) <;>
      simp_all [okN, okE, Out.mapFull, angle]

/-- the object part of the namer-level model's `xattrPair`, given the attribute text. -/
def exprObj (x : Str) (obj : Expr) (attr : Str) : Out :=
  match obj with
  | .call f' args' =>
    if Naming.isCallTo x f' then
      match xattrPair x args' with
      | .ok l a => .ok (l ++ dot ++ a) attr
      | o => o
    else .fatal .nestedOtherCall
  | .name id => objOnly (Naming.oldNames false (.name id)) attr
  | .attr e a => objOnly (Naming.oldNames false (.attr e a)) attr
  | .sub e => objOnly (Naming.oldNames false (.sub e)) attr
  | .starred e => objOnly (Naming.oldNames false (.starred e)) attr
  | .strConst _ => .raised .typeError
  | .other _ => .raised .typeError

theorem pairE_eq (x : Str) (obj nm : Expr) (rest : List Expr) :
    xattrPair x (obj :: nm :: rest) =
      match oldAttrName (Naming.oldNames true nm) nm with
      | .ok _ attr => exprObj x obj attr
      | o => o := by
  cases obj <;> simp only [xattrPair, exprObj, oldPlain] <;>
    cases oldAttrName (Naming.oldNames true nm) nm <;> first | rfl | simp [objOnly]

theorem obj_bridge (x : Str) (obj : Node) (an : Str)
    (iho : okN (Rattr.oldNames false obj) = okE (Naming.oldNames false (toExpr obj)))
    (ihp : ∀ f oargs kwn kwv, obj = .call f oargs kwn kwv →
      okN (Rattr.xattrPairOld x oargs) = okE (xattrPair x (toExprL oargs))) :
    okN (nodeObj x obj an) = okE (exprObj x (toExpr obj) an) := by
  cases obj with
  | call f oargs kwn kwv =>
    have ip := ihp f oargs kwn kwv rfl
    cases f with
    | name id c =>
      simp only [nodeObj, exprObj, toExpr, Naming.isCallTo]
      by_cases hid : id = x
      · subst hid
        cases h1 : Rattr.xattrPairOld id oargs <;> cases h2 : xattrPair id (toExprL oargs) <;>
          simp_all [okN, okE, dot]
      · simp [hid, okN, okE]
    | _ => simp [nodeObj, exprObj, toExpr, Naming.isCallTo, okN, okE]
  | name id c =>
    simp only [nodeObj, exprObj, toExpr, Node.isNameable] at iho ⊢
    cases h1 : Rattr.oldNames false (.name id c) <;> cases h2 : Naming.oldNames false (.name id) <;>
      simp_all [okN, okE, objOnly]
  | attr v a c =>
    simp only [nodeObj, exprObj, toExpr, Node.isNameable] at iho ⊢
    cases h1 : Rattr.oldNames false (.attr v a c) <;> cases h2 : Naming.oldNames false (.attr (toExpr v) a) <;>
      simp_all [okN, okE, objOnly]
  | sub v sl c =>
    simp only [nodeObj, exprObj, toExpr, Node.isNameable] at iho ⊢
    cases h1 : Rattr.oldNames false (.sub v sl c) <;> cases h2 : Naming.oldNames false (.sub (toExpr v)) <;>
      simp_all [okN, okE, objOnly]
  | starred v c =>
    simp only [nodeObj, exprObj, toExpr, Node.isNameable] at iho ⊢
    cases h1 : Rattr.oldNames false (.starred v c) <;> cases h2 : Naming.oldNames false (.starred (toExpr v)) <;>
      simp_all [okN, okE, objOnly]
  | _ => simp [nodeObj, exprObj, toExpr, Node.isNameable, okN, okE]

theorem pairOld_short (x : Str) : Rattr.xattrPairOld x [] = .fatal (mkDiag .fatal "xattr-too-few-old" x) := rfl
theorem pairOld_one (x : Str) (a : Node) :
    Rattr.xattrPairOld x [a] = .fatal (mkDiag .fatal "xattr-too-few-old" x) := rfl

mutual
/-- **the two models of the deprecated namer answer alike**: for every node and both values of
`safe`, `Rattr.oldNames` (the function-analyser model's namer) succeeds exactly when
`Naming.oldNames` succeeds on the projection, with the same (base, spelling). -/
theorem bridge_old (n : Node) (s : Bool) :
    okN (Rattr.oldNames s n) = okE (Naming.oldNames s (toExpr n)) := by
  cases n
  case name id c => simp [Rattr.oldNames, Naming.oldNames, toExpr, okN, okE]
  case attr v a c =>
    have ih := bridge_old v s
    simp only [Rattr.oldNames, Naming.oldNames, toExpr]
    cases h1 : Rattr.oldNames s v <;> cases h2 : Naming.oldNames s (toExpr v) <;>
      simp_all [okN, okE, Out.mapFull, dot]
  case sub v sl c =>
    have ih := bridge_old v s
    simp only [Rattr.oldNames, Naming.oldNames, toExpr]
    cases h1 : Rattr.oldNames s v <;> cases h2 : Naming.oldNames s (toExpr v) <;>
      simp_all [okN, okE, Out.mapFull, brackets, lit_brackets]
  case starred v c =>
    have ih := bridge_old v s
    simp only [Rattr.oldNames, Naming.oldNames, toExpr]
    cases h1 : Rattr.oldNames s v <;> cases h2 : Naming.oldNames s (toExpr v) <;>
      simp_all [okN, okE, Out.mapFull, star]
  case call f args kwn kwv =>
    have ihf := bridge_old f s
    have iha := fun x => bridge_pair x args
    simp only [Rattr.oldNames, Naming.oldNames, toExpr, xattr_any_isCallTo]
    cases h1 : Rattr.oldNames s f <;> cases h2 : Naming.oldNames s (toExpr f) <;>
      simp_all [okN, okE]
    rename_i b1 f1 b2 f2
    obtain ⟨hb, hf⟩ := ihf
    subst hb hf
    cases hd : isDirectXattr (toExpr f) with
    | false => simp [lit_parens, parens]
    | true =>
      have ip := iha b1
      simp only [if_true]
      cases h3 : Rattr.xattrPairOld b1 args <;> cases h4 : xattrPair b1 (toExprL args) <;>
        simp_all [okN, okE, dot]
  all_goals exact standin_bridge _ s rfl
termination_by sizeOf n
decreasing_by all_goals first | omega | (simp_wf; omega) | (simp_wf; simp; omega)

theorem bridge_pair (x : Str) (args : List Node) :
    okN (Rattr.xattrPairOld x args) = okE (xattrPair x (toExprL args)) := by
  match args with
  | [] => simp [pairOld_short, xattrPair, toExprL, okN, okE]
  | [a] => simp [pairOld_one, xattrPair, toExprL, okN, okE]
  | obj :: a :: rest =>
    have ha := attr_bridge a (bridge_old a true)
    have ho := obj_bridge x obj
    have iho := bridge_old obj false
    have ihp : ∀ f oargs kwn kwv, obj = .call f oargs kwn kwv →
        okN (Rattr.xattrPairOld x oargs) = okE (xattrPair x (toExprL oargs)) :=
      fun f oargs kwn kwv h => bridge_pair x oargs
    rw [pairOld_eq, toExprL, toExprL, pairE_eq]
    cases h1 : nodeAttr a <;>
      cases h2 : oldAttrName (Naming.oldNames true (toExpr a)) (toExpr a) <;>
      simp_all [okN, okE]
    exact ho _ ihp
termination_by sizeOf args
decreasing_by all_goals first | omega | (simp_wf; omega) | (subst_vars; simp; omega) | (simp_wf; subst_vars; simp; omega)
end

end Rattr.C09S

/-
  Helper lemmas for C11 (RattrProofs/Props/C11.lean): the regex automaton, the validators against
  the spec's predicates, `build` against `Spec.declared`, and the characterisation of `safe_eval`
  by mutual structural induction over the nested inductive `Lit`.
-/
import RattrModel.Annotations
import RattrModel.Spec.Honoured

namespace Rattr.C11
open Rattr Rattr.Ann Rattr.Strs Rattr.Spec.Honoured

theorem foldl_dead (s : Str) : s.foldl reStep .dead = .dead := by
  induction s with
  | nil => rfl
  | cons c r ih => simpa [List.foldl, reStep] using ih

theorem foldl_body (s : Str) : (s.foldl reStep .body == .body) = s.all isIdCont := by
  induction s with
  | nil => rfl
  | cons c r ih =>
    simp only [List.foldl, reStep, List.all_cons]
    by_cases h : isIdCont c
    · simp [h, ih]
    · simp [h, foldl_dead]

theorem reFullmatch_eq (s : Str) :
    reFullmatch s = (match s with | [] => false | c :: r => isIdStart c && r.all isIdCont) := by
  cases s with
  | nil => rfl
  | cons c r =>
    simp only [reFullmatch, List.foldl, reStep]
    by_cases h : isIdStart c
    · simp [h, foldl_body]
    · simp [h, foldl_dead]

theorem removePrefix_single (c : Char) (s : Str) : removePrefix s [c] = dropLeading c s := by
  cases s with
  | nil => simp [removePrefix, dropLeading]
  | cons x r =>
    by_cases h : x = c
    · subst h; simp [removePrefix, dropLeading]
    · have h' : ¬ c = x := fun e => h e.symm
      simp [removePrefix, dropLeading, h, h']

theorem isName_eq_isIdent (s : Str) : isName s = isIdent s := by
  unfold isName isIdent stripPrefixes
  rw [removePrefix_single, removePrefix_single, reFullmatch_eq]
  cases dropLeading '@' (dropLeading '*' s) <;> rfl

theorem isNameV_eq (v : PyVal) : isNameV v = isIdentV v := by
  cases v <;> simp [isNameV, isIdentV, isName_eq_isIdent]

theorem isNameV_fun : isNameV = isIdentV := funext isNameV_eq

theorem isSetOfNames_eq (v : PyVal) : isSetOfNames v = setOfIdents v := by
  cases v <;> simp [isSetOfNames, setOfIdents, isNameV_fun]

theorem isListOfNames_eq (v : PyVal) : isListOfNames v = listOfIdents v := by
  cases v <;> simp [isListOfNames, listOfIdents, isNameV_fun]

theorem checkKwItems_eq (items : List (PyVal × PyVal)) :
    checkKwItems items = items.all (fun kv => isIdentV kv.1 && isIdentV kv.2) := by
  induction items with
  | nil => rfl
  | cons kv r ih =>
    obtain ⟨k, v⟩ := kv
    simp only [checkKwItems, List.all_cons, isNameV_eq, ih]
    cases isIdentV k <;> cases isIdentV v <;> simp

/-- one call spec: either the model's verdict is the spec's, or the spec shape is the crash shape
and the model raises `AttributeError` (or has already answered `False`). -/
theorem checkSpec_cases (s : PyVal) :
    (specNoCrash s = true ∧ checkSpec s = .ok (callSpecOk s)) ∨
    (specNoCrash s = false ∧ callSpecOk s = false ∧
      (checkSpec s = .crash .noItemsAttr ∨ checkSpec s = .ok false)) := by
  cases s with
  | tuple xs =>
    match xs with
    | [] => simp [checkSpec, specNoCrash, callSpecOk]
    | [a] => simp [checkSpec, specNoCrash, callSpecOk]
    | a :: b :: c :: r => simp [checkSpec, specNoCrash, callSpecOk]
    | [tn, ta] =>
      cases ta with
      | tuple ys =>
        match ys with
        | [] => cases h : isIdentV tn <;> simp [checkSpec, specNoCrash, callSpecOk, isNameV_eq, h]
        | [a] => cases h : isIdentV tn <;> simp [checkSpec, specNoCrash, callSpecOk, isNameV_eq, h]
        | a :: b :: c :: r => cases h : isIdentV tn <;> simp [checkSpec, specNoCrash, callSpecOk, isNameV_eq, h]
        | [pa, ka] =>
          cases ka <;> cases h : isIdentV tn <;> cases h2 : listOfIdents pa <;>
            simp [checkSpec, specNoCrash, callSpecOk, isNameV_eq, isListOfNames_eq, identMap, checkKwItems_eq, h, h2]
      | _ => cases h : isIdentV tn <;> simp [checkSpec, specNoCrash, callSpecOk, isNameV_eq, h]
  | _ => simp [checkSpec, specNoCrash, callSpecOk]

theorem callSpecOk_noCrash (s : PyVal) (h : callSpecOk s = true) : specNoCrash s = true := by
  rcases checkSpec_cases s with h1 | h1
  · exact h1.1
  · rw [h1.2.1] at h; cases h

theorem checkSpecs_noCrash (xs : List PyVal) (h : xs.all specNoCrash = true) :
    checkSpecs xs = .ok (xs.all callSpecOk) := by
  induction xs with
  | nil => rfl
  | cons s r ih =>
    simp only [List.all_cons, Bool.and_eq_true] at h
    rcases checkSpec_cases s with h1 | h1
    · simp only [checkSpecs, h1.2, List.all_cons]
      cases hc : callSpecOk s
      · simp
      · simp [ih h.2]
    · rw [h1.1] at h; cases h.1

theorem checkSpecs_ok_true (xs : List PyVal) (h : checkSpecs xs = .ok true) :
    xs.all callSpecOk = true := by
  induction xs with
  | nil => rfl
  | cons s r ih =>
    simp only [checkSpecs] at h
    rcases checkSpec_cases s with h1 | h1
    · rw [h1.2] at h
      cases hc : callSpecOk s
      · rw [hc] at h; simp at h
      · rw [hc] at h; simp only [List.all_cons, hc, Bool.true_and]; exact ih h
    · rcases h1.2.2 with h2 | h2 <;> rw [h2] at h <;> simp at h

theorem checkSpecs_not_fatal (xs : List PyVal) (f : Fatal) : checkSpecs xs ≠ .fatal f := by
  induction xs with
  | nil => simp [checkSpecs]
  | cons s r ih =>
    simp only [checkSpecs]
    rcases checkSpec_cases s with h1 | h1
    · rw [h1.2]; cases callSpecOk s <;> simp [ih]
    · rcases h1.2.2 with h2 | h2 <;> rw [h2] <;> simp

theorem checkSpecs_crash (xs : List PyVal) (c : Crash) (h : checkSpecs xs = .crash c) :
    c = .noItemsAttr ∧ xs.all specNoCrash = false := by
  induction xs with
  | nil => simp [checkSpecs] at h
  | cons s r ih =>
    simp only [checkSpecs] at h
    rcases checkSpec_cases s with h1 | h1
    · rw [h1.2] at h
      cases hc : callSpecOk s
      · rw [hc] at h; simp at h
      · rw [hc] at h
        have := ih h
        simp [List.all_cons, h1.1, this.1, this.2]
    · rcases h1.2.2 with h2 | h2
      · rw [h2] at h; simp at h; simp [List.all_cons, h1.1, h]
      · rw [h2] at h; simp at h

/-! ### names -/

theorem splitDotAux_head (t acc : Str) :
    (splitDotAux t acc).head? = some (acc.reverse ++ t.takeWhile (· != '.')) := by
  induction t generalizing acc with
  | nil => simp [splitDotAux]
  | cons c r ih =>
    simp only [splitDotAux]
    by_cases h : c = '.'
    · subst h; simp
    · simp [h, ih]

theorem asName_eq_specName (s : Str) : asName s = specName s := by
  simp [asName, specName, specBase, splitDot, splitDotAux_head, removeChar]

theorem strsOf_idents (xs : List PyVal) (h : xs.all isIdentV = true) : strsOf xs = some (strs xs) := by
  induction xs with
  | nil => rfl
  | cons x r ih =>
    simp only [List.all_cons, Bool.and_eq_true] at h
    obtain ⟨hx, hr⟩ := h
    cases x <;> simp [isIdentV] at hx
    simp [strsOf, strs, ih hr]

theorem pairsOf_idents (items : List (PyVal × PyVal))
    (h : items.all (fun kv => isIdentV kv.1 && isIdentV kv.2) = true) :
    pairsOf items = some (strPairs items) := by
  induction items with
  | nil => rfl
  | cons kv r ih =>
    obtain ⟨k, v⟩ := kv
    simp only [List.all_cons, Bool.and_eq_true] at h
    obtain ⟨⟨hk, hv⟩, hr⟩ := h
    cases k <;> simp [isIdentV] at hk
    cases v <;> simp [isIdentV] at hv
    simp [pairsOf, strPairs, ih hr]

theorem asCall_of_ok (c : PyVal) (h : callSpecOk c = true) :
    ∃ d, asCall c = some d ∧ declaredCall c = some d := by
  cases c with
  | tuple xs =>
    match xs with
    | [] => simp [callSpecOk] at h
    | [a] => simp [callSpecOk] at h
    | a :: b :: c :: r => simp [callSpecOk] at h
    | [tn, ta] =>
      cases ta with
      | tuple ys =>
        match ys with
        | [] => simp [callSpecOk] at h
        | [a] => simp [callSpecOk] at h
        | a :: b :: c :: r => simp [callSpecOk] at h
        | [pa, ka] =>
          simp only [callSpecOk, Bool.and_eq_true] at h
          obtain ⟨⟨h1, h2⟩, h3⟩ := h
          cases tn <;> simp [isIdentV] at h1
          cases pa <;> simp [listOfIdents] at h2
          cases ka <;> simp [identMap] at h3
          rename_i n ps items
          have e1 := strsOf_idents ps (by simpa using h2)
          have e2 := pairsOf_idents items (by simpa using h3)
          simp [asCall, declaredCall, e1, e2]
      | _ => simp [callSpecOk] at h
  | _ => simp [callSpecOk] at h

theorem asCalls_of_ok (cs : List PyVal) (h : cs.all callSpecOk = true) :
    asCalls cs = some (cs.filterMap declaredCall) := by
  induction cs with
  | nil => rfl
  | cons c r ih =>
    simp only [List.all_cons, Bool.and_eq_true] at h
    obtain ⟨d, hd1, hd2⟩ := asCall_of_ok c h.1
    simp [asCalls, hd1, hd2, ih h.2]

/-- what an outcome of `safe_eval` says about the syntax of the expression -/
def EvalChar (o : Outcome PyVal) (ev hc lh : Bool) : Prop :=
  match o with
  | .ok v => ev = true ∧ hc = true ∧ hashable v = lh
  | .fatal f => f = .unableToEvaluate ∧ ev = false
  | .crash c => c = .unhashable ∧ hc = false

def EvalCharL (o : Outcome (List PyVal)) (ev hc lh : Bool) : Prop :=
  match o with
  | .ok vs => ev = true ∧ hc = true ∧ hashableL vs = lh
  | .fatal f => f = .unableToEvaluate ∧ ev = false
  | .crash c => c = .unhashable ∧ hc = false

def EvalCharP (o : Outcome (List (PyVal × PyVal))) (ev hc : Bool) : Prop :=
  match o with
  | .ok _ => ev = true ∧ hc = true
  | .fatal f => f = .unableToEvaluate ∧ ev = false
  | .crash c => c = .unhashable ∧ hc = false

mutual
theorem safeEval_char (l : Lit) : EvalChar (safeEval l) (evaluable l) (hashClosed l) (litHashable l) := by
  cases l with
  | num r => simp [safeEval, EvalChar, evaluable, hashClosed, litHashable, hashable]
  | str r => simp [safeEval, EvalChar, evaluable, hashClosed, litHashable, hashable]
  | bytes r => simp [safeEval, EvalChar, evaluable, hashClosed, litHashable, hashable]
  | nameConst r => simp [safeEval, EvalChar, evaluable, hashClosed, litHashable, hashable]
  | dictUnpack => simp [safeEval, EvalChar, evaluable]
  | other => simp [safeEval, EvalChar, evaluable]
  | list xs =>
    have ih := safeEvalL_char xs
    simp only [safeEval, evaluable, hashClosed, litHashable]
    cases h : safeEvalL xs <;> simp only [h, EvalCharL] at ih <;> simp [EvalChar, ih, hashable]
  | tuple xs =>
    have ih := safeEvalL_char xs
    simp only [safeEval, evaluable, hashClosed, litHashable]
    cases h : safeEvalL xs <;> simp only [h, EvalCharL] at ih <;> simp [EvalChar, ih, hashable]
  | set xs =>
    have ih := safeEvalL_char xs
    simp only [safeEval, evaluable, hashClosed, litHashable]
    cases h : safeEvalL xs with
    | ok vs =>
      simp only [h, EvalCharL] at ih
      obtain ⟨e1, e2, e3⟩ := ih
      cases hh : hashableL vs <;> simp [EvalChar, e1, e2, ← e3, hashable, hh]
    | fatal f => simp only [h, EvalCharL] at ih; simp [EvalChar, ih]
    | crash c => simp only [h, EvalCharL] at ih; simp [EvalChar, ih]
  | dict ps =>
    have ih := safeEvalP_char ps []
    simp only [safeEval, evaluable, hashClosed, litHashable]
    cases h : safeEvalP ps [] <;> simp only [h, EvalCharP] at ih <;> simp [EvalChar, ih, hashable]
theorem safeEvalL_char (xs : List Lit) :
    EvalCharL (safeEvalL xs) (evaluableL xs) (hashClosedL xs) (litHashableL xs) := by
  cases xs with
  | nil => simp [safeEvalL, EvalCharL, evaluableL, hashClosedL, litHashableL, hashableL]
  | cons x r =>
    have ih1 := safeEval_char x
    have ih2 := safeEvalL_char r
    simp only [safeEvalL, evaluableL, hashClosedL, litHashableL]
    cases h1 : safeEval x with
    | ok v =>
      simp only [h1, EvalChar] at ih1
      obtain ⟨e1, e2, e3⟩ := ih1
      cases h2 : safeEvalL r with
      | ok vs =>
        simp only [h2, EvalCharL] at ih2
        obtain ⟨d1, d2, d3⟩ := ih2
        simp [EvalCharL, e1, e2, ← e3, d1, d2, ← d3, hashableL]
      | fatal f => simp only [h2, EvalCharL] at ih2; simp [EvalCharL, e1, ih2]
      | crash c => simp only [h2, EvalCharL] at ih2; simp [EvalCharL, e2, ih2]
    | fatal f => simp only [h1, EvalChar] at ih1; simp [EvalCharL, ih1]
    | crash c => simp only [h1, EvalChar] at ih1; simp [EvalCharL, ih1]
theorem safeEvalP_char (ps : List (Lit × Lit)) (acc : List (PyVal × PyVal)) :
    EvalCharP (safeEvalP ps acc) (evaluableP ps) (hashClosedP ps) := by
  cases ps with
  | nil => simp [safeEvalP, EvalCharP, evaluableP, hashClosedP]
  | cons kv r =>
    obtain ⟨k, v⟩ := kv
    have ih1 := safeEval_char k
    have ih2 := safeEval_char v
    simp only [safeEvalP, evaluableP, hashClosedP]
    cases h1 : safeEval k with
    | ok kvv =>
      simp only [h1, EvalChar] at ih1
      obtain ⟨e1, e2, e3⟩ := ih1
      cases h2 : safeEval v with
      | ok vv =>
        simp only [h2, EvalChar] at ih2
        obtain ⟨d1, d2, _⟩ := ih2
        cases hh : hashable kvv
        · simp [EvalCharP, e2, d2, hh, ← e3]
        · have ih3 := safeEvalP_char r (dictSet acc kvv vv)
          cases h3 : safeEvalP r (dictSet acc kvv vv) <;> simp only [h3, EvalCharP] at ih3 <;>
            simp [EvalCharP, e1, e2, d1, d2, ih3, ← e3, hh, h3]
      | fatal f => simp only [h2, EvalChar] at ih2; simp [EvalCharP, e1, ih2]
      | crash c => simp only [h2, EvalChar] at ih2; simp [EvalCharP, e2, ih2]
    | fatal f => simp only [h1, EvalChar] at ih1; simp [EvalCharP, ih1]
    | crash c => simp only [h1, EvalChar] at ih1; simp [EvalCharP, ih1]
end

/-! ### everything after `parse_annotation` -/

theorem knownKey_eq (k : Option Str) : knownKey k = keyOk k := by
  cases k with
  | none => simp [knownKey, keyOk]
  | some s => simp [knownKey, keyOk, resultKeys, Bool.or_assoc]

theorem fieldSet_eq (kv : KwVals) (k : Str) :
    isSetOfNames (kwGet kv k (.set [])) = fieldOk setOfIdents (given kv k) := by
  unfold kwGet given
  cases Dict.get? kv (some k) with
  | none => simp [fieldOk, isSetOfNames]
  | some v => simp [fieldOk, isSetOfNames_eq]

theorem namesOfSet_of_ok (kv : KwVals) (k : Str) (h : fieldOk setOfIdents (given kv k) = true) :
    namesOfSet (kwGet kv k (.set [])) = some (declaredNames (given kv k)) := by
  unfold kwGet given at *
  cases hg : Dict.get? kv (some k) with
  | none => simp [namesOfSet, declaredNames, strsOf]
  | some v =>
    rw [hg] at h
    cases v <;> simp [fieldOk, setOfIdents] at h
    rename_i xs
    have := strsOf_idents xs (by simpa using h)
    simp [namesOfSet, declaredNames, this, asName_eq_specName]

/-- everything the `calls` validator can do, against the spec's predicates -/
theorem calls_cases (kv : KwVals) :
    (NoCrashShape kv = true →
      isListOfCallSpecs (kwGet kv kCalls (.list [])) = .ok (fieldOk callSpecsOk (given kv kCalls)))
    ∧ (isListOfCallSpecs (kwGet kv kCalls (.list [])) = .ok true →
        fieldOk callSpecsOk (given kv kCalls) = true)
    ∧ (∀ f, isListOfCallSpecs (kwGet kv kCalls (.list [])) ≠ .fatal f)
    ∧ (∀ c, isListOfCallSpecs (kwGet kv kCalls (.list [])) = .crash c →
        c = .noItemsAttr ∧ NoCrashShape kv = false) := by
  unfold kwGet NoCrashShape given
  cases hg : Dict.get? kv (some kCalls) with
  | none => simp [isListOfCallSpecs, checkSpecs, fieldOk]
  | some v =>
    cases v with
    | list xs =>
      simp only [isListOfCallSpecs, fieldOk, callSpecsOk]
      exact ⟨checkSpecs_noCrash xs, checkSpecs_ok_true xs, checkSpecs_not_fatal xs, checkSpecs_crash xs⟩
    | _ => simp [isListOfCallSpecs, fieldOk, callSpecsOk]

theorem asCalls_of_field (kv : KwVals) (h : fieldOk callSpecsOk (given kv kCalls) = true) :
    ∃ cs, kwGet kv kCalls (.list []) = .list cs ∧ asCalls cs = some (declaredCalls (given kv kCalls)) := by
  unfold kwGet given at *
  cases hg : Dict.get? kv (some kCalls) with
  | none => exact ⟨[], rfl, rfl⟩
  | some v =>
    rw [hg] at h
    cases v <;> simp [fieldOk, callSpecsOk] at h
    rename_i xs
    exact ⟨xs, rfl, by simpa [declaredCalls] using asCalls_of_ok xs (by simpa using h)⟩

theorem wf_noCrash (pv : List PyVal) (kv : KwVals) (h : WellFormed pv kv = true) : NoCrashShape kv = true := by
  simp only [WellFormed, Bool.and_eq_true] at h
  have hc := h.2
  unfold NoCrashShape
  cases hg : given kv kCalls with
  | none => rfl
  | some v =>
    rw [hg] at hc
    cases v <;> simp [fieldOk, callSpecsOk] at hc ⊢
    rename_i xs
    intro x hx
    exact callSpecOk_noCrash x (hc x hx)

/-- after a successful `validate`, the fields have the spec's shapes -/
theorem validate_ok (kv : KwVals) (h : validate (rawOf kv) = .ok ()) :
    fieldOk setOfIdents (given kv kGets) = true ∧ fieldOk setOfIdents (given kv kSets) = true ∧
    fieldOk setOfIdents (given kv kDels) = true ∧ fieldOk callSpecsOk (given kv kCalls) = true := by
  unfold validate rawOf at h
  simp only [fieldSet_eq] at h
  cases h1 : fieldOk setOfIdents (given kv kGets) <;> simp [h1] at h
  cases h2 : fieldOk setOfIdents (given kv kSets) <;> simp [h2] at h
  cases h3 : fieldOk setOfIdents (given kv kDels) <;> simp [h3] at h
  refine ⟨rfl, rfl, rfl, ?_⟩
  cases h4 : isListOfCallSpecs (kwGet kv kCalls (PyVal.list [])) with
  | ok b =>
    cases b
    · simp [h4] at h
    · exact (calls_cases kv).2.1 h4
  | fatal f => simp [h4] at h
  | crash c => simp [h4] at h

/-- `as_name` / `as_call` cannot raise after a successful validation, and produce the declared IR -/
theorem build_of_fields (kv : KwVals)
    (h1 : fieldOk setOfIdents (given kv kGets) = true) (h2 : fieldOk setOfIdents (given kv kSets) = true)
    (h3 : fieldOk setOfIdents (given kv kDels) = true) (h4 : fieldOk callSpecsOk (given kv kCalls) = true) :
    build (rawOf kv) = some (declared kv) := by
  obtain ⟨cs, hcs, hac⟩ := asCalls_of_field kv h4
  simp [build, rawOf, namesOfSet_of_ok kv _ h1, namesOfSet_of_ok kv _ h2, namesOfSet_of_ok kv _ h3, hcs, hac,
    declared]

end Rattr.C11

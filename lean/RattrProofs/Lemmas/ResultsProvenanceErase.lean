/-
  Erasing the locations from the located engine (RattrModel.Provenance) gives the plain engine
  (RattrModel.Results) — the one the differential check ties to the implementation: same outcome, same
  results, same store.
-/
import RattrProofs.Lemmas.ResultsProvenance

namespace Rattr.Provenance
open Rattr Rattr.Results

variable {L : Type}

theorem names_unionL (a b : List (LName L)) : names (unionL a b) = union (names a) (names b) := by
  unfold unionL union names
  simp [List.filter_map, Function.comp_def]

theorem unbindListL_names (sw : Dict Str Str) :
    ∀ l : List (LName L), (unbindListL sw l).map names = unbindList sw (names l)
  | [] => rfl
  | x :: r => by
    have ih := unbindListL_names sw r
    simp only [unbindListL, unbindList, names, List.map_cons, unbindNameL] at ih ⊢
    cases h1 : unbindName x.n ((Dict.get? sw x.n.base).getD x.n.base) with
    | none => simp
    | some m =>
      cases h2 : unbindListL sw r with
      | none => rw [h2] at ih; simp at ih; simp [← ih]
      | some r' => rw [h2] at ih; simp at ih; simp [← ih, names]

theorem unbindIrL_erase (sw : Dict Str Str) (ir : LSets L) :
    (unbindIrL sw ir).map eraseSets = unbindIr sw (eraseSets ir) := by
  have hg := unbindListL_names sw ir.gets
  have hs := unbindListL_names sw ir.sets
  have hd := unbindListL_names sw ir.dels
  unfold unbindIrL unbindIr eraseSets
  simp only [← hg, ← hs, ← hd]
  cases unbindListL sw ir.gets <;> cases unbindListL sw ir.sets <;> cases unbindListL sw ir.dels <;> rfl

theorem eraseStore_update (σ : LStore L) (k : Key) (v : LSets L) :
    eraseStore (σ.update k v) = (eraseStore σ).update k (eraseSets v) := by
  funext j
  unfold eraseStore LStore.update Store.update
  split <;> rfl

theorem foldChildL_erase (P : Prog) (pk : Key) (σ : LStore L) (ch : Node) :
    (foldChildL P pk σ ch).map eraseStore = foldChild P pk (eraseStore σ) ch := by
  unfold foldChildL foldChild
  cases ch.edgeIn with
  | none => rfl
  | some c =>
    simp only
    have h := unbindIrL_erase (Swaps.construct (si P) (fnAt P ch.key).iface c.args).1 (σ ch.key)
    have e : eraseStore σ ch.key = eraseSets (σ ch.key) := rfl
    rw [e, ← h]
    cases unbindIrL (Swaps.construct (si P) (fnAt P ch.key).iface c.args).1 (σ ch.key) with
    | none => rfl
    | some u =>
      simp only [Option.map_some, eraseStore_update]
      congr 2
      simp only [eraseSets, names_unionL]
      rfl

theorem foldChildrenL_erase (P : Prog) (pk : Key) : ∀ (chs : List Node) (σ : LStore L),
    (foldChildrenL P pk chs σ).map eraseStore = foldChildren P pk chs (eraseStore σ)
  | [], σ => rfl
  | ch :: r, σ => by
    simp only [foldChildrenL, foldChildren]
    rw [← foldChildL_erase]
    cases foldChildL P pk σ ch with
    | none => rfl
    | some σ1 => simp only [Option.map_some]; exact foldChildrenL_erase P pk r σ1

theorem foldTreeL_erase (P : Prog) (nodes : List Node) : ∀ (is : List Nat) (σ : LStore L),
    (foldTreeL P nodes is σ).map eraseStore = foldTree P nodes is (eraseStore σ)
  | [], σ => rfl
  | i :: r, σ => by
    simp only [foldTreeL, foldTree]
    cases nodes[i]? with
    | none => exact foldTreeL_erase P nodes r σ
    | some n =>
      simp only
      rw [← foldChildrenL_erase]
      cases foldChildrenL P n.key (childrenOf nodes i) σ with
      | none => rfl
      | some σ1 => simp only [Option.map_some]; exact foldTreeL_erase P nodes r σ1

/-- erasure of an outcome of the located engine. -/
def eraseOut : Out (List (Key × LSets L) × LStore L) → Out (List (Key × IrSets) × Store)
  | .ok (rs, σ) => .ok (rs.map (fun p => (p.1, eraseSets p.2)), eraseStore σ)
  | .outOfFuel => .outOfFuel
  | .never => .never

def eraseRoot : Out (LSets L × LStore L) → Out (IrSets × Store)
  | .ok (r, σ) => .ok (eraseSets r, eraseStore σ)
  | .outOfFuel => .outOfFuel
  | .never => .never

theorem runRootL_erase (P : Prog) (σ : LStore L) (root : Key) :
    eraseRoot (runRootL P σ root) = runRoot P (eraseStore σ) root := by
  unfold runRootL runRoot
  cases callTree P root with
  | none => rfl
  | some nodes =>
    simp only
    rw [← foldTreeL_erase]
    cases foldTreeL P nodes (List.range nodes.length).reverse σ with
    | none => rfl
    | some σ1 => rfl

theorem generateL_erase (P : Prog) : ∀ (order : List Key) (σ : LStore L),
    eraseOut (generateL P order σ) = generate P order (eraseStore σ)
  | [], σ => rfl
  | f :: r, σ => by
    simp only [generateL, generate]
    rw [← runRootL_erase]
    cases h1 : runRootL P σ f with
    | outOfFuel => rfl
    | never => rfl
    | ok p =>
      obtain ⟨res, σ1⟩ := p
      simp only [eraseRoot]
      rw [← generateL_erase P r σ1]
      cases generateL P r σ1 with
      | outOfFuel => rfl
      | never => rfl
      | ok q => obtain ⟨rs, σ2⟩ := q; rfl

end Rattr.Provenance

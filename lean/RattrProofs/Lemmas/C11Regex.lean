/- The derivative matcher of `RattrModel/Regex.lean` decides exactly the language of the pattern
(denotational semantics `Matches`), for every pattern and every string. -/
import RattrModel.Regex

namespace Rattr.Regex

/-- the language of a pattern, as the `re` documentation defines it -/
inductive Matches : Re → List Char → Prop
  | eps : Matches .eps []
  | cls {k : CC} {c : Char} : k.test c = true → Matches (.cls k) [c]
  | cat {a b : Re} {s t : List Char} : Matches a s → Matches b t → Matches (.cat a b) (s ++ t)
  | altL {a b : Re} {s : List Char} : Matches a s → Matches (.alt a b) s
  | altR {a b : Re} {s : List Char} : Matches b s → Matches (.alt a b) s
  | starNil {a : Re} : Matches (.star a) []
  | starCons {a : Re} {s t : List Char} : Matches a s → Matches (.star a) t → Matches (.star a) (s ++ t)

theorem nullable_of_matches_nil {r : Re} {s : List Char} (h : Matches r s) (hs : s = []) :
    nullable r = true := by
  induction h with
  | eps => rfl
  | cls _ => cases hs
  | cat _ _ iha ihb =>
    simp only [List.append_eq_nil_iff] at hs
    simp [nullable, iha hs.1, ihb hs.2]
  | altL _ ih => simp [nullable, ih hs]
  | altR _ ih => simp [nullable, ih hs]
  | starNil => rfl
  | starCons _ _ _ _ => rfl

theorem matches_nil_of_nullable (r : Re) (h : nullable r = true) : Matches r [] := by
  induction r with
  | empty => simp [nullable] at h
  | eps => exact .eps
  | cls k => simp [nullable] at h
  | cat a b iha ihb =>
    simp only [nullable, Bool.and_eq_true] at h
    exact Matches.cat (s := []) (t := []) (iha h.1) (ihb h.2)
  | alt a b iha ihb =>
    simp only [nullable, Bool.or_eq_true] at h
    rcases h with h | h
    · exact .altL (iha h)
    · exact .altR (ihb h)
  | star a _ => exact .starNil

theorem nullable_iff (r : Re) : nullable r = true ↔ Matches r [] :=
  ⟨matches_nil_of_nullable r, fun h => nullable_of_matches_nil h rfl⟩

theorem matches_of_deriv (r : Re) (c : Char) (s : List Char) (h : Matches (deriv r c) s) :
    Matches r (c :: s) := by
  induction r generalizing s with
  | empty => cases h
  | eps => cases h
  | cls k =>
    simp only [deriv] at h
    split at h
    · next hk => cases h; exact .cls hk
    · cases h
  | cat a b iha ihb =>
    simp only [deriv] at h
    split at h
    · next hn =>
      cases h with
      | altL h1 =>
        cases h1 with
        | cat ha hb => exact Matches.cat (iha _ ha) hb
      | altR h2 =>
        exact Matches.cat (s := []) (matches_nil_of_nullable a hn) (ihb _ h2)
    · cases h with
      | cat ha hb => exact Matches.cat (iha _ ha) hb
  | alt a b iha ihb =>
    simp only [deriv] at h
    cases h with
    | altL h1 => exact .altL (iha _ h1)
    | altR h2 => exact .altR (ihb _ h2)
  | star a iha =>
    simp only [deriv] at h
    cases h with
    | cat ha hb => exact Matches.starCons (iha _ ha) hb

theorem deriv_of_matches {r : Re} {w : List Char} (h : Matches r w) :
    ∀ (c : Char) (s : List Char), w = c :: s → Matches (deriv r c) s := by
  induction h with
  | eps => intro c s hw; cases hw
  | @cls k d hk =>
    intro c s hw
    cases hw
    simp only [deriv, hk, if_true]
    exact .eps
  | @cat a b s1 t ha hb iha ihb =>
    intro c s hw
    cases s1 with
    | nil =>
      simp only [List.nil_append] at hw
      have hn : nullable a = true := nullable_of_matches_nil ha rfl
      simp only [deriv, hn, if_true]
      exact .altR (ihb c s hw)
    | cons d s1' =>
      simp only [List.cons_append, List.cons.injEq] at hw
      obtain ⟨hd, hs⟩ := hw
      subst hd; subst hs
      have h1 : Matches (.cat (deriv a d) b) (s1' ++ t) := Matches.cat (iha d s1' rfl) hb
      simp only [deriv]
      split
      · exact .altL h1
      · exact h1
  | altL _ ih => intro c s hw; exact .altL (ih c s hw)
  | altR _ ih => intro c s hw; exact .altR (ih c s hw)
  | starNil => intro c s hw; cases hw
  | @starCons a s1 t ha hb iha ihb =>
    intro c s hw
    cases s1 with
    | nil =>
      simp only [List.nil_append] at hw
      exact ihb c s hw
    | cons d s1' =>
      simp only [List.cons_append, List.cons.injEq] at hw
      obtain ⟨hd, hs⟩ := hw
      subst hd; subst hs
      simp only [deriv]
      exact Matches.cat (iha d s1' rfl) hb

theorem deriv_iff (r : Re) (c : Char) (s : List Char) :
    Matches (deriv r c) s ↔ Matches r (c :: s) :=
  ⟨matches_of_deriv r c s, fun h => deriv_of_matches h c s rfl⟩

/-- **`fullmatch` is language membership**, every pattern, every string -/
theorem fullmatch_iff (r : Re) (s : List Char) : fullmatch r s = true ↔ Matches r s := by
  induction s generalizing r with
  | nil => exact nullable_iff r
  | cons c s ih => simp only [fullmatch]; rw [ih, deriv_iff]

/-- **`match` is membership of some prefix** -/
theorem prefixmatch_iff (r : Re) (s : List Char) :
    prefixmatch r s = true ↔ ∃ p t, s = p ++ t ∧ Matches r p := by
  induction s generalizing r with
  | nil =>
    simp only [prefixmatch]
    rw [nullable_iff]
    constructor
    · intro h; exact ⟨[], [], rfl, h⟩
    · rintro ⟨p, t, hpt, hm⟩
      have : p = [] := by
        have := congrArg List.length hpt
        simp at this
        exact List.eq_nil_of_length_eq_zero (by omega)
      subst this; exact hm
  | cons c s ih =>
    simp only [prefixmatch, Bool.or_eq_true]
    constructor
    · rintro (h | h)
      · exact ⟨[], c :: s, rfl, (nullable_iff r).1 h⟩
      · obtain ⟨p, t, hpt, hm⟩ := (ih (deriv r c)).1 h
        exact ⟨c :: p, t, by simp [hpt], (deriv_iff r c p).1 hm⟩
    · rintro ⟨p, t, hpt, hm⟩
      cases p with
      | nil => exact .inl ((nullable_iff r).2 hm)
      | cons d p' =>
        simp only [List.cons_append, List.cons.injEq] at hpt
        obtain ⟨hd, hs⟩ := hpt
        subst hd
        exact .inr ((ih (deriv r c)).2 ⟨p', t, hs, (deriv_iff r c p').2 hm⟩)

theorem fullmatch_imp_prefixmatch (r : Re) (s : List Char) (h : fullmatch r s = true) :
    prefixmatch r s = true :=
  (prefixmatch_iff r s).2 ⟨s, [], by simp, (fullmatch_iff r s).1 h⟩

theorem prefixmatch_imp_searchmatch (r : Re) (s : List Char) (h : prefixmatch r s = true) :
    searchmatch r s = true := by
  cases s with
  | nil => simpa [searchmatch, prefixmatch] using h
  | cons c s => simp [searchmatch, h]

/-- a literal pattern fully matches exactly its own text -/
theorem matches_ofStr (p s : List Char) : Matches (Re.ofStr p) s ↔ s = p := by
  induction p generalizing s with
  | nil =>
    simp only [Re.ofStr]
    constructor
    · intro h; cases h; rfl
    · intro h; subst h; exact .eps
  | cons c p ih =>
    simp only [Re.ofStr]
    constructor
    · intro h
      cases h with
      | cat ha hb =>
        cases ha with
        | cls hk =>
          have := (ih _).1 hb
          subst this
          simp only [CC.test, beq_iff_eq] at hk
          subst hk; rfl
    · intro h
      subst h
      exact Matches.cat (s := [c]) (.cls (by simp [CC.test])) ((ih p).2 rfl)

/-- **`search` is membership of some infix** -/
theorem searchmatch_iff (r : Re) (s : List Char) :
    searchmatch r s = true ↔ ∃ a p t, s = a ++ p ++ t ∧ Matches r p := by
  induction s with
  | nil =>
    simp only [searchmatch]
    rw [nullable_iff]
    constructor
    · intro h; exact ⟨[], [], [], rfl, h⟩
    · rintro ⟨a, p, t, h, hm⟩
      have hl := congrArg List.length h
      simp at hl
      have : p = [] := List.eq_nil_of_length_eq_zero (by omega)
      subst this; exact hm
  | cons c s ih =>
    simp only [searchmatch, Bool.or_eq_true]
    rw [prefixmatch_iff, ih]
    constructor
    · rintro (⟨p, t, h, hm⟩ | ⟨a, p, t, h, hm⟩)
      · exact ⟨[], p, t, by simpa using h, hm⟩
      · exact ⟨c :: a, p, t, by simp [h], hm⟩
    · rintro ⟨a, p, t, h, hm⟩
      cases a with
      | nil => exact .inl ⟨p, t, by simpa using h, hm⟩
      | cons d a' =>
        simp only [List.cons_append, List.cons.injEq] at h
        exact .inr ⟨a', p, t, h.2, hm⟩

theorem isExcludedName_iff (pats : List Re) (name : List Char) :
    isExcludedName pats name = true ↔ ∃ p ∈ pats, Matches p name := by
  simp only [isExcludedName, List.any_eq_true]
  constructor
  · rintro ⟨p, hp, h⟩; exact ⟨p, hp, (fullmatch_iff p name).1 h⟩
  · rintro ⟨p, hp, h⟩; exact ⟨p, hp, (fullmatch_iff p name).2 h⟩

theorem verdicts_any (pats : List Re) (name : List Char) :
    (verdicts pats name).any id = isExcludedName pats name := by
  simp [verdicts, isExcludedName, List.any_map]

end Rattr.Regex

/-
  C03 round 3 — a static method is registered BEFORE its body is analysed
  (`ClassAnalyser.visit_static_method`: `self.context.add(fn)` precedes
  `FunctionAnalyser(method, self.context).analyse()`), so the method's own dotted name `C.m` is bound
  to its `Func` symbol while its body is visited: a directly recursive call `C.m(...)` inside `C.m`
  gets that symbol as its target, result generation finds the cycle and unrolls it once.
-/
import RattrModel.FileAnalyser
import RattrProofs.Lemmas.Swaps

namespace Rattr.FileA
open Rattr Rattr.FnA Rattr.Strs

/-- `visit_static_method` analyses the body in the context that already holds the method. -/
theorem visitStatic_registers_first (env : Env) (mn cls : Str) (m : Method) (s : FState)
    (cir : ClassIr) (k : FState → ClassIr → FOut) :
    visitStatic env mn cls m s cir k =
      analyseInto env mn m.ps m.body
        { s with ctx := Context.add s.ctx (funcSym (cls ++ '.' :: m.name) m.ps.iface) }
        (fun ir s => k s (Dict.set cir (funcSym (cls ++ '.' :: m.name) m.ps.iface) ir)) := rfl

/-- a plain `Context.add` of a name that is visible nowhere binds it -/
theorem get?_add_fresh (c : Context) (sy : Sym) (h : Context.contains c sy.name = false) :
    Context.get? (Context.add c sy) sy.name = some sy := by
  unfold Context.add
  simp only [h, Bool.not_false, Bool.or_true, if_true]
  cases c with
  | nil => simp [Context.get?, Dict.get?]
  | cons sc r => simp only [Context.get?, SwapsLemmas.get?_set_eq]

/-- binding a DIFFERENT name as an argument leaves the lookup of `x` alone -/
theorem get?_add_argument_ne (c : Context) (n x : Str) (h : n ≠ x) :
    Context.get? (Context.add c (Context.nameSym n) true) x = Context.get? c x := by
  unfold Context.add
  simp only [Bool.true_or, if_true]
  cases c with
  | nil => simp [Context.get?, Dict.get?, Context.nameSym, h]
  | cons sc r => simp only [Context.get?, Context.nameSym, SwapsLemmas.get?_set_ne sc _ h]

theorem get?_addArgs (ps : List Str) (x : Str) (h : x ∉ ps) : ∀ c : Context,
    Context.get? (ps.foldl (fun c n => Context.add c (Context.nameSym n) true) c) x = Context.get? c x := by
  induction ps with
  | nil => intro c; rfl
  | cons n r ih =>
    intro c
    simp only [List.foldl_cons]
    rw [ih (fun hm => h (List.mem_cons_of_mem _ hm))]
    exact get?_add_argument_ne c n x (fun e => h (e ▸ List.mem_cons_self))

/-- **The body of a static method sees the method.**  In the state in which
`FunctionAnalyser.analyse` starts visiting the body of `C.m` (new scope, parameters bound), the
dotted name `C.m` is bound to the method's `Func` symbol — provided nothing of that name was
visible before (a class attribute `m = …` registers the `Name` `C.m` first: then THAT stays) and no
parameter is spelled `C.m` (impossible in Python: a parameter name has no dot). -/
theorem static_body_sees_itself (c : Context) (cls : Str) (m : Method)
    (hfresh : Context.contains c (funcSym (cls ++ '.' :: m.name) m.ps.iface).name = false)
    (hps : (funcSym (cls ++ '.' :: m.name) m.ps.iface).name ∉ m.ps.all) :
    Context.get?
      (addArguments { ctx := Context.push (Context.add c (funcSym (cls ++ '.' :: m.name) m.ps.iface)) } m.ps).ctx
      (funcSym (cls ++ '.' :: m.name) m.ps.iface).name
      = some (funcSym (cls ++ '.' :: m.name) m.ps.iface) := by
  unfold addArguments
  simp only
  rw [get?_addArgs _ _ hps]
  simp only [Context.push, Context.get?, Dict.get?]
  exact get?_add_fresh c _ hfresh

end Rattr.FileA

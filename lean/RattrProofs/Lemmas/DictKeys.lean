/- `Dict.set` only appends: lemmas shared by the root-context and file-analyser developments
(kept free of other lemma files so that both `Props/C01` and `Props/C17` can import it). -/
import RattrModel.Basic

namespace Rattr

/-! ### dictionaries: `set` only appends -/

namespace Dict
variable {κ ν : Type} [DecidableEq κ]

theorem keys_set_prefix (d : Dict κ ν) (k : κ) (v : ν) : keys d <+: keys (set d k v) := by
  induction d with
  | nil => simp [keys, set]
  | cons p r ih =>
    obtain ⟨k', v'⟩ := p
    by_cases h : k' = k
    · simp [set, h, keys]
    · simp only [set, h, if_false, keys, List.map_cons]
      exact (List.prefix_cons_inj k').mpr ih

theorem keys_set_fresh (d : Dict κ ν) (k : κ) (v : ν) (h : get? d k = none) :
    keys (set d k v) = keys d ++ [k] := by
  induction d with
  | nil => simp [keys, set]
  | cons p r ih =>
    obtain ⟨k', v'⟩ := p
    by_cases hk : k' = k
    · simp [get?, hk] at h
    · simp only [get?, hk, if_false] at h
      simp [set, hk, keys] at ih ⊢
      exact ih h

theorem get?_set_same (d : Dict κ ν) (x : κ) (y : ν) : get? (set d x y) x = some y := by
  induction d with
  | nil => simp [set, get?]
  | cons p r ih =>
    obtain ⟨k, v⟩ := p
    by_cases h : k = x
    · simp [set, get?, h]
    · simp [set, get?, h, ih]

end Dict

end Rattr

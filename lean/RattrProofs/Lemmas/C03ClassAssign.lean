/-
  The instance a class initialiser is bound to (`FunctionAnalyser.visit_ClassAssign`).

  For `T = K(args)` (also `T: ann = K(args)`, `T += K(args)`, `(x := K(args))`: all go through
  `visit_AnyAssign`) with `K` a class of the context, the Call record of the initialiser carries, as
  its FIRST positional argument, the FULL spelling of the assignment target `T` (`names_of(T)[1]`:
  `holder.pt`, `table.rows[]`), not its base name; and the set recorded for the statement is that
  spelling with that base name. Result generation substitutes the initialiser's `self` by exactly
  this argument (C04), so `self.x = …` in `K.__init__` surfaces as `holder.pt.x` in the caller.
-/
import RattrProofs.Lemmas.Visit

namespace Rattr.FnA

/-- `r`, when it is `.ok s'`, satisfies `Q s'` -/
def Post (Q : St → Prop) (r : Res) : Prop := ∀ s', r = .ok s' → Q s'

theorem Post.fatal {Q : St → Prop} (t : St) (d : Diag) : Post Q (.fatal t d) := by intro _ h; cases h
theorem Post.crash {Q : St → Prop} (t : St) (e : Str) : Post Q (.crash t e) := by intro _ h; cases h

theorem Post.liftName {Q : St → Prop} {s : St} {r : NameRes} {k : Str → Str → Res}
    (h : ∀ b f, r = .ok b f → Post Q (k b f)) : Post Q (liftName s r k) := by
  unfold FnA.liftName
  cases r with
  | ok b f => exact h b f rfl
  | fatal d => exact Post.fatal _ _
  | crash e => exact Post.crash _ _

theorem Post.argNames {Q : St → Prop} {s : St} {args : List Node} {k : St → List Str → Res}
    (h : ∀ s₁ l, Post Q (k s₁ l)) : Post Q (argNames s args k) := by
  induction args generalizing s k with
  | nil => exact h s []
  | cons a r ih =>
    simp only [FnA.argNames]
    split
    · exact ih fun s₁ l => h s₁ _
    · exact Post.fatal _ _
    · exact Post.crash _ _

theorem Post.kwargNames {Q : St → Prop} {s : St} {kwn : List (Option Str)} {kwv : List Node}
    {k : St → List (Str × Str) → Res}
    (h : ∀ s₁ l, Post Q (k s₁ l)) : Post Q (kwargNames s kwn kwv k) := by
  induction kwn generalizing kwv k with
  | nil => simp only [FnA.kwargNames]; exact h s []
  | cons o rn ih =>
    cases kwv with
    | nil => cases o <;> (simp only [FnA.kwargNames]; exact h s [])
    | cons v rv =>
      cases o with
      | none => simp only [FnA.kwargNames]; exact ih h
      | some key =>
        simp only [FnA.kwargNames]
        split
        · exact ih fun s₁ l => h s₁ _
        · exact Post.fatal _ _
        · exact Post.crash _ _

/-- `Call.from_call(name, call, target, self=x)`: the record handed to the continuation has `x` as
its first positional argument. -/
theorem Post.mkCall {Q : St → Prop} {s : St} {name : Str} {args : List Node} {kwn : List (Option Str)}
    {kwv : List Node} {target : Option Sym} {x : Str} {k : St → CallSym → Res}
    (h : ∀ s₁ c, c.args.head? = some x → c.target = target → Post Q (k s₁ c)) :
    Post Q (mkCall s name args kwn kwv target (some x) k) := by
  unfold FnA.mkCall
  exact Post.argNames fun s₁ _ => Post.kwargNames fun s₂ _ => h s₂ _ (by simp) rfl

/-- a property of the recorded IR that survives every later growth of it -/
theorem Post.of_mono {Q : St → Prop} (hQ : ∀ a b, IrLe a b → Q a → Q b) {s : St} {r : Res}
    (hs : Q s) (hm : Mono s r) : Post Q r := fun s' hr => hQ s s' (hm s' hr).ir hs

/-- the call record and the set `visit_ClassAssign` leaves behind -/
def ClassAssignRecorded (name base : Str) (tgt : Option Sym) (s : St) : Prop :=
  (∃ c ∈ s.calls, c.args.head? = some name ∧ c.target = tgt) ∧ (⟨name, base⟩ : NameS) ∈ s.sets

theorem ClassAssignRecorded.mono {name base : Str} {tgt : Option Sym} (a b : St) (h : IrLe a b)
    (ha : ClassAssignRecorded name base tgt a) : ClassAssignRecorded name base tgt b := by
  obtain ⟨⟨c, hc, h1, h2⟩, hs⟩ := ha
  exact ⟨⟨c, h.calls c hc, h1, h2⟩, h.sets _ hs⟩

/-- a right-hand side `class_in_rhs` accepts and `assignment_is_one_to_one` lets through is a call. -/
theorem classInRhs_call_of_oneToOne {env : Env} {c : Context} {targets : List Node} {v : Node}
    (hc : classInRhs env c v = .ok true) (h1 : oneToOne targets v = true) :
    ∃ f a kn kv, v = .call f a kn kv := by
  cases v with
  | call f a kn kv => exact ⟨f, a, kn, kv, rfl⟩
  | seq kind elts cx =>
    simp only [classInRhs] at hc
    split at hc
    · rename_i hk
      simp only [oneToOne, isTupleOrList, Bool.and_eq_true, Bool.not_eq_true'] at h1
      have := h1.2
      simp only [Bool.or_eq_true, decide_eq_true_eq] at hk
      simp at this
      rcases hk with hk | hk
      · exact absurd hk this.1
      · exact absurd hk this.2
    · simp at hc
  | _ => simp [classInRhs] at hc

/-- **`visit_ClassAssign` binds the initialiser's instance to the FULL spelling of the target.**
For every statement `targets = value` that `visit_AnyAssign` diverts to `visit_ClassAssign` (no
lambda, no namedtuple declaration on the right, `class_in_rhs` true) and that it completes: the
first target `t` is named `(base, name) = names_of(t)`, the value is a call named `cn`, and
afterwards the function's IR holds a Call record whose first positional argument is `name` (not
`base`) and whose target is what `get_call_target` finds for the class, and the set
`Name(name, base)`. -/
theorem classAssign_records {env : Env} {mn : Str} {targets : List Node} {v : Node} {s s' : St}
    (hl : lambdaInRhs v = false) (hn : namedtupleInRhs v = false)
    (hc : classInRhs env s.ctx v = .ok true)
    (h : assignDiv env mn targets v s = .done (.ok s')) :
    ∃ t rest f args kwn kwv base name cb cn,
      targets = t :: rest ∧ v = .call f args kwn kwv ∧ namesOf false t = .ok base name ∧
      namesOf false v = .ok cb cn ∧
      ClassAssignRecorded name base (Context.getCallTarget env.ctxEnv s.ctx cn false true).1 s' := by
  unfold assignDiv at h
  simp only [hl, hn, hc, Bool.false_eq_true, if_false] at h
  by_cases h1 : oneToOne targets v = true
  · obtain ⟨f, args, kwn, kwv, ev⟩ := classInRhs_call_of_oneToOne hc h1
    subst ev
    simp only [h1, Bool.not_true, Bool.false_eq_true, if_false] at h
    cases targets with
    | nil => simp at h
    | cons t rest =>
      simp only [AssignOut.done.injEq] at h
      cases hnt : namesOf false t with
      | fatal d => rw [hnt] at h; simp [FnA.liftName] at h
      | crash e => rw [hnt] at h; simp [FnA.liftName] at h
      | ok base name =>
        cases hnv : namesOf false (Node.call f args kwn kwv) with
        | fatal d => rw [hnt, hnv] at h; simp [FnA.liftName] at h
        | crash e => rw [hnt, hnv] at h; simp [FnA.liftName] at h
        | ok cb cn =>
          refine ⟨t, rest, f, args, kwn, kwv, base, name, cb, cn, rfl, rfl, hnt, rfl, ?_⟩
          rw [hnt, hnv] at h
          simp only [FnA.liftName] at h
          refine Post.mkCall (Q := ClassAssignRecorded name base _) (fun s₁ call h1 h2 => ?_) s' h
          refine Post.of_mono ClassAssignRecorded.mono (s :=
            { s₁ with calls := addCall s₁.calls call, sets := addTo s₁.sets ⟨name, base⟩ }) ?_ ?_
          · exact ⟨⟨call, mem_addCall.mpr (Or.inr rfl), h1, h2⟩, mem_addTo.mpr (Or.inr rfl)⟩
          · exact Mono.bind (Mono.addIdentifiersL _ _) fun s₂ =>
              Mono.bind (visitList_mono env mn _ s₂) fun s₃ => visitList_mono env mn _ s₃
  · simp only [h1, Bool.not_false, if_true] at h
    cases h

end Rattr.FnA
